#!/usr/bin/env python3
"""debug aid: run rendered SQL on a small database (json: table -> rows) with python's sqlite3 and the shims"""
import sqlite3, json, sys, hashlib, math, re
COLS={"users":["id","age","city","income","score"],"orders":["id","user_id","amount","status"],"items":["order_id","price","qty"],"cities":["city","pop"]}
def mk(data, drop_unit=None):
    c=sqlite3.connect(":memory:")
    c.create_function("md5",1,lambda x: hashlib.md5(str(x).encode()).hexdigest())
    c.create_function("greatest",-1,lambda *a: None if any(x is None for x in a) else max(a))
    c.create_function("least",-1,lambda *a: None if any(x is None for x in a) else min(a))
    c.create_function("sqrt",1,lambda x: None if x is None or x<0 else math.sqrt(x))
    c.create_function("ln",1,lambda x: None if x is None or x<=0 else math.log(x))
    c.create_function("cos",1,lambda x: None if x is None else math.cos(x))
    for t,cols in COLS.items():
        c.execute("CREATE TABLE %s_tab (%s)"%(t,",".join(cols)))
        for r in data[t]:
            c.execute("INSERT INTO %s_tab VALUES (%s)"%(t,",".join("?"*len(cols))),r)
    return c
def compat(sql):
    return re.sub(r'\) AS ("[^"]+") \(("[^"]+"(, )?)+\)', r') AS \1', sql)
if __name__=="__main__":
    data=json.load(open(sys.argv[1])); sql=open(sys.argv[2]).read()
    sub=sys.argv[3] if len(sys.argv)>3 else None
    c=mk(data)
    q=compat(sql)
    if sub: q=re.sub(r'SELECT \* FROM "[^"]+"\s*$', 'SELECT * FROM "%s"'%sub, q)
    cur=c.execute(q); print([d[0] for d in cur.description])
    for r in cur.fetchall(): print(r)
