#!/usr/bin/env python3
"""Regenerate the lists of DESIGN.md section 9 (fix commits, known findings, seeds table) from
findings/known_findings.jsonl, seeded/*/meta.json and /repo's git log."""
import json, glob, subprocess, re
p = '/verif/DESIGN.md'
d = open(p).read()
fixes = [l for l in subprocess.check_output(['git', '-C', '/repo', 'log', '--format=%h %s', '--reverse']).decode().splitlines() if ' fix:' in l]
known = [json.loads(l) for l in open('/verif/findings/known_findings.jsonl')]
seeds = [(f.split('/')[3], json.load(open(f))) for f in sorted(glob.glob('/verif/seeded/*/meta.json'))]
# 9.4
a = d.index('### 9.4 Repairs committed'); b = d.index('### 9.5 Findings recorded')
t = '### 9.4 Repairs committed to /repo (`fix:` commits, oldest first)\n\nEach is one unguarded commit; the 403 pinned tests pass with each. Each is recorded as `fixed` in `findings/known_findings.jsonl`.\n\n'
t += ''.join('* `%s` %s\n' % (l.split()[0], ' '.join(l.split()[1:])) for l in fixes) + '\n'
d = d[:a] + t + d[b:]
# 9.5
a = d.index('### 9.5 Findings recorded'); b = d.index('### 9.6 Seeded changes')
t = '### 9.5 Findings recorded, not repaired (`known`)\n\nEach prints a `KNOWN-FINDING:` line when reproduced; anything else of the same property is still a violation.\n\n'
t += ''.join('* **%s** (%s) — %s\n' % (e['id'], e['call_site'].split(':')[0], e['what'][:260]) for e in known if e['status'] == 'known') + '\n'
d = d[:a] + t + d[b:]
# 9.6 table
hdr = '| seed | property | first run | caught by |\n|---|---|---|---|\n'
a = d.index(hdr) + len(hdr); b = d.index('\nA first round gave one seed per property', a)
rows = ''.join('| %s%s | %s | %s | %s |\n' % (sid, ' (round %d)' % m['round'] if m.get('round') in (2, 3, 4, 5, 6, 7, 8) else '', m['property'], m.get('first_result', '').replace('|', '/')[:240], m.get('caught_by', '').replace('|', '/')[:200]) for sid, m in seeds)
d = d[:a] + rows + d[b:]
n1 = sum(1 for _, m in seeds if m.get('round') not in (2, 3, 4, 5, 6, 7, 8)); n2 = sum(1 for _, m in seeds if m.get('round') == 2); n3 = sum(1 for _, m in seeds if m.get('round') == 3)
miss3 = sorted({m['property'] for _, m in seeds if m.get('round') == 3 and m.get('first_result', '').startswith('MISSED')})
miss2 = sorted({m['property'] for _, m in seeds if m.get('round') == 2 and m.get('first_result', '').startswith('MISSED')})
d = re.sub(r'A second round on .*? was missed .*?\.', 'A second round on %d properties (sub-agents told to avoid the first idea) was missed %d times (%s).' % (n2, len(miss2), ', '.join(miss2)), d, count=1, flags=re.S)
d = re.sub(r'A third round .*? more misses \(.*?\)\.', 'A third round on %d properties brought %d more misses (%s).' % (n3, len(miss3), ', '.join(miss3)), d, count=1, flags=re.S)
n4 = sum(1 for _, m in seeds if m.get('round') == 4)
miss4 = sorted({m['property'] for _, m in seeds if m.get('round') == 4 and m.get('first_result', '').startswith('MISSED')})
if 'A fourth round' not in d:
    d = d.replace(' A second round on ', ' A fourth round on 0 properties brought 0 misses (). A second round on ', 1)
d = re.sub(r'A fourth round .*? misses \(.*?\)\.', 'A fourth round on %d properties brought %d misses (%s).' % (n4, len(miss4), ', '.join(miss4)), d, count=1, flags=re.S)
n5 = sum(1 for _, m in seeds if m.get('round') == 5)
miss5 = sorted({m['property'] for _, m in seeds if m.get('round') == 5 and m.get('first_result', '').startswith('MISSED')})
if 'A fifth round' not in d:
    d = d.replace(' A second round on ', ' A fifth round on 0 properties brought 0 misses (). A second round on ', 1)
d = re.sub(r'A fifth round .*? misses \(.*?\)\.', 'A fifth round on %d properties brought %d misses (%s).' % (n5, len(miss5), ', '.join(miss5)), d, count=1, flags=re.S)
n6 = sum(1 for _, m in seeds if m.get('round') == 6)
miss6 = sorted({m['property'] for _, m in seeds if m.get('round') == 6 and m.get('first_result', '').startswith('MISSED')})
if 'A sixth round' not in d:
    d = d.replace(' A second round on ', ' A sixth round on 0 properties brought 0 misses (). A second round on ', 1)
d = re.sub(r'A sixth round .*? misses \(.*?\)\.', 'A sixth round on %d properties brought %d misses (%s).' % (n6, len(miss6), ', '.join(miss6)), d, count=1, flags=re.S)
n7 = sum(1 for _, m in seeds if m.get('round') == 7)
miss7 = sorted({m['property'] for _, m in seeds if m.get('round') == 7 and m.get('first_result', '').startswith('MISSED')})
if 'A seventh round' not in d:
    d = d.replace(' A second round on ', ' A seventh round on 0 properties brought 0 misses (). A second round on ', 1)
d = re.sub(r'A seventh round .*? misses \(.*?\)\.', 'A seventh round on %d properties brought %d misses (%s).' % (n7, len(miss7), ', '.join(miss7)), d, count=1, flags=re.S)
n8 = sum(1 for _, m in seeds if m.get('round') == 8)
miss8 = sorted({m['property'] for _, m in seeds if m.get('round') == 8 and m.get('first_result', '').startswith('MISSED')})
if 'An eighth round' not in d:
    d = d.replace(' A second round on ', ' An eighth round on 0 properties brought 0 misses (). A second round on ', 1)
d = re.sub(r'An eighth round .*? misses \(.*?\)\.', 'An eighth round on %d properties brought %d misses (%s).' % (n8, len(miss8), ', '.join(miss8)), d, count=1, flags=re.S)
d = re.sub(r'All \S+ are caught now;', 'All %d are caught now;' % len(seeds), d)
open(p, 'w').write(d)
print(len(fixes), 'fix commits;', sum(1 for e in known if e['status'] == 'known'), 'known;', len(seeds), 'seeds; round-2 misses:', miss2)
