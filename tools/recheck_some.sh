#!/bin/bash
# usage: recheck_some.sh <Cxx>... : as recheck_seeds.sh, for the seeds of the given properties only
cd /verif
cp -r evidence /verif/.cache/evidence_backup3 2>/dev/null
for p in "$@"; do for d in seeded/$p-*/; do
  id=$(basename $d)
  git -C /repo apply /verif/$d/patch.diff || { echo "$id: patch does not apply"; continue; }
  out=$(./qv check $p 2>&1); rc=$?
  git -C /repo checkout -- .
  if [ $rc -eq 0 ]; then echo "MISSED $id ($p)"; else echo "caught $id ($p): $(echo "$out" | grep -c '^VIOLATION') violation lines, $(echo "$out" | grep -c 'no-failing-input-found') without input"; fi
done; done
rm -rf evidence; mv /verif/.cache/evidence_backup3 evidence
git -C /repo status --short | head -3
