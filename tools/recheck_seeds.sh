#!/bin/bash
# apply every kept seeded change to /repo in turn, run the check of its property, revert; report the misses
cd /verif
cp -r evidence /verif/.cache/evidence_backup2 2>/dev/null
for d in seeded/*/; do
  id=$(basename $d); prop=$(python3 -c "import json;print(json.load(open('$d/meta.json'))['property'])")
  git -C /repo apply /verif/$d/patch.diff || { echo "$id: patch does not apply"; continue; }
  out=$(./qv check $prop 2>&1); rc=$?
  git -C /repo checkout -- .
  if [ $rc -eq 0 ]; then echo "MISSED $id ($prop)"; else echo "caught $id ($prop): $(echo "$out" | grep -c '^VIOLATION') violation lines, $(echo "$out" | grep -c 'no-failing-input-found') without input"; fi
done
rm -rf evidence; mv /verif/.cache/evidence_backup2 evidence
git -C /repo status --short | head -3
