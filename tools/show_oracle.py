#!/usr/bin/env python3
import json,collections,sys
d=json.load(open(f'/verif/.cache/run/{sys.argv[1]}/oracle.json'))
print(d.get('evaluations'),d.get('distinct'),d.get('dist'),len(d.get('violations',[])))
cnt=collections.Counter((v.get('kind'),v.get('class')) for v in d['violations'])
print(cnt)
n=int(sys.argv[2]) if len(sys.argv)>2 else 4
seen=set()
for v in d['violations']:
    k=(v.get('kind'),v.get('class'))
    if k in seen and len(seen)>1: continue
    seen.add(k)
    print(json.dumps(v)[:700]); n-=1
    if n<=0: break
print(d.get('notes'))
