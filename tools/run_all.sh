#!/bin/bash
# run every registered check (quick tier) on the current /repo and summarise
cd /verif
for p in $(python3 -c "import json;print(' '.join(c['property_id'] for c in json.load(open('MANIFEST.json'))['checks']))"); do
  out=$(./qv check $p 2>&1); rc=$?
  echo "$(echo "$out" | tail -1)  rc=$rc known=$(echo "$out" | grep -c '^KNOWN-FINDING')"
done
# every line must end with rc=0
