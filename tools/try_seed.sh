#!/bin/bash
# usage: try_seed.sh <seed-id> <worktree> <diff> <check> [<check>...]
# confirms the seed (baseline passes with it, demo fails with it, demo passes without), then runs the
# given checks with the change applied to /repo and reverts /repo straight afterwards.
id=$1; wt=$2; diff=$3; shift 3
set -o pipefail
cd $wt || exit 2
git checkout -q -- src; git apply $diff || exit 2
b=$(CARGO_NET_OFFLINE=true cargo test --offline --lib -- --exact $(cat /tmp/baseline_names.txt) 2>&1 | grep "^test result" | tail -1)
d1=$(CARGO_NET_OFFLINE=true cargo test --offline --test seeded_demo 2>&1 | grep "^test result" | tail -1)
git checkout -q -- src
d0=$(CARGO_NET_OFFLINE=true cargo test --offline --test seeded_demo 2>&1 | grep "^test result" | tail -1)
git apply $diff
echo "baseline+change: $b"; echo "demo+change:     $d1"; echo "demo original:   $d0"
mkdir -p /verif/seeded/$id
cp $diff /verif/seeded/$id/patch.diff; cp $wt/tests/seeded_demo.rs /verif/seeded/$id/seeded_demo.rs
cd /verif
git -C /repo apply $diff || exit 2
res=""
for c in "$@"; do
  out=$(./qv check $c 2>&1); rc=$?
  echo "$out" | tail -3
  res="$res $c:rc=$rc:$(echo "$out" | grep -c '^VIOLATION'):$(echo "$out" | grep -c 'no-failing-input-found')"
done
git -C /repo checkout -- .
git -C /verif checkout -- evidence/ 2>/dev/null
echo "RESULT $id $res"
echo "{\"baseline_with_change\": \"$b\", \"demo_with_change\": \"$d1\", \"demo_original\": \"$d0\", \"checks\": \"$res\"}" > /verif/seeded/$id/ran.json
