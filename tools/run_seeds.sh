#!/bin/bash
# run every registered check at several seeds on the current /repo; prints only non-clean results
cd /verif
cp -r evidence /verif/.cache/evidence_backup 2>/dev/null
for s in "$@"; do
  for p in $(python3 -c "import json;print(' '.join(c['property_id'] for c in json.load(open('MANIFEST.json'))['checks']))"); do
    out=$(VERIF_SEED=$s ./qv check $p 2>&1); rc=$?
    if [ $rc -ne 0 ]; then echo "seed=$s $p rc=$rc"; echo "$out" | grep -v '^KNOWN' | tail -4; fi
  done
  echo "seed $s done"
done
rm -rf evidence; mv /verif/.cache/evidence_backup evidence
