#!/bin/bash
# independent re-check of every compiled property file and what it depends on (about a minute)
cd /verif/coq && coqchk -silent -o -Q QV QV $(for i in 01 02 03 04 05 06 07 08 09 10 11 12 13 14 15 16 17 18; do echo QV.Props.C$i; done)
