#!/usr/bin/env python3
# usage: mk_meta.py <seed-id> <round> <what> <needs> <caught_by> <first_result> : seeded/<id>/meta.json from ran.json
import json, sys
sid, rnd, what, needs, caught, first = sys.argv[1:7]
prop = sid.split('-')[0]
ran = json.load(open('/verif/seeded/%s/ran.json' % sid))
json.dump({"property": prop, "what": what, "needs": needs, "caught_by": caught, "first_result": first, "ran": ran, "round": int(rnd),
           "how_to_run": "git -C /repo apply seeded/%s/patch.diff && ./qv check %s ; git -C /repo checkout -- ." % (sid, prop)}, open('/verif/seeded/%s/meta.json' % sid, 'w'), indent=1)
