#!/bin/bash
# usage: goal.sh <file.v> <line>  -- show the proof state before <line> (dev helper)
f=$1; n=$2
d=$(dirname $f); b=$(basename $f .v)
tmp=$d/Tmp_goal_$b.v
head -n $((n-1)) $f > $tmp
echo "Show. " >> $tmp
cd /verif/coq && timeout 300 coqc -Q QV QV $tmp 2>&1 | head -${3:-60}
rm -f $tmp $d/Tmp_goal_$b.vo $d/Tmp_goal_$b.glob $d/.Tmp_goal_$b.aux $d/Tmp_goal_$b.vok $d/Tmp_goal_$b.vos
