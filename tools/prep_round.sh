#!/bin/bash
# usage: prep_round.sh <round> <Cxx>... : scratch worktrees /tmp/wt<round>_<Cxx> and prompts /tmp/prompt<round>_<Cxx>.txt
r=$1; shift
cd /repo
for c in "$@"; do
  git worktree add -f /tmp/wt${r}_$c HEAD -q
  sed "s#/tmp/wt_$c#/tmp/wt${r}_$c#g; s#/tmp/seed_$c.diff#/tmp/seed${r}_$c.diff#g" /tmp/prompt_$c.txt > /tmp/prompt${r}_$c.txt
  python3 - "$c" "$r" <<'PY'
import json,sys,glob
c,r=sys.argv[1],sys.argv[2]
prev=[json.load(open(f))['what'] for f in sorted(glob.glob('/verif/seeded/%s-*/meta.json'%c))]
extra="\n\nIMPORTANT: earlier exercises already used these ideas, so pick a clearly DIFFERENT bug (another function, another mechanism): " + " | ".join('"%s"'%p for p in prev) + ". Also note that the checkout contains recent `fix:` commits; do not simply revert one of them. If your demonstration executes SQL, make the plain command `cargo test --offline --test seeded_demo` (no features) fail with the change and pass without it as well (for example by also checking the structure of the rewritten relation).\n"
if c=="C18": extra+="For C18: the crate on the unchanged tree already panics on a number of inputs (comma joins, t.*, VALUES in FROM, integer division or modulo by a range containing zero, some casts to BOOLEAN, zero DP budgets, LOG of a negative constant, SIN/COS of integers near i64::MAX); your seeded bug must introduce a NEW panic / overflow / division by zero / non-termination at a place that does not panic today.\n"
if c=="C17": extra+="For C17: on the unchanged tree several dialects already fail to read back their own output (VALUES in FROM for every dialect, CONVERT for MySQL / MS SQL, TO_HEX for BigQuery / Hive, MEAN / STD for Databricks, STDEV / VAR / TOP for MS SQL, booleans read back as numbers by MS SQL) and SQLite has no VAR / STD; break something that works today.\n"
if c=="C09": extra+="For C09: the premise includes 'no privacy unit exceeds the multiplicity the clipping bound allows': a change to the clipping bound / multiplicity estimate itself does not count.\n"
open('/tmp/prompt%s_%s.txt'%(r,c),'a').write(extra)
PY
done
git worktree list | wc -l
