"""Per-property configuration of the checks (see DESIGN.md section 4)."""

PROPS = {
    "C11": {
        "model_targets": ["QV/Corr/C11.vo"],
        "oracle": "laws of the statement evaluated on the implementation with membership computed directly on the interval lists",
        "trusted": [
            "correspondence: harness/src/c11.rs (case generation, f64 order embedding) and QV/Corr/C11.v",
            "modelled, not verified: src/data_type/intervals.rs (union/intersection/is_subset_of/contains of Intervals<B>); DataType-level lattice covered by the oracle stream only",
        ],
        "not_modelled": "Enum, Bytes, Set, Array, Id, Function variants; String/date bounds (same generic code, exercised through i64 and f64 only)",
        "assumptions": ["bounds compare as Z under the order embedding (NaN excluded: the code asserts on it)"],
    },
    "C15": {
        "model_targets": ["QV/Corr/C15.vo"],
        "oracle": "lookup specification re-implemented in the harness and compared with Hierarchy::get_key_value; queries with an unqualified column present in several joined relations must be refused unless coalesced by USING/NATURAL",
        "trusted": [
            "correspondence: harness/src/c15.rs (numbering of path components) and QV/Corr/C15.v",
            "modelled, not verified: src/hierarchy.rs (get_key_value, filter, prepend, and_then); sql/relation.rs and query_names.rs are exercised by the query stream only",
        ],
        "not_modelled": "sqlparser identifier parsing; scoping of CTE names in query_names.rs (query stream only)",
        "assumptions": ["BTreeMap keys are distinct (NoDup) — the iteration order is proved irrelevant"],
    },
}
