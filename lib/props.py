"""Per-property configuration of the checks (see DESIGN.md section 4)."""

PROPS = {
    "C11": {
        "model_targets": ["QV/Corr/C11.vo"],
        "oracle": "laws of the statement evaluated on the implementation with membership computed directly on the interval lists",
        "trusted": [
            "correspondence: harness/src/c11.rs (case generation, f64 order embedding) and QV/Corr/C11.v",
            "modelled, not verified: src/data_type/intervals.rs (union/intersection/is_subset_of/contains of Intervals<B>); DataType-level lattice covered by the oracle stream only",
        ],
        "not_modelled": "Enum, Bytes, Set, Array, Id, Function variants; String/date bounds (same generic code, exercised through i64 and f64 only)",
        "assumptions": ["bounds compare as Z under the order embedding (NaN excluded: the code asserts on it)"],
    },
    "C15": {
        "model_targets": ["QV/Corr/C15.vo"],
        "oracle": "lookup specification re-implemented in the harness and compared with Hierarchy::get_key_value; queries with an unqualified column present in several joined relations must be refused unless coalesced by USING/NATURAL",
        "trusted": [
            "correspondence: harness/src/c15.rs (numbering of path components) and QV/Corr/C15.v",
            "modelled, not verified: src/hierarchy.rs (get_key_value, filter, prepend, and_then); sql/relation.rs and query_names.rs are exercised by the query stream only",
        ],
        "not_modelled": "sqlparser identifier parsing; scoping of CTE names in query_names.rs (query stream only)",
        "assumptions": ["BTreeMap keys are distinct (NoDup) — the iteration order is proved irrelevant"],
    },
    "C13": {
        "generate": "GEN-RULES",
        "model_targets": ["QV/Corr/Rules.vo"],
        "oracle": "the real selector's derivations, scores and entry-point outcome are compared with the model; the model's best derivation must rewrite to what the entry point returned",
        "trusted": [
            "translator: harness/src/rules.rs::generate (probes RewritingRulesSetter, writes QV/Generated/RuleTable.v)",
            "correspondence: harness/src/rules.rs and QV/Corr/Rules.v (trees exported from RelationWithRewritingRules, signatures of rewritten relations modulo generated names)",
            "modelled, not verified: RewritingRulesEliminator, SelectRewritingRuleVisitor/RewritingRulesSelector, Score, max_by in rewriting/mod.rs; visitor.rs memoisation modelled as a tree",
        ],
        "not_modelled": "panics inside Rewriter while every candidate is rewritten (C18)",
        "assumptions": ["the visited functions are pure, so DAG memoisation equals tree recursion"],
    },
    "C01": {
        "model_targets": ["QV/Corr/C01.vo"],
        "oracle": "the input relation of every noise-adding map executed on SQLite for a generated database (values outside the declared ranges, many rows per unit) and for every neighbour obtained by deleting one privacy unit: the L2 norm over the groups of the change of each noised column must not exceed the clipping constant the sigma was scaled by (read off the IR)",
        "trusted": [
            "correspondence: harness/src/dp.rs run_c01 (executes the map holding the _CLIPPED_ columns on SQLite, sums raw and clipped values per unit and group) and QV/Corr/C01.v (rational check of the characterisation C01_clip_inactive / C01_clip_active of the model, tolerance 1e-6)",
            "ir.rs: the clipping constant is read off the scale-factor expression, sigma off the noise expression",
            "SQLite (bundled, rusqlite 0.31) with the shims of harness/src/sqlite.rs as the executor of rendered SQL",
            "real-number axioms of Coq's Reals",
            "modelled, not verified: Relation::l2_norms, scale_factor, l2_clipped_sums; the model takes the contribution of a unit as a function of that unit's rows only (C05)",
        ],
        "not_modelled": "how the per-unit contributions arise from the tracked relation (C05: unit-locality; broken by LIMIT: known finding C01-limit-under-tracking), float rounding of the SQL arithmetic",
        "assumptions": ["C > 0", "a unit's contribution vector depends on its own rows only (C05)"],
    },
    "C02": {
        "generate": "GEN-RULES",
        "model_targets": ["QV/Corr/Rules.vo"],
        "oracle": "for every acceptable derivation the real selector returns: independent label-level lineage on the real derivation object, and a walk of the rewritten IR (a protected table leaf must lie below a noise-adding map)",
        "trusted": [
            "translator: harness/src/rules.rs::generate (RuleTable.v regenerated from RewritingRulesSetter; C02_table_ok re-proved on it)",
            "correspondence: harness/src/rules.rs and QV/Corr/Rules.v",
            "modelled, not verified: which IR the Rewriter builds for each rule (checked by the IR walk on sampled queries only)",
        ],
        "not_modelled": "noise magnitude (C01/C03), unit locality (C05)",
        "assumptions": ["a Reduce with rule [PUP] -> DP is the only noise-adding step; a table labelled SD is replaced by its synthetic counterpart"],
    },
    "C03": {
        "model_targets": ["QV/Corr/C03.vo"],
        "oracle": "on the rewritten relation: every noised sum has its own recorded Gaussian entry with multiplier <= sigma/C (sorted matching); every tau filter has a recorded EpsilonDelta whose budget gives at most the sigma used",
        "trusted": [
            "correspondence: harness/src/c03.rs + ir.rs (reads sigma, clipping constant C and tau off the rewritten IR; derives the number of sums per DISTINCT group from the Reduce) and QV/Corr/C03.v (plan evaluated on rationals; ln tabulated by the implementation's f64 ln at the model's own points)",
            "real-number axioms of Coq's Reals for the theorems over R",
            "cited, not proved: a Gaussian mechanism with sigma/C = sqrt(2 ln(1.25/delta))/eps is (eps,delta)-DP for eps<1 (Dwork-Roth A.1)",
            "modelled, not verified: Reduce::differentially_private budget flow, DpAggregatesParameters::{from_dp_parameters,split}, gaussian_mechanisms, DpEvent::{compose,is_no_op}",
        ],
        "not_modelled": "f64 rounding of the budget arithmetic (compared at 1e-8); clamp of infinite multipliers",
        "assumptions": ["eps > 0, delta > 0, 0 <= share <= 1 (share < 1 when keys need thresholding)"],
    },
    "C04": {
        "model_targets": ["QV/Corr/C04.vo"],
        "oracle": "tau and sigma of the plan against an independent recomputation (own inverse normal CDF); the rewritten SQL run on SQLite with the noise draw fixed: every released key needs count of distinct units + noise > tau, a key of one unit is never released with a non-positive draw",
        "trusted": [
            "correspondence: harness/src/dp.rs run_c04 (reads tau / sigma off the rewritten IR through ir.rs, executes the rendered SQL on SQLite with sqlite::set_noise replacing the Box-Muller factor, numbers units and keys) and QV/Corr/C04.v",
            "SQLite (bundled, rusqlite 0.31) with the shims of harness/src/sqlite.rs (md5, greatest, least, random) as the executor of rendered SQL",
            "real-number axioms of Coq's Reals for the tau formula over R",
            "modelled, not verified: tau_thresholding_values, limit_col_contributions, distinct, gaussian_tau",
            "cited, not proved: tau = 1 + sigma * quantile gives (eps, delta)-DP key release (Wilson et al. 2019)",
        ],
        "not_modelled": "the random ranking of a unit's groups (a parameter of the model; the released set is bracketed), the normal quantile function (a parameter), the left join of released keys with the aggregation input",
        "assumptions": ["one noise draw per key (the Box-Muller expression is evaluated once per row of the per-key count relation)"],
    },
    "C09": {
        "model_targets": ["QV/Corr/C09.vo"],
        "oracle": "the rewritten SQL run on SQLite with every Box-Muller factor replaced by 0, on in-range databases with the multiplicity bound set to the relation size, against a reference query over the data (population variance for VAR / STD): same groups, same values to 1e-6, extra groups only with zero counts and sums",
        "trusted": [
            "correspondence: harness/src/dp.rs run_c09 (executes the rendered DP query and the (unit, value) rows behind every aggregate on SQLite) and QV/Corr/C09.v (model evaluated on exact rationals, tolerance 1e-6)",
            "SQLite (bundled, rusqlite 0.31) with the shims of harness/src/sqlite.rs as the executor of rendered SQL; sqlite::set_noise (textual replacement of the Box-Muller factor)",
            "modelled, not verified: PupRelation::differentially_private_aggregates (recombination), Reduce::split_distinct_aggregates / rewrite_distinct, the _ONE_ null indicator",
        ],
        "not_modelled": "the joins that reassemble the DISTINCT groups and the public keys (checked by the oracle: groups and values), float rounding (1e-6), the square root of STDDEV (compared through its square)",
        "assumptions": ["noise factor 0, data inside the declared ranges, no unit above the multiplicity bound (the clipping factor is then 1: C01_clip_inactive)"],
    },
    "C05": {
        "model_targets": ["QV/Corr/C05.vo"],
        "oracle": "the privacy-unit preserving rewriting executed on SQLite: every row carries a non-null unit and weight; for every unit u the rows attributed to u equal (as bags) the rows of the same rewritten query on the database restricted to the protected rows of u",
        "trusted": [
            "correspondence: harness/src/dp.rs track_skeleton (reads the operator skeleton off the rewritten relation: tracked = schema carries a _PRIVACY_UNIT_ column; unit equality searched in the ON conjuncts; Map passes the unit column or a COALESCE of unit columns) and QV/Corr/C05.v (skel_ok inside Coq, against the row oracle's verdict and the listed classes)",
            "SQLite (bundled, rusqlite 0.31) with the shims of harness/src/sqlite.rs as the executor of rendered SQL",
            "modelled, not verified: PrivacyUnitTracking::{table, map, join, join_left_published, join_right_published, reduce, set}; payload functions, join conditions and aggregates are arbitrary in the model",
        ],
        "not_modelled": "the source definition (the joins along the foreign-key path that attach the unit to a protected row: SSrc is a leaf), weights, inner DP aggregations used as published inputs (skipped: they depend on every unit by design)",
        "assumptions": ["source rows carry a non-null unit that is a function of the row and of the rows it references along the declared path"],
    },
    "C12": {
        "model_targets": ["QV/Corr/C12.vo"],
        "oracle": "the three laws evaluated on the implementation for random types over boolean/integer/float/text/optional/struct/list x 8 targets: converted value lies in the converted type, distinct values convert to distinct values, every value of a convertible type converts",
        "trusted": [
            "correspondence: harness/src/c12.rs (f64 bits) and QV/Corr/C12.v; Flocq 4.1 binary64 (binary_normalize, bits_of_b64) as the semantics of `as f64` / `as i64`",
            "real-number axioms of Coq's Reals and Classical_Prop.classic (through Flocq) for the theorems about B2R",
            "modelled, not verified: Base<Boolean,Integer>, Base<Integer,Boolean>, Base<Integer,Float>, Base<Float,Integer> value functions, intervals_image for Integer->Float, the Optional/List/Struct liftings",
        ],
        "not_modelled": "Display-based conversions into Text (integer, float, date, time, datetime, duration), Text->Bytes, Date<->DateTime, Enum, Union, Set, Array (oracle stream only)",
        "assumptions": ["Rust `as` casts are IEEE round-to-nearest-even / truncating-saturating"],
    },
    "C06": {
        "model_targets": ["QV/Corr/C06.vo"],
        "oracle": "for every scalar function and aggregate of the implementation: if value(row) evaluates, super_image(type) must succeed and contain it (membership up to the canonical embedding); run in isolated child processes so that aborts and hangs are outcomes",
        "trusted": [
            "correspondence: harness/src/c06.rs (integer expression trees built through the Expr constructors) and QV/Corr/C06.v",
            "oracle glue: typegen::embed / member (canonical embedding of values into types), the rule that `none` produced by the error-swallowing Optional wrapper is not an evaluation",
            "modelled, not verified: PartitionnedMonotonic::{bivariate,piecewise_bivariate} super_image with the integer closures of plus/minus/multiply/least/greatest/gt/lt/gt_eq/lt_eq, SuperImageVisitor/ValueVisitor composition",
        ],
        "not_modelled": "float implementations (IEEE monotonicity), libm functions, text/date functions, casts, Pointwise/Aggregate/Case/InList/Coalesce combinators, Optional/Extended wrappers: oracle stream only",
        "assumptions": ["row values and constants within i64"],
    },
    "C10": {
        "model_targets": ["QV/Corr/C10.vo"],
        "oracle": "rows sampled from the input type on which Expr::value gives true must be members of DataType::filter(type, predicate); integer columns (also compared with the model) and nullable / float / text / boolean columns",
        "trusted": [
            "correspondence: harness/src/c10.rs and QV/Corr/C10.v (narrowed struct compared column by column, up to merging of adjacent integers)",
            "modelled, not verified: DataType::filter, filter_by_value, filter_by_function, replace (src/expr/mod.rs) on structs of integer columns",
        ],
        "not_modelled": "nullable columns (Optional stripping), float / text / date columns, join ON narrowing (filter_by_join_operator): oracle only",
        "assumptions": [],
    },
    "C08": {
        "model_targets": ["QV/Corr/Quote.vo"],
        "oracle": "original and rendered SQL executed on in-process SQLite over generated databases: multiset of rows, order under ORDER BY, column names; generated query trees plus 32 construct templates",
        "trusted": [
            "SQLite 3.40 as the reference semantics; harness/src/sqlite.rs (shims for GREATEST/LEAST/MD5/RANDOM/VARIANCE/STDDEV, views mapping table names to paths)",
            "correspondence of the quoting kernel: harness/src/c08.rs::quote_cases and QV/Corr/Quote.v against sqlparser Display and Tokenizer",
            "modelled, not verified: sqlparser EscapeQuotedString / parse_quoted_ident",
        ],
        "not_modelled": "sql/relation.rs, sql/expr.rs, query_names.rs, expr/split.rs, relation/sql.rs: no model; decided by execution only",
        "assumptions": ["generated queries avoid constructs on which SQLite and PostgreSQL differ (integer division, implicit casts)"],
    },
    "C07": {
        "model_targets": ["QV/Corr/C07.vo"],
        "oracle": "every generated query executed on SQLite over generated conforming databases: each returned value must be a member of the declared column type (NULL only where optional), the row count must lie in the declared size interval",
        "trusted": [
            "SQLite as reference engine; harness/src/sqlite.rs; harness/src/c07.rs (reading SQL values in the variant of the declared type, export of the size skeleton with the unique flags as Join::size reads them)",
            "the cardinality semantics [card] of QV/Rel/Size.v is the definition of what executions may return (bag semantics of filter / limit / offset / group by / the five joins / set operations); it is not derived from a row-level evaluator",
            "modelled, not verified: Map::size, Reduce::size, Join::size, Set::size; Map::schema_exprs on integer columns (through the C06 / C10 models)",
        ],
        "not_modelled": "schemas of Reduce / Join / Set (optional wrapping, aggregate images), non-integer columns: oracle only",
        "assumptions": ["row counts fit in an i64; ungrouped aggregations read inputs whose declared maximum is >= 1; outer joins without unique flags have a possibly non-empty other side"],
    },
    "C14": {
        "generate": "GEN-FNMETA",
        "model_targets": ["QV/Corr/C14.vo"],
        "oracle": "every column flagged Unique / PrimaryKey in the schema of a generated query is checked for duplicates among the non-null values SQLite returns, on databases whose unique base columns are distinct",
        "trusted": [
            "translator: harness/src/c14.rs::generate (FnMeta.v: is_bijection / is_unique of every expr::function::Function variant, regenerated on every run)",
            "SQLite as reference engine",
            "modelled, not verified: Expr::into_column_modulo_bijection, Map::schema_exprs constraint propagation",
        ],
        "not_modelled": "Reduce (First) and Join constraint propagation, Values: oracle only",
        "assumptions": ["base-table unique columns hold distinct values"],
    },
}
