"""Per-property configuration of the checks (see DESIGN.md section 4)."""

PROPS = {
    "C11": {
        "model_targets": ["QV/Corr/C11.vo"],
        "oracle": "laws of the statement evaluated on the implementation with membership computed directly on the interval lists",
        "trusted": [
            "correspondence: harness/src/c11.rs (case generation, f64 order embedding) and QV/Corr/C11.v",
            "modelled, not verified: src/data_type/intervals.rs (union/intersection/is_subset_of/contains of Intervals<B>); DataType-level lattice covered by the oracle stream only",
        ],
        "not_modelled": "Enum, Bytes, Set, Array, Id, Function variants; String/date bounds (same generic code, exercised through i64 and f64 only)",
        "assumptions": ["bounds compare as Z under the order embedding (NaN excluded: the code asserts on it)"],
    },
}
