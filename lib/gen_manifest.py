#!/usr/bin/env python3
"""Regenerate MANIFEST.json from lib/props.py (claimed checks) and lib/manifest_meta.py."""
import json, os, sys
ROOT = os.path.dirname(os.path.dirname(os.path.abspath(__file__)))
sys.path.insert(0, os.path.join(ROOT, "lib"))
from props import PROPS
from manifest_meta import META, HOOK_COMMITS, PENDING

ids = [json.loads(l)["id"] for l in open(os.path.join(ROOT, "properties.jsonl"))]
checks = []
for pid in ids:
    if pid not in PROPS:
        continue
    m = META[pid]
    checks.append({
        "property_id": pid,
        "quick_cmd": "./qv check %s --tier quick" % pid,
        "thorough_cmd": "./qv check %s --tier thorough" % pid,
        "evidence_file": "/verif/evidence/%s.json" % pid,
        "replay_cmd_template": "./qv check %s --replay {path}" % pid,
        "engine": "qv",
        "level_claimed": {"category": "proof", "text": m["text"], "design_ref": m["design_ref"]},
        "level_note": m["note"],
        "technique": m["technique"],
    })
manifest = {
    "version": 1,
    "setup_cmd": "./qv setup",
    "hooks": {
        "guard": "qrlew_verif",
        "enable": "RUSTFLAGS=\"--cfg qrlew_verif\" (set by ./qv when it builds harness/ against /repo)",
        "baseline_off_cmd": "cd /repo && cargo test --workspace --no-fail-fast --offline",
        "source_commits": HOOK_COMMITS,
        "add_only": True,
    },
    "engines": [{"name": "qv", "path": "/verif/qv", "serves_properties": [c["property_id"] for c in checks],
                 "kind_free_text": "Coq 8.16 development (coq/QV: models, theorems pinned in QV/Props) + Rust harness (harness/, path dependency on /repo) that runs the implementation on generated inputs; the model is evaluated inside Coq on the same inputs (correspondence) and the property is evaluated directly on the implementation (failing-input search)"}],
    "checks": checks,
    "not_applicable": [{"property_id": p, "reason": PENDING.get(p, "check not built yet")} for p in ids if p not in PROPS],
    "notes": "See DESIGN.md. Known findings: findings/known_findings.jsonl.",
}
json.dump(manifest, open(os.path.join(ROOT, "MANIFEST.json"), "w"), indent=1)
print("checks:", [c["property_id"] for c in checks])
