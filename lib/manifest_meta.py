HOOK_COMMITS = []
PENDING = {}
META = {
 "C11": {
  "technique": "Coq proof: interval-algebra invariants by induction over operation histories + in-Coq differential check against Intervals<i64>/<f64>",
  "design_ref": "DESIGN.md section 4, C11",
  "text": "Theorems (Coq kernel, no axioms) over a Gallina model of Intervals<B>: every history of unions/intersections of any length keeps the set sorted, disjoint and below the capacity and never panics; union/intersection/simplification never lose a point, also when the 128-interval capacity is crossed; contains is exact; is_subset_of is sound whenever the intersection fold stays below capacity (computable side condition; the unconditional statement is not proved yet). The model is tied to the code by evaluating it inside Coq on the operation histories and set pairs the real implementation ran; the lattice laws are also tested directly on the implementation.",
  "note": "Trusted: Coq kernel + vm_compute, the harness (case generation, order embedding of f64 bits into Z), the sampled correspondence model=code. Modelled not verified: intervals.rs. DataType-level lattice (struct/union/optional/list, cross-variant injections) is not yet in the Coq model; it is exercised by the oracle stream only.",
 },
}
