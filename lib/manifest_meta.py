HOOK_COMMITS = []
PENDING = {}
META = {
 "C11": {
  "technique": "Coq proof: interval-algebra invariants by induction over operation histories + in-Coq differential check against Intervals<i64>/<f64>",
  "design_ref": "DESIGN.md section 4, C11",
  "text": "Theorems (Coq kernel, no axioms) over a Gallina model of Intervals<B>: every history of unions/intersections of any length keeps the set sorted, disjoint and below the capacity and never panics; union/intersection/simplification never lose a point, also when the 128-interval capacity is crossed; contains is exact; is_subset_of is sound whenever the intersection fold stays below capacity (computable side condition; the unconditional statement is not proved yet). The model is tied to the code by evaluating it inside Coq on the operation histories and set pairs the real implementation ran; the lattice laws are also tested directly on the implementation.",
  "note": "Trusted: Coq kernel + vm_compute, the harness (case generation, order embedding of f64 bits into Z), the sampled correspondence model=code. Modelled not verified: intervals.rs. DataType-level lattice (struct/union/optional/list, cross-variant injections) is not yet in the Coq model; it is exercised by the oracle stream only.",
 },
 "C15": {
  "technique": "Coq proof: complete specification of path lookup (exact or unique agreeing suffix) + in-Coq differential check against Hierarchy",
  "design_ref": "DESIGN.md section 4, C15",
  "text": "Theorems (no axioms) over a Gallina model of Hierarchy: get_key_value returns an entry iff it has exactly the looked-up path or is the only entry agreeing with it on all common trailing components (and there is no exact key); several agreeing entries and no exact key give None; the answer does not depend on traversal/insertion order. Tied to the code by evaluating the model inside Coq on the maps and paths the implementation was run on (get_key_value, filter, prepend, and_then); an independent implementation of the specification is compared with the library on every case, and generated join/CTE queries with overlapping column names must refuse an unqualified ambiguous column.",
  "note": "Trusted: Coq kernel, harness, sampled correspondence. Modelled not verified: hierarchy.rs. The query-level half of the statement (sql/relation.rs, query_names.rs) is explored, not proved.",
 },
 "C13": {
  "technique": "Coq proof: soundness/completeness of rule-assignment search and optimality of the chosen derivation + in-Coq differential check against the real eliminator/selector/score/entry points",
  "design_ref": "DESIGN.md section 4, C13",
  "text": "Theorems (no axioms), for all trees, rule sets, weights and acceptance predicates: the enumeration after elimination returns exactly the consistent rule assignments; a rewriting is returned iff an acceptable consistent assignment exists (otherwise None = UnreachableProperty); the applied derivation is consistent and no acceptable consistent derivation scores strictly higher. Tied to the code by exporting real relation trees with the rules the real setter attached and comparing, inside Coq, the eliminated tree, the list of derivations, their scores and the signature of the relation the entry point returned with the model's.",
  "note": "Trusted: Coq kernel, vm_compute, harness exporter, sampled correspondence. The rule table is regenerated from the code on every run. Panics of the Rewriter on candidate derivations are outside (C18).",
 },
 "C02": {
  "technique": "Coq proof: label semantics (raw-data lineage) inductive over derivations, with the rule table regenerated from RewritingRulesSetter and re-proved (vm_compute) on every run",
  "design_ref": "DESIGN.md section 4, C02",
  "text": "Theorems: if every rule of every node satisfies the local condition rule_ok then no consistent derivation attaches Public/Published/DP/SD to a node that depends on raw protected rows without a [PUP]->DP reduce in between; rule_ok holds for the rule table generated from the code on this run (C02_table_ok by vm_compute); hence whatever rewrite_with_differential_privacy applies is clean, and a protected table is never labelled Public/Published/DP. Tied to the code by the generated table, by comparing the per-node rule lists of real trees with the table, and by an IR walk of every rewritten acceptable derivation.",
  "note": "Trusted: Coq kernel, vm_compute, the generator, the exporter. What IR the Rewriter builds per rule is not modelled; it is checked on sampled queries by the IR walk (protected table leaf below a noise-adding map or replaced by its synthetic table).",
 },
 "C03": {
  "technique": "Coq proof over R (budget split, antitonicity of the Gaussian calibration, event composition) + in-Coq rational re-computation of the plan against sigma/C and the DpEvent read off the rewritten query",
  "design_ref": "DESIGN.md section 4, C03",
  "text": "Theorems: for every split of one DP aggregation (any number of DISTINCT groups and sums, thresholding or not, any eps>0, delta>0, share in [0,1]) the sum of the per-mechanism epsilons and deltas plus the key-release share is at most (eps, delta); the recorded multiplier nm(eps_j, delta_j) is never larger than the applied sigma/C = nm(eps_j/n, delta_j/n); composing events loses no non-no-op leaf. Tied to the code by compiling generated aggregation queries with the real compiler, reading every sigma, clipping constant and tau off the output IR and the flattened DpEvent, and re-computing the plan inside Coq on exact rationals.",
  "note": "Trusted: Coq kernel, Reals axioms (sig_forall_dec, sig_not_dec, functional_extensionality_dep, classic), the IR reader, Rust's f64 ln. That the classical Gaussian calibration is (eps,delta)-DP is cited (and needs eps<1: the code only warns).",
 },
 "C12": {
  "technique": "Coq proof on Flocq binary64 (monotone, exact below 2^53, round trip) + generic lifting lemmas + in-Coq bit-exact differential check of i64<->f64 conversions",
  "design_ref": "DESIGN.md section 4, C12",
  "text": "Theorems: Integer->Float (`i as f64`, Flocq binary_normalize) is monotone on the whole i64 range (so the interval image [value(min), value(max)] contains every converted point), exact and injective for |i| <= 2^53 and NOT injective beyond (refuted with witness: known finding); Float->Integer returns Some i only if i converts back to the same float, non-integral floats are refused; Boolean<->Integer round trip and refusal; the Optional/List/Struct liftings preserve injectivity and membership. Tied to the code bit-exactly on extreme and tie-breaking inputs and interval sets; the three laws of the statement are also evaluated directly on the implementation for random composite types.",
  "note": "Trusted: Coq kernel, vm_compute, Flocq, Reals axioms + classic. Text/Date/Bytes conversions are not modelled (oracle only). Known finding C12-int-float-above-2p53 is reported by the oracle and mirrored by a _refuted theorem.",
 },
 "C06": {
  "technique": "Coq proof: soundness of corner-evaluation on monotone boxes, of the partitioned bivariate combinator over interval sets with capacity, and of composed integer expressions + in-Coq differential check + per-function soundness oracle on the implementation",
  "design_ref": "DESIGN.md section 4, C06",
  "text": "Theorems (no axioms): for the integer expression language (saturating + - x with the sign-quadrant partition, least, greatest, four comparisons) over interval-set types of any shape within capacity: if an expression evaluates to y on a row of the input type then range propagation succeeds and the propagated set contains y (induction over the tree; the combinator lemma is generic in the function, given coordinate-wise monotonicity on each box). Tied to the code by comparing, inside Coq, the propagated range and the values of generated expression trees with what Expr::super_image / Expr::value return. All other functions and the aggregates (about 60 scalar functions, 15 aggregates) are covered by the soundness oracle only.",
  "note": "Trusted: Coq kernel, vm_compute, harness. Float, text, date, cast functions and the aggregates are NOT in the model: they are explored by the oracle (partial). Five defects were repaired by fix: commits (var/std bound, lower/upper, count/sum distinct); four classes are listed as known findings (sin/cos period shift, float accumulation rounding, cast and divide/modulo range panics).",
 },
 "C10": {
  "technique": "Coq proof: soundness of predicate narrowing by induction on the predicate (on top of the C06 and C11 theorems) + in-Coq differential check against DataType::filter + row oracle",
  "design_ref": "DESIGN.md section 4, C10",
  "text": "Theorem (no axioms): for structs of integer interval-set columns and every predicate built from comparisons (> >= < <= =) between columns, constants and integer expressions, IN lists, AND, OR, boolean constants and unsupported sub-terms, every row of the input type on which the predicate is true belongs to the narrowed type; narrowing always yields well-formed column types. The model reproduces DataType::filter (both AND orders intersected, OR as union, greatest/least images intersected with the operand type, fall-backs to the unnarrowed type) and is compared with it column by column on generated predicates. Nullable, float, text and boolean columns are covered by the row oracle only.",
  "note": "Trusted: Coq kernel, vm_compute, harness. Modelled not verified: DataType::filter and replace. Optional stripping, non-integer columns and join ON narrowing (filter_by_join_operator) are exercised by the oracle, not proved.",
 },
 "C08": {
  "technique": "Coq proof of the identifier / literal quoting round trip (model of sqlparser's escape and tokenizer) + SQLite differential execution of original vs rendered SQL",
  "design_ref": "DESIGN.md section 4, C08",
  "text": "Partial. Theorems: writing then reading back an identifier or string literal returns the value whenever it has no delimiter right after a backslash or another delimiter, for every delimiter; the unrestricted statement is refuted with a witness (known finding: sqlparser's heuristic escape). The model is compared with sqlparser's Display and Tokenizer on random strings. The end-to-end statement (parse -> relation -> render preserves the multiset of rows, order, names) cannot be carried by a model of this size: it is decided by executing original and rendered SQL on SQLite for generated queries and databases.",
  "note": "Trusted: Coq kernel; SQLite as reference engine; harness shims. NOT proved: sql/*.rs, expr/split.rs, relation/sql.rs (explored). Known findings: ORDER BY/LIMIT after set operations dropped, GROUP BY ordinal, ORDER BY on renamed input columns, quoting heuristic.",
 },
 "C07": {
  "technique": "Coq proof: declared size interval contains every cardinality allowed by the bag semantics (induction over the relation), Map column typing from the C06/C10 theorems + in-Coq differential check of the size arithmetic + SQLite execution oracle (values in declared types, row counts in declared sizes)",
  "design_ref": "DESIGN.md section 4, C07",
  "text": "Partial. Theorems: (1) for every relation built from tables, maps with filter/limit/offset, grouped or ungrouped reduces, the five joins and the three set operations, every number of rows the bag semantics allows lies in the size interval the constructors compute, provided unique flags occur only where Join::size is sound for them and outer/full joins and ungrouped reduces meet stated non-emptiness side conditions; (2) Join::size is refuted for outer joins with a unique flag (witness; known finding, pinned by the repository's own tests); (3) the type a Map declares for a projected integer column contains the value of every row passing the filter. The size model is compared with Relation::size() on every node of generated queries. Column types of reduces/joins/sets and non-integer columns are decided by executing generated queries on SQLite only.",
  "note": "Trusted: Coq kernel; the cardinality semantics [card] is a definition, not derived from a row evaluator; SQLite as reference. Known findings: aggregates over empty/NULL input typed non-optional, Join::size for outer joins with unique flags. Fixed: UNION size lower bound / overflow, var/std bound rounding.",
 },
 "C14": {
  "technique": "Coq proof: uniqueness is preserved along chains of injective functions; the list of functions the code treats as bijections is regenerated from the source on every run and re-proved (vm_compute) to contain no lossy function + SQLite duplicate oracle",
  "design_ref": "DESIGN.md section 4, C14",
  "text": "Partial. Theorems: a projection that reduces, modulo the functions listed by Function::is_bijection, to a unique column has pairwise distinct values whenever each stripped function is injective on the values it meets (generic in the meaning of the functions); every stripped function is one the code lists; the generated list (FnMeta.v, rebuilt from the code on each run) contains no function of the lossy class (casts to integer/boolean/date/time/float, abs, ceil, ...). The functions injective only up to float rounding (exp, ln, log, sqrt) are still listed: refuted theorem + known finding with an underflow witness. Reduce (FIRST) and Join propagation are decided by executing generated and targeted queries on SQLite over databases with adversarially close unique values.",
  "note": "Trusted: Coq kernel, vm_compute, the generator (explicit list of Function variants), SQLite. Fixed by fix: commits: lossy casts listed as bijections; lone FIRST with several grouping keys.",
 },
}
