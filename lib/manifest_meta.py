HOOK_COMMITS = []
PENDING = {}
META = {
 "C11": {
  "technique": "Coq proof: interval-algebra invariants by induction over operation histories + in-Coq differential check against Intervals<i64>/<f64>",
  "design_ref": "DESIGN.md section 4, C11",
  "text": "Theorems (Coq kernel, no axioms) over a Gallina model of Intervals<B>: every history of unions/intersections of any length keeps the set sorted, disjoint and below the capacity and never panics; union/intersection/simplification never lose a point, also when the 128-interval capacity is crossed; contains is exact; is_subset_of is sound whenever the intersection fold stays below capacity (computable side condition; the unconditional statement is not proved yet). The model is tied to the code by evaluating it inside Coq on the operation histories and set pairs the real implementation ran; the lattice laws are also tested directly on the implementation.",
  "note": "Trusted: Coq kernel + vm_compute, the harness (case generation, order embedding of f64 bits into Z), the sampled correspondence model=code. Modelled not verified: intervals.rs. DataType-level lattice (struct/union/optional/list, cross-variant injections) is not yet in the Coq model; it is exercised by the oracle stream only.",
 },
 "C15": {
  "technique": "Coq proof: complete specification of path lookup (exact or unique agreeing suffix) + in-Coq differential check against Hierarchy",
  "design_ref": "DESIGN.md section 4, C15",
  "text": "Theorems (no axioms) over a Gallina model of Hierarchy: get_key_value returns an entry iff it has exactly the looked-up path or is the only entry agreeing with it on all common trailing components (and there is no exact key); several agreeing entries and no exact key give None; the answer does not depend on traversal/insertion order. Tied to the code by evaluating the model inside Coq on the maps and paths the implementation was run on (get_key_value, filter, prepend, and_then); an independent implementation of the specification is compared with the library on every case, and generated join/CTE queries with overlapping column names must refuse an unqualified ambiguous column.",
  "note": "Trusted: Coq kernel, harness, sampled correspondence. Modelled not verified: hierarchy.rs. The query-level half of the statement (sql/relation.rs, query_names.rs) is explored, not proved.",
 },
}
