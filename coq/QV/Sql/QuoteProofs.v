From QV Require Import Sql.Quote.
Open Scope N_scope.

Definition dbl (q : N) (s : list N) : list N := flat_map (fun c => if c =? q then [q; q] else [c]) s.

Lemma esc_clean q : q <> backslash -> forall s prev, clean q prev s = true -> esc q prev s = dbl q s.
Proof.
  intros Hq s. induction s as [|ch t IH]; intros prev Hc; [reflexivity|].
  cbn [clean] in Hc. apply andb_true_iff in Hc as [H1 H2].
  cbn [esc dbl flat_map]. destruct (ch =? q) eqn:E.
  - apply N.eqb_eq in E. subst ch. cbn [andb] in H1. apply negb_true_iff in H1. apply orb_false_iff in H1 as [Hb Hq'].
    rewrite Hb. destruct t as [|c2 t'].
    + reflexivity.
    + cbn [clean] in H2. apply andb_true_iff in H2 as [H3 H4].
      destruct (c2 =? q) eqn:E2.
      * (* two delimiters in a row: excluded *)
        rewrite N.eqb_refl in H3. rewrite orb_true_r in H3. cbn in H3. discriminate.
      * cbn [app]. f_equal. f_equal. apply (IH q). cbn [clean]. rewrite E2. cbn. exact H4.
  - cbn [app]. f_equal. apply IH. exact H2.
Qed.

Lemma scan_dbl q s : forall acc, scan q (dbl q s ++ [q]) acc = Some (acc ++ s, []).
Proof.
  induction s as [|ch t IH]; intros acc.
  - cbn. rewrite N.eqb_refl. now rewrite app_nil_r.
  - unfold dbl. cbn [flat_map]. fold (dbl q t). destruct (ch =? q) eqn:E.
    + apply N.eqb_eq in E. subst ch.
      change (([q; q] ++ dbl q t) ++ [q]) with (q :: q :: (dbl q t ++ [q])).
      cbn [scan]. rewrite !N.eqb_refl. rewrite IH. rewrite <- app_assoc. reflexivity.
    + change (([ch] ++ dbl q t) ++ [q]) with (ch :: (dbl q t ++ [q])).
      cbn [scan]. rewrite E. rewrite IH. rewrite <- app_assoc. reflexivity.
Qed.

(* identifiers and literals without a delimiter right after a backslash or another delimiter keep
   their value through writing and reading back, for every delimiter but the backslash *)
Theorem quote_roundtrip_partial q s : q <> backslash -> q <> 0 -> clean q 0 s = true ->
  unquote q (quote q s) = Some s.
Proof.
  intros Hq H0 Hc. unfold unquote, quote. rewrite N.eqb_refl.
  rewrite (esc_clean q Hq s 0 Hc). rewrite scan_dbl. reflexivity.
Qed.

(* the full statement is false: a value with two delimiters in a row, or a delimiter after a
   backslash, does not survive (sqlparser's EscapeQuotedString guesses that it is already escaped) *)
Theorem quote_roundtrip_refuted : exists q s, unquote q (quote q s) <> Some s.
Proof. exists 39, [97; 39; 39; 98]. vm_compute. discriminate. Qed.

Example quote_examples :
  quote 34 [97; 34; 98] = [34; 97; 34; 34; 98; 34] /\ unquote 34 [34; 97; 34; 34; 98; 34] = Some [97; 34; 98] /\
  unquote 39 (quote 39 [105; 116; 39; 115]) = Some [105; 116; 39; 115] /\
  unquote 39 (quote 39 [97; 92; 39; 98]) = None.
Proof. vm_compute. repeat split. Qed.
