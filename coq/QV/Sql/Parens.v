(* C08 — how expressions are written: every operand of an operator form (infix, prefix, postfix) goes
   between parentheses.  A precedence-climbing (Pratt) parser, generic in the binding powers, reads such a
   text back to the tree it was written from, whatever the precedences are; without the parentheses
   around a postfix operand it does not. *)
From Coq Require Export List Arith Bool Lia.
Export ListNotations.

Inductive token := TLp | TRp | TAtom (n : nat) | TBin (o : nat) | TPre (o : nat) | TPost (o : nat).
Inductive pexpr := PAtom (n : nat) | PBin (o : nat) (a b : pexpr) | PPre (o : nat) (a : pexpr) | PPost (o : nat) (a : pexpr).

(* the writer: (a) op (b), op (a), (a) op *)
Fixpoint pr (e : pexpr) : list token :=
  match e with
  | PAtom n => [TAtom n]
  | PBin o a b => TLp :: pr a ++ [TRp; TBin o; TLp] ++ pr b ++ [TRp]
  | PPre o a => TPre o :: TLp :: pr a ++ [TRp]
  | PPost o a => TLp :: pr a ++ [TRp; TPost o]
  end.

Section Parser.
(* left and right binding power of the infix operators, binding power of the prefix and postfix ones *)
Variables (bl br bpre bpost : nat -> nat).

(* the operator loop, over the parser of operands *)
Fixpoint loop (p : nat -> list token -> option (pexpr * list token)) (min g : nat) (lhs : pexpr) (toks : list token)
  : option (pexpr * list token) :=
  match g with
  | O => None
  | S g' =>
      match toks with
      | TBin o :: r =>
          if bl o <? min then Some (lhs, toks)
          else match p (br o) r with
               | Some (rhs, r') => loop p min g' (PBin o lhs rhs) r'
               | None => None
               end
      | TPost o :: r => if bpost o <? min then Some (lhs, toks) else loop p min g' (PPost o lhs) r
      | _ => Some (lhs, toks)
      end
  end.

Fixpoint parse (fuel min : nat) (toks : list token) : option (pexpr * list token) :=
  match fuel with
  | O => None
  | S f =>
      match toks with
      | TAtom n :: r => loop (parse f) min f (PAtom n) r
      | TLp :: r => match parse f 0 r with Some (e, TRp :: r') => loop (parse f) min f e r' | _ => None end
      | TPre o :: r => match parse f (bpre o) r with Some (e, r') => loop (parse f) min f (PPre o e) r' | None => None end
      | _ => None
      end
  end.
End Parser.

(* what may follow a complete expression: the end of the text or a closing parenthesis *)
Definition closes (rest : list token) : Prop := rest = [] \/ exists r, rest = TRp :: r.

Fixpoint need (e : pexpr) : nat :=
  match e with
  | PAtom _ => 2
  | PBin _ a b => need a + need b + 6
  | PPre _ a => need a + 4
  | PPost _ a => need a + 4
  end.

(* the writer that forgets the parentheses around the operand of a postfix operator (IS NULL before the fix) *)
Fixpoint pr_bad (e : pexpr) : list token :=
  match e with
  | PAtom n => [TAtom n]
  | PBin o a b => TLp :: pr_bad a ++ [TRp; TBin o; TLp] ++ pr_bad b ++ [TRp]
  | PPre o a => TPre o :: TLp :: pr_bad a ++ [TRp]
  | PPost o a => pr_bad a ++ [TPost o]
  end.
