From QV Require Import Sql.Parens.

Section Proofs.
Variables (bl br bpre bpost : nat -> nat).
Notation parse := (parse bl br bpre bpost).
Notation loop := (loop bl br bpost).

Lemma loop_closes p min g lhs rest : closes rest -> 1 <= g -> loop p min g lhs rest = Some (lhs, rest).
Proof.
  intros Hc Hg. destruct g as [|g']; [lia|]. cbn [Parens.loop].
  destruct Hc as [->|(r & ->)]; reflexivity.
Qed.

(* a parenthesised group is read back whatever binding power the context asks for *)
Lemma group_parses e :
  (forall rest, closes rest -> forall fuel, need e <= fuel -> parse fuel 0 (pr e ++ rest) = Some (e, rest)) ->
  forall rest min, closes rest -> forall fuel, need e + 2 <= fuel ->
  parse fuel min (TLp :: pr e ++ TRp :: rest) = Some (e, rest).
Proof.
  intros IH rest min Hc fuel Hf. destruct fuel as [|f]; [lia|]. cbn [Parens.parse].
  rewrite (IH (TRp :: rest)) by (try lia; right; eauto). apply loop_closes; [exact Hc|lia].
Qed.

Theorem parse_pr e : forall rest, closes rest -> forall fuel, need e <= fuel ->
  parse fuel 0 (pr e ++ rest) = Some (e, rest).
Proof.
  induction e as [n|o a IHa b IHb|o a IHa|o a IHa]; intros rest Hc fuel Hf; cbn [pr need] in *.
  - destruct fuel as [|f]; [lia|]. cbn [app Parens.parse]. apply loop_closes; [exact Hc|lia].
  - destruct fuel as [|f]; [lia|]. cbn [app]. repeat (rewrite <- app_assoc; cbn [app]). cbn [Parens.parse].
    rewrite (IHa (TRp :: TBin o :: TLp :: pr b ++ TRp :: rest)) by (try lia; right; eauto).
    destruct f as [|g]; [lia|]. cbn [Parens.loop]. replace (bl o <? 0) with false by (symmetry; apply Nat.ltb_ge; lia).
    rewrite (group_parses b IHb rest (br o) Hc) by lia.
    apply loop_closes; [exact Hc|lia].
  - destruct fuel as [|f]; [lia|]. cbn [app]. repeat (rewrite <- app_assoc; cbn [app]). cbn [Parens.parse].
    rewrite (group_parses a IHa rest (bpre o) Hc) by lia.
    apply loop_closes; [exact Hc|lia].
  - destruct fuel as [|f]; [lia|]. cbn [app]. repeat (rewrite <- app_assoc; cbn [app]). cbn [Parens.parse].
    rewrite (IHa (TRp :: TPost o :: rest)) by (try lia; right; eauto).
    destruct f as [|g]; [lia|]. cbn [Parens.loop]. replace (bpost o <? 0) with false by (symmetry; apply Nat.ltb_ge; lia).
    apply loop_closes; [exact Hc|lia].
Qed.
End Proofs.

(* the whole text of an expression is read back to the expression, for every choice of binding powers *)
Theorem roundtrip bl br bpre bpost e : parse bl br bpre bpost (need e) 0 (pr e) = Some (e, []).
Proof.
  rewrite <- (app_nil_r (pr e)) at 1. apply parse_pr; [left; reflexivity|lia].
Qed.

(* without the parentheses around the operand of a postfix operator that binds tighter than an infix one:
   (a) OR (b) IS NULL is read as a OR (b IS NULL) *)
Theorem postfix_operand_needs_parentheses : exists bl br bpre bpost e fuel e',
  parse bl br bpre bpost fuel 0 (pr_bad e) = Some (e', []) /\ e' <> e.
Proof.
  exists (fun _ => 1), (fun _ => 2), (fun _ => 5), (fun _ => 10), (PPost 0 (PBin 0 (PAtom 1) (PAtom 2))), 20,
         (PBin 0 (PAtom 1) (PPost 0 (PAtom 2))).
  split; [vm_compute; reflexivity|discriminate].
Qed.
