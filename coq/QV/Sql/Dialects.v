(* C17 — identifier quoting per dialect: the table generated from the translators is checked
   against the quoting kernel of QV/Sql/Quote.v. *)
From Coq Require Import String List NArith Bool.
From QV Require Import Sql.Quote Sql.QuoteProofs Generated.Dialects.
Import ListNotations.
Open Scope N_scope.

(* every translator quotes with the double quote or the backtick, and its dialect's tokenizer takes
   that character as an identifier delimiter *)
Definition dialect_ok (d : string * N * bool) : bool :=
  let '(_, q, reads) := d in ((q =? 34) || (q =? 96)) && reads.

Definition dialects_ok : bool := forallb dialect_ok dialects && Nat.eqb (List.length dialects) 8.

(* a name without the quoting character and without backslash *)
Definition plain (q : N) (s : list N) : bool := forallb (fun c => negb (c =? q) && negb (c =? backslash)) s.

Lemma plain_clean q s : plain q s = true -> forall prev, clean q prev s = true.
Proof.
  induction s as [|c t IH]; intros H prev; [reflexivity|].
  cbn [plain forallb] in H. apply andb_true_iff in H. destruct H as [Hc Ht].
  apply andb_true_iff in Hc. destruct Hc as [Hq _].
  cbn [clean]. apply negb_true_iff in Hq. rewrite Hq. cbn [andb negb]. apply IH, Ht.
Qed.

(* reserved words, spaces, punctuation, upper case, non-ASCII letters: every name without the
   delimiter and without backslash is read back unchanged, in every dialect of the table *)
Theorem dialect_identifiers_survive :
  dialects_ok = true ->
  forall name q reads s, In (name, q, reads) dialects -> plain q s = true ->
  reads = true /\ unquote q (quote q s) = Some s.
Proof.
  intros Hok name q reads s Hin Hp.
  unfold dialects_ok in Hok. apply andb_true_iff in Hok. destruct Hok as [Hall _].
  rewrite forallb_forall in Hall. specialize (Hall _ Hin). cbn in Hall.
  apply andb_true_iff in Hall. destruct Hall as [Hq Hr]. split; [exact Hr|].
  apply quote_roundtrip_partial.
  - intros ->. cbn in Hq. discriminate.
  - intros ->. cbn in Hq. discriminate.
  - apply plain_clean, Hp.
Qed.

(* a name with the delimiter inside (not after a backslash or another delimiter) also survives:
   it is written doubled *)
Theorem dialect_identifiers_with_delimiter :
  dialects_ok = true ->
  forall name q reads s, In (name, q, reads) dialects -> clean q 0 s = true -> unquote q (quote q s) = Some s.
Proof.
  intros Hok name q reads s Hin Hc.
  unfold dialects_ok in Hok. apply andb_true_iff in Hok. destruct Hok as [Hall _].
  rewrite forallb_forall in Hall. specialize (Hall _ Hin). cbn in Hall.
  apply andb_true_iff in Hall. destruct Hall as [Hq _].
  apply quote_roundtrip_partial; [| |exact Hc]; intros ->; cbn in Hq; discriminate.
Qed.

Lemma dialects_table_ok : dialects_ok = true.
Proof. vm_compute. reflexivity. Qed.
