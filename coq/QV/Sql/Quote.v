(* C08 / C17 — how identifiers and string literals are written and read back.
   Writing: sqlparser's `impl Display for Ident` / SingleQuotedString through
   EscapeQuotedString (ast/value.rs) — the translators call Ident::with_quote(q, name) with
   q = double quote, code 34 (default, PostgreSQL, SQLite, Redshift, MS SQL) or backtick, code 96
   (MySQL, BigQuery, Hive, Databricks); string literals use the single quote, code 39.  Reading: Tokenizer::parse_quoted_ident (a doubled delimiter is one delimiter).
   Characters are code points (N). *)
From Coq Require Export List NArith Bool Lia.
Export ListNotations.
Open Scope N_scope.

Definition backslash : N := 92.

(* EscapeQuotedString::fmt.  [prev] is previous_char; after a delimiter that follows a backslash
   the loop `continue`s without updating it. *)
Fixpoint esc (q prev : N) (s : list N) : list N :=
  match s with
  | [] => []
  | ch :: t =>
      if ch =? q then
        if prev =? backslash then ch :: esc q prev t
        else match t with
             | c2 :: t' => if c2 =? q then q :: q :: esc q ch t' else q :: q :: esc q ch t
             | [] => [q; q]
             end
      else ch :: esc q ch t
  end.

Definition quote (q : N) (s : list N) : list N := q :: esc q 0 s ++ [q].

(* parse_quoted_ident: the value and what is left after the closing delimiter *)
Fixpoint scan (q : N) (s acc : list N) : option (list N * list N) :=
  match s with
  | [] => None
  | ch :: t =>
      if ch =? q then
        match t with
        | c2 :: t' => if c2 =? q then scan q t' (acc ++ [q]) else Some (acc, t)
        | [] => Some (acc, [])
        end
      else scan q t (acc ++ [ch])
  end.

Definition unquote (q : N) (s : list N) : option (list N) :=
  match s with
  | c :: body => if c =? q then match scan q body [] with Some (v, []) => Some v | _ => None end else None
  | [] => None
  end.

(* the strings the heuristic escape handles: no delimiter right after a backslash or another delimiter *)
Fixpoint clean (q prev : N) (s : list N) : bool :=
  match s with
  | [] => true
  | ch :: t => negb ((ch =? q) && ((prev =? backslash) || (prev =? q))) && clean q ch t
  end.
