(* Model of src/namer.rs (COUNTER, count, new_name, new_id, reset, name_from_content) and of
   src/encoder.rs (Encoder::encode with BASE_37, length 4).

   The counter state is a process-wide map from prefix to the last number handed out.  The hash of a
   node's content (DefaultHasher) is an input of the model: a natural number. *)
From Coq Require Export String Ascii List NArith Bool DecimalString.
Export ListNotations.
Open Scope string_scope.
Open Scope N_scope.

Definition cstate := list (string * N).

Fixpoint lookup (s : cstate) (k : string) : option N :=
  match s with
  | [] => None
  | (k', n) :: t => if String.eqb k k' then Some n else lookup t k
  end.

Fixpoint set (s : cstate) (k : string) (v : N) : cstate :=
  match s with
  | [] => [(k, v)]
  | (k', n) :: t => if String.eqb k k' then (k', v) :: t else (k', n) :: set t k v
  end.

(* entry(key).and_modify(|c| *c += 1).or_default() *)
Definition count (s : cstate) (k : string) : cstate * N :=
  match lookup s k with
  | None => (set s k 0, 0)
  | Some n => (set s k (n + 1), n + 1)
  end.

Definition dec (n : N) : string := NilZero.string_of_uint (N.to_uint n).

Definition new_name (s : cstate) (prefix : string) : cstate * string :=
  let '(s', n) := count s prefix in
  (s', if Nat.eqb (String.length prefix) 0 then dec n else prefix ++ "_" ++ dec n).

Definition BASE_37 : string := "0123456789abcdefghijklmnopqrstuvwxyz_".

Definition digit (x : N) : ascii :=
  match String.get (N.to_nat (x mod 37)) BASE_37 with Some c => c | None => "0"%char end.

Fixpoint encode (len : nat) (x : N) : string :=
  match len with
  | O => EmptyString
  | S l => String (digit x) (encode l (x / 37))
  end.

Definition name_from_content (prefix : string) (hash : N) : string := prefix ++ "_" ++ encode 4 hash.

Inductive req :=
| RNew (prefix : string)
| RId (prefix : string)
| RContent (prefix : string) (hash : N)
| RReset.

Inductive out := OName (s : string) | OId (n : N) | OUnit.

Definition step (s : cstate) (r : req) : cstate * out :=
  match r with
  | RNew p => let '(s', n) := new_name s p in (s', OName n)
  | RId p => let '(s', n) := count s p in (s', OId n)
  | RContent p h => (s, OName (name_from_content p h))
  | RReset => ([], OUnit)
  end.

Fixpoint run (s : cstate) (rs : list req) : list out :=
  match rs with
  | [] => []
  | r :: t => let '(s', o) := step s r in o :: run s' t
  end.

(* a schedule: the requests of the compilation under study (tag true) interleaved with requests of
   other compilations, threads and earlier calls (tag false) *)
Fixpoint run_tagged (s : cstate) (rs : list (bool * req)) : list out :=
  match rs with
  | [] => []
  | (tag, r) :: t => let '(s', o) := step s r in if tag then o :: run_tagged s' t else run_tagged s' t
  end.

Definition mine (rs : list (bool * req)) : list req := map snd (filter fst rs).

Definition is_content (r : req) : bool := match r with RContent _ _ => true | _ => false end.
