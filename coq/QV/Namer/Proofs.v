From QV Require Import Namer.Model.
From Coq Require Import Lia.
Open Scope N_scope.

(* a name derived from content does not depend on the counter state *)
Lemma content_state_independent s1 s2 p h : snd (step s1 (RContent p h)) = snd (step s2 (RContent p h)).
Proof. reflexivity. Qed.

Lemma content_keeps_state s p h : fst (step s (RContent p h)) = s.
Proof. reflexivity. Qed.

(* the outputs of a compilation that only asks for content-derived names are the same under every
   schedule: whatever other requests (counter names, ids, resets, other compilations) are
   interleaved with it, from whatever initial counter state *)
Theorem content_names_schedule_independent rs :
  forallb is_content (mine rs) = true ->
  forall s, run_tagged s rs = run [] (mine rs).
Proof.
  induction rs as [|[tag r] t IH]; intros Hc s; [reflexivity|].
  unfold mine in *. cbn [filter fst map snd] in *. destruct tag; cbn [run_tagged].
  - cbn [map forallb snd] in Hc. apply andb_true_iff in Hc. destruct Hc as [Hr Ht].
    destruct r as [p|p|p h|]; try discriminate. cbn [step run map snd]. f_equal. apply IH, Ht.
  - destruct (step s r) as [s' o]. apply IH, Hc.
Qed.

Corollary two_schedules rs1 rs2 s1 s2 :
  mine rs1 = mine rs2 -> forallb is_content (mine rs1) = true ->
  run_tagged s1 rs1 = run_tagged s2 rs2.
Proof.
  intros He Hc. rewrite (content_names_schedule_independent rs1 Hc).
  rewrite He in Hc. rewrite (content_names_schedule_independent rs2 Hc), He. reflexivity.
Qed.

(* a counter-derived name or id does depend on the history: the second request gets another answer *)
Lemma counter_names_refuted : exists p s1 s2, snd (step s1 (RNew p)) <> snd (step s2 (RNew p)).
Proof. exists "map"%string, [], [("map"%string, 0)]. vm_compute. discriminate. Qed.

Lemma counter_ids_refuted : exists p s, snd (step s (RId p)) <> snd (step (fst (step s (RId p))) (RId p)).
Proof. exists "UNIFORM_SAMPLING"%string, []. vm_compute. discriminate. Qed.

(* the k-th request for a prefix is numbered k-1 (first 0), other prefixes do not interfere *)
Lemma lookup_set s k v k' : lookup (set s k v) k' = if String.eqb k' k then Some v else lookup s k'.
Proof.
  induction s as [|[k0 n] t IH]; cbn [set lookup].
  - destruct (String.eqb k' k); reflexivity.
  - destruct (String.eqb k k0) eqn:E; cbn [lookup].
    + apply String.eqb_eq in E. subst. destruct (String.eqb k' k0); reflexivity.
    + rewrite IH. destruct (String.eqb k' k0) eqn:E2; [|reflexivity].
      apply String.eqb_eq in E2. subst. rewrite String.eqb_sym, E. reflexivity.
Qed.

Lemma count_other s k k' : k' <> k -> lookup (fst (count s k)) k' = lookup s k'.
Proof.
  intros Hne. unfold count. destruct (lookup s k); cbn [fst]; rewrite lookup_set;
    (destruct (String.eqb k' k) eqn:E; [apply String.eqb_eq in E; congruence|reflexivity]).
Qed.

Lemma count_next s k : lookup (fst (count s k)) k = Some (snd (count s k)).
Proof. unfold count. destruct (lookup s k); cbn [fst snd]; rewrite lookup_set, String.eqb_refl; reflexivity. Qed.

Lemma count_succ s k n : lookup s k = Some n -> snd (count s k) = n + 1.
Proof. intros H. unfold count. rewrite H. reflexivity. Qed.

Lemma count_first s k : lookup s k = None -> snd (count s k) = 0.
Proof. intros H. unfold count. rewrite H. reflexivity. Qed.

(* Encoder: exactly len characters, a function of the hash modulo 37^len *)
Lemma encode_length len x : String.length (encode len x) = len.
Proof. revert x. induction len as [|l IH]; intros x; cbn [encode String.length]; [reflexivity|]. rewrite IH. reflexivity. Qed.

Lemma encode_mod len x : encode len x = encode len (x mod 37 ^ N.of_nat len).
Proof.
  revert x. induction len as [|l IH]; intros x; [reflexivity|].
  cbn [encode]. rewrite Nat2N.inj_succ, N.pow_succ_r'.
  assert (Hp : 37 ^ N.of_nat l <> 0) by (apply N.pow_nonzero; lia).
  set (k := (x / 37) mod 37 ^ N.of_nat l).
  assert (Hx : x mod (37 * 37 ^ N.of_nat l) = k * 37 + x mod 37).
  { rewrite N.mod_mul_r by lia. fold k. lia. }
  f_equal.
  - unfold digit. rewrite Hx. rewrite N.add_comm, N.mod_add by lia. rewrite N.mod_mod by lia. reflexivity.
  - rewrite (IH (x / 37)). rewrite (IH (x mod (37 * 37 ^ N.of_nat l) / 37)). f_equal.
    rewrite Hx. rewrite N.div_add_l by lia. rewrite (N.div_small (x mod 37)) by (apply N.mod_lt; lia).
    rewrite N.add_0_r. unfold k. symmetry. apply N.mod_mod. exact Hp.
Qed.

(* names are not injective in the hash: contents whose hashes agree modulo 37^4 share a name *)
Lemma content_name_collision_refuted : exists h1 h2, h1 <> h2 /\ name_from_content "map" h1 = name_from_content "map" h2.
Proof. exists 0, (37 ^ 4). split; [discriminate|]. vm_compute. reflexivity. Qed.
