(* C12 — model of the numeric injections of src/data_type/injection.rs and of the generic
   liftings (Optional, List, Struct).  f64 is Flocq's binary64, so `i as f64`
   (round to nearest even) and `f as i64` (truncate, saturate, NaN -> 0) are exact. *)
From Coq Require Import ZArith List Bool.
From Flocq Require Import Core IEEE754.BinarySingleNaN IEEE754.Binary IEEE754.Bits.
Import ListNotations.
Open Scope Z_scope.

(* Base<Boolean,Integer> / Base<Integer,Boolean> *)
Definition b2i (b : bool) : Z := if b then 1 else 0.
Definition i2b (i : Z) : option bool := match i with 0 => Some false | 1 => Some true | _ => None end.

(* Base<Integer,Float>::value: `*arg as f64` *)
Definition i2f (i : Z) : binary64 :=
  Binary.binary_normalize 53 1024 (refl_equal _) (refl_equal _) mode_NE i 0 false.

Definition i64_min := - 2 ^ 63.
Definition i64_max := 2 ^ 63 - 1.

(* `x as i64`: truncation toward zero, saturating, NaN -> 0 *)
Definition f_as_i64 (x : binary64) : Z :=
  match x with
  | Binary.B754_zero _ _ _ => 0
  | Binary.B754_nan _ _ _ _ _ => 0
  | Binary.B754_infinity _ _ s => if s then i64_min else i64_max
  | Binary.B754_finite _ _ s m e _ =>
      let a := if 0 <=? e then Zpos m * 2 ^ e else Zpos m / 2 ^ (- e) in
      let v := if s then - a else a in
      Z.max i64_min (Z.min i64_max v)
  end.

Definition feq (x y : binary64) : bool :=
  match Binary.Bcompare 53 1024 x y with Some Eq => true | _ => false end.

Definition flt (x y : binary64) : bool :=
  match Binary.Bcompare 53 1024 x y with Some Lt => true | _ => false end.

(* Base<Float,Integer>::value: Some(x as i64) when x < 2^63 and (x as i64) as f64 == x *)
Definition f2i (x : binary64) : option Z :=
  let t := f_as_i64 x in if flt x (i2f (2 ^ 63)) && feq (i2f t) x then Some t else None.

(* order embedding of the bits (the one the harness uses for Intervals<f64>) *)
Definition key_of_bits (b : Z) : Z := if b <? 2 ^ 63 then b else - (b - 2 ^ 63).
Definition fkey (x : binary64) : Z := key_of_bits (bits_of_b64 x).

(* image of an integer interval under Integer -> Float: [value(min), value(max)] *)
Definition i2f_interval (ab : Z * Z) : Z * Z := (fkey (i2f (fst ab)), fkey (i2f (snd ab))).

(* ---------- generic liftings ---------- *)
Section Lift.
Context {A B : Type}.
Variable f : A -> option B.

(* Base<Optional,Optional>::value *)
Definition opt_lift (x : option A) : option (option B) :=
  match x with
  | None => Some None
  | Some a => match f a with Some b => Some (Some b) | None => None end
  end.

(* Base<List,List>::value: every element converts, or the conversion fails *)
Fixpoint list_lift (l : list A) : option (list B) :=
  match l with
  | [] => Some []
  | a :: t => match f a, list_lift t with
              | Some b, Some t' => Some (b :: t')
              | _, _ => None
              end
  end.
End Lift.

(* Base<Struct,Struct>::value: field by field, each with its own conversion *)
Fixpoint struct_lift {A B} (fs : list (A -> option B)) (l : list A) : option (list B) :=
  match fs, l with
  | [], [] => Some []
  | f :: fs', a :: t => match f a, struct_lift fs' t with
                        | Some b, Some t' => Some (b :: t')
                        | _, _ => None
                        end
  | _, _ => None
  end.
