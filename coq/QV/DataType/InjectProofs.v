From Coq Require Import ZArith List Bool Reals Lia Lra Psatz.
From Flocq Require Import Core IEEE754.BinarySingleNaN IEEE754.Binary IEEE754.Bits.
From QV Require Import DataType.Inject.
Import ListNotations.

(* ---------- liftings preserve injectivity ---------- *)
Definition injective {A B} (f : A -> option B) : Prop :=
  forall a a' b, f a = Some b -> f a' = Some b -> a = a'.

Lemma opt_lift_injective {A B} (f : A -> option B) : injective f -> injective (opt_lift f).
Proof.
  intros Hf x x' y Hx Hx'. destruct x as [a|], x' as [a'|]; cbn in *.
  - destruct (f a) as [b0|] eqn:E1; [|discriminate]. destruct (f a') as [b1|] eqn:E2; [|discriminate].
    injection Hx as <-. injection Hx' as E. f_equal. apply (Hf a a' b0); congruence.
  - destruct (f a) as [b0|] eqn:E1; [|discriminate]. congruence.
  - destruct (f a') as [b1|] eqn:E2; [|discriminate]. congruence.
  - reflexivity.
Qed.

Lemma list_lift_injective {A B} (f : A -> option B) : injective f -> injective (list_lift f).
Proof.
  intros Hf l. induction l as [|a l IH]; intros [|a' l'] b; cbn.
  - auto.
  - intros [= <-]. destruct (f a'), (list_lift f l'); discriminate.
  - destruct (f a), (list_lift f l); try discriminate. intros [= <-]. discriminate.
  - destruct (f a) eqn:E1, (list_lift f l) eqn:E2; try discriminate.
    destruct (f a') eqn:E3, (list_lift f l') eqn:E4; try discriminate.
    intros [= <-] [= -> ->]. f_equal; [eapply Hf; eauto|eapply IH; eauto].
Qed.

Lemma struct_lift_injective {A B} (fs : list (A -> option B)) :
  Forall injective fs -> injective (struct_lift fs).
Proof.
  induction fs as [|f fs IH]; intros Hfs [|a l] [|a' l'] b; cbn; try discriminate; auto.
  inversion Hfs as [|? ? Hf Hfs']; subst.
  destruct (f a) eqn:E1, (struct_lift fs l) eqn:E2; try discriminate.
  destruct (f a') eqn:E3, (struct_lift fs l') eqn:E4; try discriminate.
  intros [= <-] [= -> ->]. f_equal; [eapply Hf; eauto|eapply IH; eauto].
Qed.

(* the converted value lies in the converted type, for the liftings: membership is pointwise *)
Lemma list_lift_image {A B} (f : A -> option B) (P : A -> Prop) (Q : B -> Prop) :
  (forall a b, P a -> f a = Some b -> Q b) ->
  forall l l', Forall P l -> list_lift f l = Some l' -> Forall Q l'.
Proof.
  intros H l. induction l as [|a l IH]; intros l' Hl; cbn.
  - intros [= <-]. constructor.
  - inversion Hl; subst. destruct (f a) eqn:E1, (list_lift f l) eqn:E2; try discriminate.
    intros [= <-]. constructor; eauto.
Qed.

Lemma opt_lift_image {A B} (f : A -> option B) (P : A -> Prop) (Q : B -> Prop) :
  (forall a b, P a -> f a = Some b -> Q b) ->
  forall x y, (forall a, x = Some a -> P a) -> opt_lift f x = Some y -> (forall b, y = Some b -> Q b).
Proof.
  intros H [a|] y Hx; cbn.
  - destruct (f a) eqn:E; [|discriminate]. intros [= <-] b' [= <-]. eapply H; eauto.
  - intros [= <-] b' Hb. discriminate.
Qed.

(* ---------- Boolean <-> Integer ---------- *)
Lemma b2i_injective a b : b2i a = b2i b -> a = b.
Proof. destruct a, b; cbn; congruence. Qed.
Lemma i2b_b2i b : i2b (b2i b) = Some b.
Proof. destruct b; reflexivity. Qed.
Lemma i2b_lossy_refused i : (i <> 0 -> i <> 1 -> i2b i = None)%Z.
Proof. destruct i as [|[p|p|]|p]; cbn; congruence. Qed.
Lemma i2b_injective : injective i2b.
Proof. intros a a' b. destruct a as [|[p|p|]|p], a' as [|[q|q|]|q]; cbn; congruence. Qed.

(* ---------- Integer -> Float ---------- *)
Notation fexp64 := (FLT_exp (3 - 1024 - 53) 53).
Notation rnd64 x := (round radix2 fexp64 ZnearestE x).

Local Instance prec_gt_0_53 : Prec_gt_0 53. Proof. unfold Prec_gt_0. reflexivity. Qed.
Local Instance valid_exp64 : Valid_exp fexp64. Proof. apply FLT_exp_valid. apply prec_gt_0_53. Qed.

Lemma pow63_format : generic_format radix2 fexp64 (bpow radix2 63).
Proof. apply generic_format_bpow. unfold FLT_exp. lia. Qed.

Lemma i2f_correct i : (Z.abs i <= 2 ^ 63)%Z ->
  Binary.B2R 53 1024 (i2f i) = rnd64 (IZR i) /\ Binary.is_finite 53 1024 (i2f i) = true.
Proof.
  intros Hi. unfold i2f.
  pose proof (Binary.binary_normalize_correct 53 1024 (refl_equal _) (refl_equal _) mode_NE i 0 false) as H.
  assert (E : F2R (Float radix2 i 0) = IZR i) by (unfold F2R; cbn; ring).
  rewrite E in H. cbn [round_mode] in H.
  change (SpecFloat.fexp 53 1024) with fexp64 in H.
  assert (Hb : (Rabs (rnd64 (IZR i)) < bpow radix2 1024)%R).
  { apply Rle_lt_trans with (bpow radix2 63).
    - apply abs_round_le_generic; [apply valid_exp64|apply valid_rnd_N|apply pow63_format|].
      rewrite <- abs_IZR. change (bpow radix2 63) with (IZR (2 ^ 63)). now apply IZR_le.
    - apply bpow_lt. lia. }
  rewrite (Rlt_bool_true _ _ Hb) in H. tauto.
Qed.

(* the image [value(min), value(max)] of an integer interval contains the image of every point *)
Theorem i2f_monotone a b : (Z.abs a <= 2 ^ 63)%Z -> (Z.abs b <= 2 ^ 63)%Z -> (a <= b)%Z ->
  (Binary.B2R 53 1024 (i2f a) <= Binary.B2R 53 1024 (i2f b))%R.
Proof.
  intros Ha Hb Hab. rewrite (proj1 (i2f_correct a Ha)), (proj1 (i2f_correct b Hb)).
  apply round_le; [apply valid_exp64|apply valid_rnd_N|]. now apply IZR_le.
Qed.

Lemma small_int_format i : (Z.abs i <= 2 ^ 53)%Z -> generic_format radix2 fexp64 (IZR i).
Proof.
  intros Hi. destruct (Z.eq_dec (Z.abs i) (2 ^ 53)) as [E|E].
  - (* +-2^53 = +-1 * 2^53 *)
    apply generic_format_FLT. destruct (Z.abs_eq_or_opp i) as [Hs|Hs].
    + apply FLT_spec with (Float radix2 1 53); cbn; [|lia|lia]. rewrite Hs in E. rewrite E. unfold F2R; cbn. lra.
    + apply FLT_spec with (Float radix2 (-1) 53); cbn; [|lia|lia].
      assert (i = - 2 ^ 53)%Z by lia. subst i. unfold F2R; cbn. lra.
  - apply generic_format_FLT. apply FLT_spec with (Float radix2 i 0); cbn; [unfold F2R; cbn; ring|lia|lia].
Qed.

(* exact, hence injective and value preserving, up to 2^53 in absolute value *)
Theorem i2f_exact i : (Z.abs i <= 2 ^ 53)%Z -> Binary.B2R 53 1024 (i2f i) = IZR i.
Proof.
  intros Hi. rewrite (proj1 (i2f_correct i ltac:(lia))).
  apply round_generic; [apply valid_rnd_N|now apply small_int_format].
Qed.

Theorem i2f_injective_small a b : (Z.abs a <= 2 ^ 53)%Z -> (Z.abs b <= 2 ^ 53)%Z ->
  i2f a = i2f b -> a = b.
Proof.
  intros Ha Hb E. apply eq_IZR. rewrite <- (i2f_exact a Ha), <- (i2f_exact b Hb). now rewrite E.
Qed.

(* beyond 2^53 the conversion is not injective (known finding of the unchanged tree) *)
Theorem i2f_not_injective_refuted : exists a b, a <> b /\ bits_of_b64 (i2f a) = bits_of_b64 (i2f b).
Proof. exists (2 ^ 53)%Z, (2 ^ 53 + 1)%Z. split; [lia|]. vm_compute. reflexivity. Qed.

(* ---------- Float -> Integer ---------- *)
(* whatever is accepted converts back to the same float: Some i only if (i as f64) == x *)
Theorem f2i_round_trip x i : f2i x = Some i -> feq (i2f i) x = true.
Proof.
  unfold f2i. destruct (flt x (i2f (2 ^ 63))); [|discriminate]. cbn [andb].
  destruct (feq (i2f (f_as_i64 x)) x) eqn:E; [intros [= <-]; exact E|discriminate].
Qed.

(* 2^63 itself is refused (it would saturate to i64::MAX) *)
Example f2i_two_pow_63_refused : f2i (i2f (2 ^ 63)) = None /\ f2i (i2f (- 2 ^ 63)) = Some (- 2 ^ 63)%Z.
Proof. vm_compute. split; reflexivity. Qed.

(* a non-integral float is refused: 0.5, 1.5, -2.25, and the largest non-integral double *)
Example f2i_lossy_refused :
  f2i (b64_of_bits 4602678819172646912) = None /\ f2i (b64_of_bits 4609434218613702656) = None /\
  f2i (b64_of_bits 13835339530258874368) = None /\ f2i (b64_of_bits 4841369599423283199) = None.
Proof. vm_compute. repeat split. Qed.

Example f2i_accepts_integral :
  f2i (b64_of_bits 4611686018427387904) = Some 2%Z /\ f2i (i2f (-7)) = Some (-7)%Z /\ f2i (i2f (2 ^ 53)) = Some (2 ^ 53)%Z.
Proof. vm_compute. repeat split. Qed.
