(* C02: a meaning for the labels over the origin of data, and the local condition on
   rules that makes it inductive. *)
From QV Require Import Rules.Model Rules.Search.

(* labels under which a relation may be handed out *)
Definition safe (l : label) : bool :=
  match l with Public | Published | DP | SD => true | Private | PUP => false end.

(* the only noise-adding step: a Reduce turning privacy-unit-preserving input into DP *)
Definition is_dp_rule (k : kind) (r : rule) : bool :=
  match k with
  | KReduce => labels_eqb (ins r) [PUP] && label_eqb (out r) DP
  | _ => false
  end.

(* raw t d: under derivation d the value of node t depends on the rows of a protected
   table read as they are (not its synthetic replacement) along a path that crosses no
   DP aggregation *)
Fixpoint raw (t : tree) (d : deriv) : bool :=
  match t, d with
  | Node k _ ts, D r ds =>
      match k with
      | KTable protected => protected && negb (label_eqb (out r) SD)
      | KValues => false
      | _ =>
          if is_dp_rule k r then false
          else (fix go (ts : list tree) (ds : list deriv) : bool :=
                  match ts, ds with
                  | t :: ts', d :: ds' => raw t d || go ts' ds'
                  | _, _ => false
                  end) ts ds
      end
  end.

Fixpoint raw_list (ts : list tree) (ds : list deriv) : bool :=
  match ts, ds with
  | t :: ts', d :: ds' => raw t d || raw_list ts' ds'
  | _, _ => false
  end.

Lemma raw_node k rs ts r ds :
  raw (Node k rs ts) (D r ds) =
  match k with
  | KTable protected => protected && negb (label_eqb (out r) SD)
  | KValues => false
  | _ => if is_dp_rule k r then false else raw_list ts ds
  end.
Proof.
  assert (E : forall ts ds, (fix go (ts : list tree) (ds : list deriv) : bool :=
                  match ts, ds with
                  | t :: ts', d :: ds' => raw t d || go ts' ds'
                  | _, _ => false
                  end) ts ds = raw_list ts ds).
  { induction ts0 as [|t ts0 IH]; intros [|d ds0]; cbn; auto; try now rewrite IH. }
  cbn [raw]. destruct k; auto; now rewrite E.
Qed.

(* local soundness of one rule at one kind of node *)
Definition rule_ok (k : kind) (r : rule) : bool :=
  match k with
  | KTable true => negb (safe (out r)) || label_eqb (out r) SD
  | KTable false | KValues => true
  | _ => negb (safe (out r)) || is_dp_rule k r || forallb safe (ins r)
  end.

Fixpoint all_rules_ok (t : tree) : bool :=
  match t with
  | Node k rs ts => forallb (rule_ok k) rs && forallb all_rules_ok ts
  end.

(* A label that may be handed out is never attached to a node that still depends on raw
   protected rows. *)
Theorem derivation_clean t : forall d,
  all_rules_ok t = true -> consistent t d -> safe (dout d) = true -> raw t d = false.
Proof.
  induction t as [k rs ts IH] using tree_ind'. intros d Hok Hc Hs.
  inversion Hc as [? ? ? r ds Hr Hf He]; subst. rewrite raw_node.
  cbn [all_rules_ok] in Hok. apply andb_true_iff in Hok as [Hrs Hts].
  assert (Hrk : rule_ok k r = true) by (rewrite forallb_forall in Hrs; auto).
  unfold dout in Hs; cbn in Hs.
  destruct k as [[|]| | | | |]; cbn [rule_ok] in Hrk; auto.
  - (* protected table *)
    rewrite Hs in Hrk. cbn in Hrk. rewrite Hrk. reflexivity.
  - destruct (is_dp_rule KMap r) eqn:Edp; auto. rewrite Hs in Hrk. cbn in Hrk.
    revert Hrk. rewrite He. clear -IH Hf Hts. revert Hts IH.
    induction Hf as [|t d ts ds H1 H2 IH2]; intros Hts IH Hrk; cbn; auto.
    cbn in Hts, Hrk. apply andb_true_iff in Hts as [Ht Hts]. apply andb_true_iff in Hrk as [Hd Hrk].
    inversion IH; subst. rewrite (H3 d Ht H1 Hd). cbn. auto.
  - destruct (is_dp_rule KReduce r) eqn:Edp; auto. rewrite Hs in Hrk. cbn in Hrk.
    revert Hrk. rewrite He. clear -IH Hf Hts. revert Hts IH.
    induction Hf as [|t d ts ds H1 H2 IH2]; intros Hts IH Hrk; cbn; auto.
    cbn in Hts, Hrk. apply andb_true_iff in Hts as [Ht Hts]. apply andb_true_iff in Hrk as [Hd Hrk].
    inversion IH; subst. rewrite (H3 d Ht H1 Hd). cbn. auto.
  - destruct (is_dp_rule KJoin r) eqn:Edp; auto. rewrite Hs in Hrk. cbn in Hrk.
    revert Hrk. rewrite He. clear -IH Hf Hts. revert Hts IH.
    induction Hf as [|t d ts ds H1 H2 IH2]; intros Hts IH Hrk; cbn; auto.
    cbn in Hts, Hrk. apply andb_true_iff in Hts as [Ht Hts]. apply andb_true_iff in Hrk as [Hd Hrk].
    inversion IH; subst. rewrite (H3 d Ht H1 Hd). cbn. auto.
  - destruct (is_dp_rule KSet r) eqn:Edp; auto. rewrite Hs in Hrk. cbn in Hrk.
    revert Hrk. rewrite He. clear -IH Hf Hts. revert Hts IH.
    induction Hf as [|t d ts ds H1 H2 IH2]; intros Hts IH Hrk; cbn; auto.
    cbn in Hts, Hrk. apply andb_true_iff in Hts as [Ht Hts]. apply andb_true_iff in Hrk as [Hd Hrk].
    inversion IH; subst. rewrite (H3 d Ht H1 Hd). cbn. auto.
Qed.

(* trees whose nodes carry rule lists of a given table *)
Section Table.
Variable table : list (bool * bool * kind * list rule).

Definition table_ok : bool := forallb (fun e => forallb (rule_ok (snd (fst e))) (snd e)) table.

Definition kind_eqb (a b : kind) : bool :=
  match a, b with
  | KTable x, KTable y => Bool.eqb x y
  | KMap, KMap | KReduce, KReduce | KJoin, KJoin | KSet, KSet | KValues, KValues => true
  | _, _ => false
  end.

Fixpoint rules_eqb (x y : list rule) : bool :=
  match x, y with
  | [], [] => true
  | a :: x', b :: y' => rule_eqb a b && rules_eqb x' y'
  | _, _ => false
  end.

Definition in_table (syn hard : bool) (k : kind) (rs : list rule) : bool :=
  existsb (fun e => let '(s, h, k', rs') := e in
                    Bool.eqb s syn && Bool.eqb h hard && kind_eqb k' k && rules_eqb rs' rs) table.

Fixpoint from_table (syn hard : bool) (t : tree) : bool :=
  match t with
  | Node k rs ts => in_table syn hard k rs && forallb (from_table syn hard) ts
  end.

Lemma rule_eqb_eq r s : rule_eqb r s = true -> r = s.
Proof.
  destruct r as [i o], s as [i' o']. unfold rule_eqb; cbn. intros H.
  apply andb_true_iff in H as [H1 H2]. apply labels_eqb_eq in H1. apply label_eqb_eq in H2. congruence.
Qed.

Lemma rules_eqb_eq x : forall y, rules_eqb x y = true -> x = y.
Proof.
  induction x as [|a x IH]; intros [|b y]; cbn; try discriminate; auto.
  intros H. apply andb_true_iff in H as [H1 H2]. apply rule_eqb_eq in H1. apply IH in H2. congruence.
Qed.

Lemma kind_eqb_eq a b : kind_eqb a b = true -> a = b.
Proof. destruct a as [[|]| | | | |], b as [[|]| | | | |]; cbn; congruence. Qed.

Lemma from_table_ok syn hard t : table_ok = true -> from_table syn hard t = true -> all_rules_ok t = true.
Proof.
  intros Hok. induction t as [k rs ts IH] using tree_ind'. cbn [from_table all_rules_ok].
  intros H. apply andb_true_iff in H as [H1 H2]. apply andb_true_iff. split.
  - unfold in_table in H1. apply existsb_exists in H1 as ([[[s h] k'] rs'] & Hin & He).
    repeat (apply andb_true_iff in He as [He ?]).
    apply kind_eqb_eq in H0. apply rules_eqb_eq in H. subst.
    unfold table_ok in Hok. rewrite forallb_forall in Hok. apply (Hok _ Hin).
  - rewrite forallb_forall in *. intros t Ht. rewrite Forall_forall in IH. auto.
Qed.

(* what the compiler returns for a DP request never depends on raw protected rows *)
Theorem rewrite_dp_clean syn hard t d :
  table_ok = true -> from_table syn hard t = true ->
  rewrite_dp t = Some d -> raw t d = false.
Proof.
  intros Hok Hft H. apply best_sound in H as [Hc Ha].
  apply derivation_clean; [eapply from_table_ok; eauto|exact Hc|].
  unfold rewrite_dp in *. destruct (dout d); cbn in *; congruence.
Qed.

(* a protected table is never itself treated as public or published *)
Theorem protected_table_never_public syn hard rs r :
  table_ok = true -> in_table syn hard (KTable true) rs = true -> In r rs ->
  out r <> Public /\ out r <> Published /\ out r <> DP.
Proof.
  intros Hok Hin Hr. unfold in_table in Hin. apply existsb_exists in Hin as ([[[s h] k'] rs'] & Hin & He).
  repeat (apply andb_true_iff in He as [He ?]).
  apply kind_eqb_eq in H0. apply rules_eqb_eq in H. subst.
  unfold table_ok in Hok. rewrite forallb_forall in Hok. specialize (Hok _ Hin). cbn in Hok.
  rewrite forallb_forall in Hok. specialize (Hok r Hr). cbn in Hok.
  destruct (out r); cbn in Hok; repeat split; congruence.
Qed.
End Table.
