(* C13: the search returns exactly the consistent derivations and picks a best one. *)
From QV Require Import Rules.Model.

Lemma label_eqb_eq a b : label_eqb a b = true <-> a = b.
Proof. destruct a, b; cbn; split; congruence. Qed.

Lemma labels_eqb_eq x : forall y, labels_eqb x y = true <-> x = y.
Proof.
  induction x as [|a x IH]; intros [|b y]; cbn; split; try congruence; auto.
  - intros H. apply andb_true_iff in H as [H1 H2]. apply label_eqb_eq in H1. apply IH in H2. congruence.
  - intros [= -> ->]. apply andb_true_iff. split; [now apply label_eqb_eq|now apply IH].
Qed.

(* strong induction principle for the nested trees *)
Fixpoint tree_ind' (P : tree -> Prop)
  (H : forall k rs ts, Forall P ts -> P (Node k rs ts)) (t : tree) : P t :=
  match t with
  | Node k rs ts =>
      H k rs ts ((fix go (ts : list tree) : Forall P ts :=
                    match ts with
                    | [] => Forall_nil P
                    | t :: ts' => Forall_cons t (tree_ind' P H t) (go ts')
                    end) ts)
  end.

Fixpoint deriv_ind' (P : deriv -> Prop)
  (H : forall r ds, Forall P ds -> P (D r ds)) (d : deriv) : P d :=
  match d with
  | D r ds =>
      H r ds ((fix go (ds : list deriv) : Forall P ds :=
                 match ds with
                 | [] => Forall_nil P
                 | d :: ds' => Forall_cons d (deriv_ind' P H d) (go ds')
                 end) ds)
  end.

(* a derivation assigns to every node one of its rules whose inputs are exactly the
   labels produced at the children *)
Inductive consistent : tree -> deriv -> Prop :=
| Cons k rs ts r ds :
    In r rs -> Forall2 consistent ts ds -> ins r = map dout ds ->
    consistent (Node k rs ts) (D r ds).

Lemma cart_spec {A} (ls : list (list A)) : forall xs,
  In xs (cart ls) <-> Forall2 (fun l x => In x l) ls xs.
Proof.
  induction ls as [|l rest IH]; intros xs; cbn [cart].
  - split.
    + intros [<-|[]]. constructor.
    + intros H. inversion H. left. reflexivity.
  - rewrite in_flat_map. split.
    + intros (x & Hx & Hm). apply in_map_iff in Hm as (ys & <- & Hy). constructor; auto. now apply IH.
    + intros H. inversion H as [|? x ? ys Hx Hr]; subst. exists x. split; auto.
      apply in_map_iff. exists ys. split; auto. now apply IH.
Qed.

Lemma Forall2_map_l {A B C} (R : B -> C -> Prop) (f : A -> B) l l' :
  Forall2 R (map f l) l' <-> Forall2 (fun a c => R (f a) c) l l'.
Proof.
  revert l'. induction l as [|a l IH]; intros l'; cbn; split; intros H; inversion H; subst; constructor; auto; now apply IH.
Qed.

Theorem select_spec t : forall d, In d (select t) <-> consistent t d.
Proof.
  induction t as [k rs ts IH] using tree_ind'. intros d. cbn [select].
  rewrite in_flat_map. split.
  - intros (ds & Hds & Hd). apply in_map_iff in Hd as (r & <- & Hr).
    apply filter_In in Hr as [Hr He]. apply labels_eqb_eq in He.
    apply cart_spec in Hds. apply Forall2_map_l in Hds.
    constructor; auto.
    clear -IH Hds. induction Hds as [|t d' ts' ds' H1 H2 IH2]; constructor.
    + inversion IH; subst. now apply H3.
    + inversion IH; subst. auto.
  - intros H. inversion H as [? ? ? r ds Hr Hf He]; subst. exists ds. split.
    + apply cart_spec. apply Forall2_map_l.
      clear -IH Hf. induction Hf as [|t d' ts' ds' H1 H2 IH2]; constructor.
      * inversion IH; subst. now apply H3.
      * inversion IH; subst. auto.
    + apply in_map_iff. exists r. split; auto. apply filter_In. split; auto. now apply labels_eqb_eq.
Qed.

(* elimination keeps exactly the rules that occur in some consistent derivation's root... at least
   it loses no consistent derivation and adds none *)
Lemma eliminate_rules_subset t : forall r, In r (rules_of (eliminate t)) -> In r (rules_of t).
Proof. destruct t as [k rs ts]. cbn. intros r H. apply filter_In in H. tauto. Qed.

Lemma consistent_eliminate t : forall d, consistent t d -> consistent (eliminate t) d.
Proof.
  induction t as [k rs ts IH] using tree_ind'. intros d H.
  inversion H as [? ? ? r ds Hr Hf He]; subst. cbn [eliminate].
  assert (Hf' : Forall2 consistent (map eliminate ts) ds).
  { apply (proj2 (Forall2_map_l consistent eliminate ts ds)).
    clear -IH Hf. induction Hf as [|t0 d0 ts0 ds0 H1 H2 IH2]; [constructor|].
    inversion IH; subst. constructor; auto. }
  constructor; auto.
  apply filter_In. split; auto. rewrite He.
  clear -Hf'. induction Hf' as [|t d ts' ds' H1 H2 IH2]; cbn; auto.
  apply andb_true_iff. split; auto.
  apply existsb_exists. inversion H1; subst. exists r. cbn. split; auto.
  destruct r as [i o]; cbn. now apply label_eqb_eq.
Qed.

Lemma eliminate_consistent t : forall d, consistent (eliminate t) d -> consistent t d.
Proof.
  induction t as [k rs ts IH] using tree_ind'. intros d H. cbn [eliminate] in H.
  inversion H as [? ? ? r ds Hr Hf He]; subst.
  apply filter_In in Hr as [Hr _].
  constructor; auto.
  apply (proj1 (Forall2_map_l consistent eliminate ts ds)) in Hf.
  clear -IH Hf. induction Hf as [|t0 d0 ts0 ds0 H1 H2 IH2]; [constructor|].
  inversion IH; subst. constructor; auto.
Qed.

Theorem select_eliminate_spec t d : In d (select (eliminate t)) <-> consistent t d.
Proof. rewrite select_spec. split; [apply eliminate_consistent|apply consistent_eliminate]. Qed.

(* ---------- best ---------- *)

Lemma max_by_last_spec {A} (f : A -> Z) (l : list A) : forall init,
  match fold_left (fun best x => match best with None => Some x
                                 | Some b => if (f b <=? f x)%Z then Some x else Some b end) l init with
  | None => l = [] /\ init = None
  | Some m => (In m l \/ init = Some m) /\
              (forall x, In x l -> (f x <= f m)%Z) /\
              (forall b, init = Some b -> (f b <= f m)%Z)
  end.
Proof.
  induction l as [|x l IH]; intros init; cbn [fold_left].
  - destruct init as [b|]; [|auto]. split; [right; reflexivity|]. split; [intros ? []|]. intros b' [= <-]. lia.
  - specialize (IH (match init with None => Some x | Some b => if (f b <=? f x)%Z then Some x else Some b end)).
    destruct (fold_left _ l _) as [m|] eqn:E.
    + destruct IH as (Hin & Hmax & Hinit). split; [|split].
      * destruct Hin as [Hin|Hin]; [left; right; exact Hin|].
        destruct init as [b|]; [destruct (f b <=? f x)%Z|]; injection Hin as <-; auto. left; left; reflexivity. left; left; reflexivity.
      * intros y [<-|Hy]; [|auto].
        destruct init as [b|]; [destruct (f b <=? f x)%Z eqn:C|].
        -- apply (Hinit x eq_refl).
        -- specialize (Hinit b eq_refl). lia.
        -- apply (Hinit x eq_refl).
      * intros b ->. destruct (f b <=? f x)%Z eqn:C.
        -- specialize (Hinit x eq_refl). lia.
        -- apply (Hinit b eq_refl).
    + destruct IH as [_ IH]. destruct init as [b|]; [destruct (f b <=? f x)%Z|]; discriminate.
Qed.

Lemma max_by_last_some {A} (f : A -> Z) (l : list A) m :
  max_by_last f l = Some m -> In m l /\ forall x, In x l -> (f x <= f m)%Z.
Proof.
  unfold max_by_last. intros H. pose proof (max_by_last_spec f l None) as S. rewrite H in S.
  destruct S as ([Hi|Hi] & Hm & _); [auto|discriminate].
Qed.

Lemma max_by_last_none {A} (f : A -> Z) (l : list A) : max_by_last f l = None <-> l = [].
Proof.
  unfold max_by_last. pose proof (max_by_last_spec f l None) as S. split.
  - intros H. rewrite H in S. tauto.
  - intros ->. reflexivity.
Qed.

Section Best.
Variable w : label -> Z.
Variable acc : label -> bool.

(* well-typed: the derivation applied is consistent and its root label acceptable *)
Theorem best_sound t d : best w acc t = Some d -> consistent t d /\ acc (dout d) = true.
Proof.
  unfold best, candidates. intros H. apply max_by_last_some in H as [H _].
  apply filter_In in H as [H1 H2]. split; auto. now apply select_eliminate_spec.
Qed.

(* complete: a rewriting is returned exactly when an acceptable consistent derivation exists *)
Theorem best_some_iff t :
  (exists d, best w acc t = Some d) <-> (exists d, consistent t d /\ acc (dout d) = true).
Proof.
  split.
  - intros [d H]. exists d. now apply best_sound.
  - intros [d [H1 H2]]. destruct (best w acc t) as [m|] eqn:E; [eauto|].
    unfold best in E. apply max_by_last_none in E.
    assert (In d (candidates acc t)) by (apply filter_In; split; auto; now apply select_eliminate_spec).
    rewrite E in H. destruct H.
Qed.

Theorem best_none_iff t :
  best w acc t = None <-> (forall d, consistent t d -> acc (dout d) = false).
Proof.
  split.
  - intros E d Hc. destruct (acc (dout d)) eqn:A; auto.
    assert (X : exists d, best w acc t = Some d) by (apply best_some_iff; eauto).
    destruct X as [m X]. congruence.
  - intros H. destruct (best w acc t) as [m|] eqn:E; auto.
    apply best_sound in E as [E1 E2]. rewrite (H m E1) in E2. discriminate.
Qed.

(* best-scoring: no acceptable consistent derivation scores strictly higher *)
Theorem best_optimal t d d' :
  best w acc t = Some d -> consistent t d' -> acc (dout d') = true -> (score w d' <= score w d)%Z.
Proof.
  unfold best. intros H Hc Ha. apply max_by_last_some in H as [_ H]. apply H.
  apply filter_In. split; auto. now apply select_eliminate_spec.
Qed.
End Best.

(* no index of the eliminator / selector is out of range on trees built from a rule table
   whose rules have as many inputs as the node has children *)
Lemma consistent_arity t d : consistent t d ->
  match t, d with Node _ _ ts, D r ds => length (ins r) = length ds /\ length ts = length ds end.
Proof.
  intros H. inversion H as [? ? ? r ds Hr Hf He]; subst. split.
  - rewrite He. apply map_length.
  - clear -Hf. induction Hf; cbn; auto.
Qed.
