(* Model of the rewriting-rule search of src/rewriting/{rewriting_rule,mod}.rs:
   rule elimination (RewritingRulesEliminator), enumeration of consistent rule
   assignments (SelectRewritingRuleVisitor / RewritingRulesSelector), the additive
   Score, and the choice of the best acceptable derivation (max_by: last maximum).
   The visitors of src/visitor.rs memoise on structural equality and the visited
   functions are pure, so the DAG is modelled as a tree. *)
From Coq Require Export List ZArith Bool Lia.
Export ListNotations.

Inductive label := Private | SD | PUP | DP | Published | Public.

Definition label_eqb (a b : label) : bool :=
  match a, b with
  | Private, Private | SD, SD | PUP, PUP | DP, DP | Published, Published | Public, Public => true
  | _, _ => false
  end.

Record rule := { ins : list label; out : label }.

Inductive kind :=
| KTable (protected : bool)
| KMap
| KReduce
| KJoin
| KSet
| KValues.

Inductive tree := Node (k : kind) (rules : list rule) (children : list tree).
Inductive deriv := D (r : rule) (children : list deriv).

Definition rules_of (t : tree) : list rule := match t with Node _ rs _ => rs end.
Definition children_of (t : tree) : list tree := match t with Node _ _ ts => ts end.
Definition kind_of (t : tree) : kind := match t with Node k _ _ => k end.
Definition droot (d : deriv) : rule := match d with D r _ => r end.
Definition dout (d : deriv) : label := out (droot d).

Fixpoint labels_eqb (x y : list label) : bool :=
  match x, y with
  | [], [] => true
  | a :: x', b :: y' => label_eqb a b && labels_eqb x' y'
  | _, _ => false
  end.

Definition rule_eqb (r s : rule) : bool := labels_eqb (ins r) (ins s) && label_eqb (out r) (out s).

(* each input label is offered by the corresponding (already eliminated) child *)
Fixpoint feasible (ls : list label) (cs : list tree) : bool :=
  match ls, cs with
  | [], [] => true
  | l :: ls', c :: cs' => existsb (fun r => label_eqb (out r) l) (rules_of c) && feasible ls' cs'
  | _, _ => false
  end.

(* RewritingRulesEliminator through the bottom-up visitor *)
Fixpoint eliminate (t : tree) : tree :=
  match t with
  | Node k rs ts =>
      let ts' := map eliminate ts in
      Node k (filter (fun r => feasible (ins r) ts') rs) ts'
  end.

(* all ways of picking one element per list; the first list varies slowest *)
Fixpoint cart {A} (ls : list (list A)) : list (list A) :=
  match ls with
  | [] => [[]]
  | l :: rest => flat_map (fun x => map (cons x) (cart rest)) l
  end.

(* SelectRewritingRuleVisitor + RewritingRulesSelector *)
Fixpoint select (t : tree) : list deriv :=
  match t with
  | Node k rs ts =>
      flat_map (fun ds => map (fun r => D r ds)
                              (filter (fun r => labels_eqb (ins r) (map dout ds)) rs))
               (cart (map select ts))
  end.

Fixpoint zsum (l : list Z) : Z := match l with [] => 0%Z | x :: t => (x + zsum t)%Z end.

(* Score visitor: weight of the node's output label plus the scores of the inputs *)
Fixpoint score (w : label -> Z) (d : deriv) : Z :=
  match d with D r ds => (w (out r) + zsum (map (score w) ds))%Z end.

(* Iterator::max_by: the last of several equal maxima *)
Definition max_by_last {A} (f : A -> Z) (l : list A) : option A :=
  fold_left (fun best x =>
               match best with
               | None => Some x
               | Some b => if (f b <=? f x)%Z then Some x else Some b
               end) l None.

Definition candidates (acc : label -> bool) (t : tree) : list deriv :=
  filter (fun d => acc (dout d)) (select (eliminate t)).

Definition best (w : label -> Z) (acc : label -> bool) (t : tree) : option deriv :=
  max_by_last (score w) (candidates acc t).

(* the constants of the code *)
Definition weight (l : label) : Z :=
  match l with SD => 1 | PUP => 2 | DP => 5 | Published => 1 | Public => 10 | Private => 0 end%Z.
Definition accept_dp (l : label) : bool :=
  match l with Public | Published | DP | SD => true | _ => false end.
Definition accept_pup (l : label) : bool :=
  match l with Public | PUP => true | _ => false end.

(* rewrite_with_differential_privacy / rewrite_as_privacy_unit_preserving: None stands for
   Err(UnreachableProperty) *)
Definition rewrite_dp (t : tree) : option deriv := best weight accept_dp t.
Definition rewrite_pup (t : tree) : option deriv := best weight accept_pup t.

(* the index rr.inputs()[i] of the eliminator/selector is in range *)
Fixpoint arity_ok (t : tree) : bool :=
  match t with
  | Node k rs ts =>
      forallb (fun r => Nat.eqb (length (ins r)) (length ts)) rs && forallb arity_ok ts
  end.

Definition R (i : list label) (o : label) : rule := {| ins := i; out := o |}.
