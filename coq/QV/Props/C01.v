(* C01 - the true sensitivity never exceeds the clipping bound; pinned statements *)
From Coq Require Import Reals.
From QV Require Import DP.Clip DP.ClipProofs.
Open Scope R_scope.

(* whatever a unit contributes (any values, any number of rows and groups), its clipped
   contribution has Euclidean norm at most C *)
Theorem C01_clip_norm : forall C v, 0 < C -> norm (clip C v) <= C.
Proof. exact clip_norm. Qed.
Print Assumptions C01_clip_norm.

(* two databases that differ in the rows of one unit: the vector of released pre-noise sums over
   the groups changes by at most C in Euclidean norm *)
Theorem C01_sensitivity : forall C D1 D2 u,
  0 < C -> norm (change C (D1 ++ D2) (D1 ++ u :: D2) (length u)) <= C.
Proof. exact sensitivity. Qed.
Print Assumptions C01_sensitivity.

Theorem C01_change_is_clip : forall C D1 D2 u,
  change C (D1 ++ D2) (D1 ++ u :: D2) (length u) = clip C u.
Proof. exact change_is_clip. Qed.
Print Assumptions C01_change_is_clip.

(* the characterisation the correspondence check evaluates on rationals *)
Theorem C01_clip_inactive : forall C v, 0 < C -> sumsq v <= C * C -> clip C v = v.
Proof. exact clip_inactive. Qed.
Print Assumptions C01_clip_inactive.

Theorem C01_clip_active : forall C v, 0 < C -> C * C < sumsq v ->
  clip C v = map (Rmult (C / norm v)) v /\ sumsq (clip C v) = C * C.
Proof. exact clip_active. Qed.
Print Assumptions C01_clip_active.

Theorem C01_unclipped_refuted : forall C, 0 < C -> exists v, C * C < sumsq v.
Proof. exact unclipped_refuted. Qed.
Print Assumptions C01_unclipped_refuted.
