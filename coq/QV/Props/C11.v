(* C11 — pinned statements (interval level).  Only statements, [exact], Check and
   Print Assumptions live here. *)
From QV Require Import Intervals.Model Intervals.Proofs Intervals.Extra Intervals.Full.
Open Scope Z_scope.

Lemma cap_ok : (1 < CAP)%nat. Proof. unfold CAP. lia. Qed.

(* Interval sets stay sorted, disjoint and within capacity after ANY history of
   unions and intersections (no bound on the length), and no step panics. *)
Theorem C11_history_wf : forall ops s, WF CAP s -> Forall (op_ok CAP) ops ->
  exists s', run CAP s ops = Some s' /\ WF CAP s'.
Proof. intros ops s. exact (run_WF CAP cap_ok ops s). Qed.

(* ... and never lose a point: union keeps every point of both operands,
   intersection every common point, whether or not the capacity was crossed. *)
Theorem C11_union_superset : forall a b, WF CAP a -> WF CAP b ->
  exists r, union CAP a b = Some r /\ WF CAP r /\
    (forall v, mem v a || mem v b = true -> mem v r = true).
Proof. exact (union_sound CAP cap_ok). Qed.

Theorem C11_intersection_superset : forall a b, WF CAP a -> WF CAP b ->
  exists r, intersection CAP a b = Some r /\ WF CAP r /\
    (forall v, mem v a && mem v b = true -> mem v r = true).
Proof. exact (intersection_sound CAP cap_ok). Qed.

Theorem C11_simplify_superset : forall l v, wf l -> mem v l = true -> mem v (simplify CAP l) = true.
Proof. intros l v. exact (simplify_superset CAP l v). Qed.

Theorem C11_step_sound : forall s o s' v,
  WF CAP s -> op_ok CAP o -> step CAP s o = Some s' ->
  match o with
  | UnionI mn mx => mem v s || in_itv v (mn, mx) = true -> mem v s' = true
  | UnionS t => mem v s || mem v t = true -> mem v s' = true
  | InterI mn mx => mem v s && in_itv v (mn, mx) = true -> mem v s' = true
  | InterS t => mem v s && mem v t = true -> mem v s' = true
  end.
Proof. intros s o s' v. exact (step_union_monotone CAP cap_ok s o s' v). Qed.

(* membership test is exact *)
Theorem C11_contains_iff : forall a v, WF CAP a -> contains CAP a v = Some (mem v a).
Proof. exact (contains_iff CAP cap_ok). Qed.

(* subset test: sound for all well-formed operands, whether or not the fold that computes the
   intersection crossed the capacity and replaced the accumulator by its hull (an interval produced
   by such a hull holds CAP points of pairwise different cells, so it cannot be an interval of a) *)
Theorem C11_is_subset_of_sound : forall a b,
  WF CAP a -> WF CAP b -> is_subset_of CAP a b = Some true ->
  forall v, mem v a = true -> mem v b = true.
Proof. exact (is_subset_of_sound CAP cap_ok). Qed.

(* the number of pieces of an intersection is linear in the number of intervals *)
Theorem C11_pieces_linear : forall src self, wf self -> wf src ->
  (length (pieces self src) <= length self + length src)%nat.
Proof. exact pieces_length_add. Qed.

(* non-vacuity: a concrete history crossing nothing trivial *)
Example C11_history_example :
  run 4 [] [UnionI 1 2; UnionI 5 6; UnionI 9 10; UnionI 20 30; InterI 0 25; UnionS [(3, 3)]]
  = Some [(1, 25)].
Proof. vm_compute. reflexivity. Qed.

Example C11_subset_example :
  WF CAP [(1, 2); (5, 8)] /\ WF CAP [(0, 3); (4, 9)] /\
  (length (xpieces [(1, 2); (5, 8)]%Z [(0, 3); (4, 9)]%Z) < CAP)%nat /\
  is_subset_of CAP [(1, 2); (5, 8)] [(0, 3); (4, 9)] = Some true.
Proof. unfold WF, CAP. vm_compute. repeat split; try lia; try reflexivity; intros H; discriminate H. Qed.

Check C11_history_wf : forall ops s, WF CAP s -> Forall (op_ok CAP) ops ->
  exists s', run CAP s ops = Some s' /\ WF CAP s'.
Check C11_contains_iff : forall a v, WF CAP a -> contains CAP a v = Some (mem v a).

Print Assumptions C11_history_wf.
Print Assumptions C11_union_superset.
Print Assumptions C11_intersection_superset.
Print Assumptions C11_simplify_superset.
Print Assumptions C11_step_sound.
Print Assumptions C11_contains_iff.
Print Assumptions C11_is_subset_of_sound.
Print Assumptions C11_pieces_linear.
