(* C06 — pinned statements: range propagation is sound (integer expression language:
   saturating + - x, least, greatest, the four comparisons, composed over expression trees),
   for every interval-set type within the 128-interval capacity, including types whose
   propagation crosses the capacity. *)
From QV Require Import Intervals.Model Intervals.Proofs Fn.IntExpr Fn.IntExprProofs.
Open Scope Z_scope.

Lemma cap_ok : (1 < CAP)%nat. Proof. unfold CAP. lia. Qed.
Lemma cap_ok2 : (2 < CAP)%nat. Proof. unfold CAP. lia. Qed.

(* the combinator: on a box where the function is monotone in each coordinate, every value lies
   between the smallest and the largest corner value *)
Theorem C06_monotone_box : forall (f : Z -> Z -> Z) a1 a2 b1 b2 x y,
  (forall y0, b1 <= y0 <= b2 -> mono_on (fun x0 => f x0 y0) a1 a2) ->
  (forall x0, a1 <= x0 <= a2 -> mono_on (f x0) b1 b2) ->
  a1 <= x <= a2 -> b1 <= y <= b2 ->
  Z.min (Z.min (f a1 b1) (f a1 b2)) (Z.min (f a2 b1) (f a2 b2)) <= f x y <=
  Z.max (Z.max (f a1 b1) (f a1 b2)) (Z.max (f a2 b1) (f a2 b2)).
Proof. exact box_corners. Qed.

(* one function application *)
Theorem C06_function_sound : forall op SA SB x y, WF CAP SA -> WF CAP SB ->
  mem x SA = true -> mem y SB = true -> in_i64 x -> in_i64 y ->
  exists T, bin_image CAP op SA SB = Some T /\ WF CAP T /\ mem (bin_value op x y) T = true.
Proof. exact (bin_image_sound CAP cap_ok2). Qed.

(* composed expressions: if the expression evaluates to y on a row of the input type, range
   propagation succeeds and the range contains y *)
Theorem C06_expression_sound : forall e env tenv y,
  Forall2 (fun v S => WF CAP S /\ mem v S = true /\ in_i64 v) env tenv -> consts_ok e ->
  eval env e = Some y ->
  exists T, image CAP tenv e = Some T /\ WF CAP T /\ mem y T = true /\ in_i64 y.
Proof. exact (expr_sound CAP cap_ok2). Qed.

(* non-vacuity: (a * b) + (a > b) on a in [-3,4], b in {-2} u [5,6] *)
Example C06_example :
  let tenv := [[(-3, 4)]; [(-2, -2); (5, 6)]] in
  let e := EBin Plus (EBin Mul (EVar 0) (EVar 1)) (EBin Gt (EVar 0) (EVar 1)) in
  image CAP tenv e = Some [(-18, 25)] /\ eval [4; 6] e = Some 24 /\ eval [-3; -2] e = Some 6.
Proof. vm_compute. repeat split. Qed.

Check C06_expression_sound.
Print Assumptions C06_monotone_box.
Print Assumptions C06_function_sound.
Print Assumptions C06_expression_sound.
