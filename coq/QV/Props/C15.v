(* C15 — pinned statements: lookup by exact path or unique agreeing suffix. *)
From QV Require Import Hierarchy.Model Hierarchy.Proofs.

Theorem C15_get_spec : forall (T : Type) (h : list (path * T)) p kv, NoDup (keys h) ->
  (get_key_value h p = Some kv <->
   In kv h /\ (fst kv = p \/
               (~ In p (keys h) /\ agree p (fst kv) /\
                forall kv', In kv' h -> agree p (fst kv') -> kv' = kv))).
Proof. intros T. exact (@get_spec T). Qed.

Theorem C15_exact_wins : forall (T : Type) (h : list (path * T)) p v,
  NoDup (keys h) -> In (p, v) h -> get_key_value h p = Some (p, v).
Proof. intros T. exact (@get_exact T). Qed.

Theorem C15_ambiguous_never_bound : forall (T : Type) (h : list (path * T)) p kv1 kv2,
  ~ In p (keys h) -> In kv1 h -> In kv2 h -> kv1 <> kv2 ->
  agree p (fst kv1) -> agree p (fst kv2) -> get_key_value h p = None.
Proof. intros T. exact (@ambiguous_never_bound T). Qed.

Theorem C15_no_candidate_none : forall (T : Type) (h : list (path * T)) p,
  ~ In p (keys h) -> (forall kv, In kv h -> ~ agree p (fst kv)) -> get_key_value h p = None.
Proof. intros T. exact (@no_candidate_none T). Qed.

Theorem C15_order_irrelevant : forall (T : Type) (h h' : list (path * T)) p,
  NoDup (keys h) -> Permutation h h' -> get_key_value h p = get_key_value h' p.
Proof. intros T. exact (@get_perm T). Qed.

(* the executable suffix test is the relation of the statement *)
Theorem C15_suffix_test_is_agree : forall p k, is_suffix_of p k = true <-> agree p k.
Proof. exact is_suffix_of_agree. Qed.

(* non-vacuity: two columns "a" in joined relations t1, t2; key [q;a;b] matched by a longer path *)
Example C15_example :
  let h := [([1;10], 100); ([2;10], 200); ([2;11], 300)]%N in
  get_key_value h [10]%N = None /\ get_key_value h [11]%N = Some ([2;11], 300)%N /\
  get_key_value h [1;10]%N = Some ([1;10], 100)%N /\ get_key_value h [7;2;11]%N = Some ([2;11], 300)%N.
Proof. vm_compute. repeat split. Qed.

Check C15_get_spec.
Print Assumptions C15_get_spec.
Print Assumptions C15_exact_wins.
Print Assumptions C15_ambiguous_never_bound.
Print Assumptions C15_no_candidate_none.
Print Assumptions C15_order_irrelevant.
Print Assumptions C15_suffix_test_is_agree.
