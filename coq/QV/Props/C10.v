(* C10 — pinned statements: WHERE / ON narrowing never drops a row that satisfies the predicate
   (structs of integer interval-set columns; comparisons between columns, constants and integer
   expressions, equalities, IN lists, AND, OR, constants, unsupported sub-terms). *)
From QV Require Import Intervals.Model Intervals.Proofs Fn.IntExpr Fn.IntExprProofs Expr.Filter Expr.FilterProofs Expr.FilterNull.
Open Scope Z_scope.

Lemma cap_ok2 : (2 < CAP)%nat. Proof. unfold CAP. lia. Qed.

Theorem C10_narrow_sound : forall p env t,
  typed CAP env t -> pred_ok p -> peval env p = true -> typed CAP env (narrow CAP t p).
Proof. intros p. exact (narrow_sound CAP cap_ok2 p). Qed.

(* narrowing never produces an ill-formed column type, whatever the row *)
Theorem C10_narrow_wf : forall p t, wf_tenv CAP t -> pred_ok p -> wf_tenv CAP (narrow CAP t p).
Proof. intros p. exact (narrow_wf CAP cap_ok2 p). Qed.

(* nullable columns: rows may hold NULL, the predicate is TRUE in three-valued logic (a comparison with a NULL
   operand is not true).  The ranges narrowed by the same function still contain every non-null value of a
   row on which the predicate is TRUE, and a column that stops being optional ([nflags]: the columns under a
   comparison, an IN list or a bare boolean use, through AND, and through OR only when both sides agree) does
   not hold NULL on such a row *)
Theorem C10_narrow_sound_nullable : forall p env t,
  typedO CAP env t -> pred_ok p -> pevalO env p = true -> typedO CAP env (narrow CAP t p).
Proof. intros p. exact (narrow_soundO CAP cap_ok2 p). Qed.

Theorem C10_flags_sound : forall p env f,
  flags_ok env f -> pevalO env p = true -> flags_ok env (nflags f p).
Proof. exact nflags_sound. Qed.

(* non-vacuity: a nullable in [0,10], b nullable in [5,20];  a >= 7 OR b = 5 on the row (NULL, 5) *)
Example C10_example_nullable :
  let p := POr (PCmp CGtEq (EVar 0) (EConst 7)) (PCmp CEq (EVar 1) (EConst 5)) in
  pevalO [None; Some 5] p = true /\ narrow CAP [[(0, 10)]; [(5, 20)]] p = [[(0, 10)]; [(5, 20)]] /\
  nflags [true; true] p = [true; true] /\ nflags [true; true] (PAnd p (PCmp CGt (EVar 1) (EVar 0))) = [false; false].
Proof. vm_compute. repeat split. Qed.

(* non-vacuity: a in [0,10], b in [5,20];  a >= b AND b IN (5, 7, 30) OR a = 3 *)
Example C10_example :
  let t := [[(0, 10)]; [(5, 20)]] in
  let p := POr (PAnd (PCmp CGtEq (EVar 0) (EVar 1)) (PInList 1 [5; 7; 30])) (PCmp CEq (EVar 0) (EConst 3)) in
  narrow CAP t p = [[(3, 3); (5, 10)]; [(5, 20)]] /\ peval [8; 7] p = true /\ peval [3; 20] p = true /\ peval [4; 9] p = false.
Proof. vm_compute. repeat split. Qed.

Check C10_narrow_sound.
Print Assumptions C10_narrow_sound.
Print Assumptions C10_narrow_wf.
Print Assumptions C10_narrow_sound_nullable.
Print Assumptions C10_flags_sound.
