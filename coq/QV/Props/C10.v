(* C10 — pinned statements: WHERE / ON narrowing never drops a row that satisfies the predicate
   (structs of integer interval-set columns; comparisons between columns, constants and integer
   expressions, equalities, IN lists, AND, OR, constants, unsupported sub-terms). *)
From QV Require Import Intervals.Model Intervals.Proofs Fn.IntExpr Fn.IntExprProofs Expr.Filter Expr.FilterProofs.
Open Scope Z_scope.

Lemma cap_ok2 : (2 < CAP)%nat. Proof. unfold CAP. lia. Qed.

Theorem C10_narrow_sound : forall p env t,
  typed CAP env t -> pred_ok p -> peval env p = true -> typed CAP env (narrow CAP t p).
Proof. intros p. exact (narrow_sound CAP cap_ok2 p). Qed.

(* narrowing never produces an ill-formed column type, whatever the row *)
Theorem C10_narrow_wf : forall p t, wf_tenv CAP t -> pred_ok p -> wf_tenv CAP (narrow CAP t p).
Proof. intros p. exact (narrow_wf CAP cap_ok2 p). Qed.

(* non-vacuity: a in [0,10], b in [5,20];  a >= b AND b IN (5, 7, 30) OR a = 3 *)
Example C10_example :
  let t := [[(0, 10)]; [(5, 20)]] in
  let p := POr (PAnd (PCmp CGtEq (EVar 0) (EVar 1)) (PInList 1 [5; 7; 30])) (PCmp CEq (EVar 0) (EConst 3)) in
  narrow CAP t p = [[(3, 3); (5, 10)]; [(5, 20)]] /\ peval [8; 7] p = true /\ peval [3; 20] p = true /\ peval [4; 9] p = false.
Proof. vm_compute. repeat split. Qed.

Check C10_narrow_sound.
Print Assumptions C10_narrow_sound.
Print Assumptions C10_narrow_wf.
