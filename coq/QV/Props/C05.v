(* C05 - a tracked row depends only on its own unit's data; pinned statements *)
From QV Require Import Rel.Track Rel.TrackProofs.

(* for every tracked expression whose skeleton is inside the fragment (no LIMIT under tracking,
   tracked joins equate the units, outer joins do not preserve a public side, reduces group by the
   unit), every database and every unit: the rows attributed to u are exactly the rows of the same
   expression on the database restricted to the protected rows of u *)
Theorem C05_tracking_local : forall e, skel_ok (skel_of e) = true ->
  forall db u, restrict u (eval db e) = eval (restrict_db u db) e.
Proof. exact tracking_local. Qed.
Print Assumptions C05_tracking_local.

(* ... and every output row carries a non-null unit *)
Theorem C05_tracking_units : forall e, skel_ok (skel_of e) = true ->
  forall db, (forall n, all_units (db n)) -> all_units (eval db e).
Proof. exact tracking_units. Qed.
Print Assumptions C05_tracking_units.

(* outside the fragment the statement fails: the shapes of the known findings and of the repaired defects *)
Theorem C05_limit_refuted : exists e db u,
  skel_of e = SMap true SSrc /\ restrict u (eval db e) <> eval (restrict_db u db) e.
Proof. exact limit_refuted. Qed.
Print Assumptions C05_limit_refuted.

Theorem C05_outer_public_refuted : exists e db,
  skel_of e = SJoinPub true SSrc /\ (forall n, all_units (db n)) /\ ~ all_units (eval db e).
Proof. exact outer_public_refuted. Qed.
Print Assumptions C05_outer_public_refuted.

Theorem C05_join_without_unit_refuted : exists e db u,
  skel_of e = SJoin false SSrc SSrc /\ restrict u (eval db e) <> eval (restrict_db u db) e.
Proof. exact join_without_unit_refuted. Qed.
Print Assumptions C05_join_without_unit_refuted.

Theorem C05_reduce_without_unit_refuted : exists e db u,
  skel_of e = SReduce false SSrc /\ restrict u (eval db e) <> eval (restrict_db u db) e.
Proof. exact reduce_without_unit_refuted. Qed.
Print Assumptions C05_reduce_without_unit_refuted.
