(* C02 — pinned statements: no un-noised path from protected tables to a result that is
   handed out.  [rule_table] is regenerated from RewritingRulesSetter on every run, so
   [C02_table_ok] is re-proved against what the code says now. *)
From QV Require Import Rules.Model Rules.Search Rules.Safety Generated.RuleTable.

(* every rule the setter can attach satisfies the local condition *)
Theorem C02_table_ok : table_ok rule_table = true.
Proof. vm_compute. reflexivity. Qed.

(* label semantics is inductive: an acceptable label never sits on raw protected data *)
Theorem C02_derivation_clean : forall t d,
  all_rules_ok t = true -> consistent t d -> safe (dout d) = true -> raw t d = false.
Proof. exact derivation_clean. Qed.

(* what rewrite_with_differential_privacy applies *)
Theorem C02_rewrite_dp_clean : forall syn hard t d,
  from_table rule_table syn hard t = true -> rewrite_dp t = Some d -> raw t d = false.
Proof. intros syn hard t d. exact (rewrite_dp_clean rule_table syn hard t d C02_table_ok). Qed.

(* a protected table is never itself public / published / DP *)
Theorem C02_protected_table_never_public : forall syn hard rs r,
  in_table rule_table syn hard (KTable true) rs = true -> In r rs ->
  out r <> Public /\ out r <> Published /\ out r <> DP.
Proof. intros syn hard rs r. exact (protected_table_never_public rule_table syn hard rs r C02_table_ok). Qed.

(* non-vacuity: a published map over a DP reduce over a protected table is clean, and the
   raw predicate is not constantly false *)
Example C02_example :
  let tbl := Node (KTable true) [R [] Private; R [] PUP] [] in
  let rd := Node KReduce [R [Public] Public; R [Published] Published; R [PUP] PUP; R [PUP] DP] [tbl] in
  let mp := Node KMap [R [Public] Public; R [Published] Published; R [DP] Published; R [PUP] PUP] [rd] in
  from_table rule_table false true mp = true /\
  raw mp (D (R [DP] Published) [D (R [PUP] DP) [D (R [] PUP) []]]) = false /\
  raw mp (D (R [PUP] PUP) [D (R [PUP] PUP) [D (R [] PUP) []]]) = true.
Proof. vm_compute. repeat split. Qed.

Check C02_rewrite_dp_clean.
Print Assumptions C02_table_ok.
Print Assumptions C02_derivation_clean.
Print Assumptions C02_rewrite_dp_clean.
Print Assumptions C02_protected_table_never_public.
