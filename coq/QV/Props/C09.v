(* C09 - the DP recombination is exact when noise and clipping are inactive; pinned statements *)
From Coq Require Import QArith.
From QV Require Import DP.Exact DP.ExactProofs.
Open Scope Q_scope.

Theorem C09_avg_exact : forall l, nonnull l <> [] -> dp_avg l == mean (nonnull l).
Proof. exact dp_avg_exact. Qed.
Print Assumptions C09_avg_exact.

Theorem C09_var_exact : forall l, nonnull l <> [] -> dp_var l == variance (nonnull l).
Proof. exact dp_var_exact. Qed.
Print Assumptions C09_var_exact.

Theorem C09_variance_moments : forall l, l <> [] ->
  variance l == qsumsq l / qlen l - (qsum l / qlen l) * (qsum l / qlen l).
Proof. exact variance_moments. Qed.
Print Assumptions C09_variance_moments.

Theorem C09_empty_group : forall l, nonnull l = [] ->
  dp_count l == 0 /\ dp_sum l == 0 /\ dp_avg l == 0 /\ dp_var l == 0.
Proof. exact empty_group. Qed.
Print Assumptions C09_empty_group.

(* DISTINCT aggregates are the DISTINCT aggregates of the data when no value is shared by two units *)
Theorem C09_distinct_exact : forall a rows,
  shared rows = false -> dp_value a true rows = eval_agg a (vdedup (map snd rows)).
Proof. exact dp_distinct_exact. Qed.
Print Assumptions C09_distinct_exact.

(* ... and are not otherwise: known finding C09-distinct-value-shared-by-units *)
Theorem C09_distinct_shared_refuted :
  exists rows, shared rows = true /\ ~ dp_value ACount true rows == eval_agg ACount (vdedup (map snd rows)).
Proof. exact dp_distinct_shared_refuted. Qed.
Print Assumptions C09_distinct_shared_refuted.

(* the recombination before the repair (mean not squared) *)
Theorem C09_var_old_refuted : exists l, nonnull l <> [] /\ ~ dp_var_old l == variance (nonnull l).
Proof. exact dp_var_old_refuted. Qed.
Print Assumptions C09_var_old_refuted.

(* pagination above the aggregation (ORDER BY the keys LIMIT lim OFFSET off): group-wise exactness carries over to windows *)
Theorem C09_window_exact : forall (G R : Type) (dp ex : G -> R) (eqR : R -> R -> Prop) lim off (groups : list G),
  (forall g, In g groups -> eqR (dp g) (ex g)) ->
  Forall2 eqR (window lim off (map dp groups)) (window lim off (map ex groups)).
Proof. exact window_exact. Qed.
Print Assumptions C09_window_exact.
