(* C18 - totality of the modelled core: pinned statements.  In the models None stands for a Rust
   panic.  The whole-pipeline half of the property (parse, relation, render, rewritings never panic
   or loop) has no model: it is decided by the oracle, which runs every stage under catch_unwind in
   watched child processes. *)
From Coq Require Import ZArith List.
From QV Require Import Intervals.Model Intervals.Proofs Fn.IntExpr Fn.IntExprProofs.
Open Scope Z_scope.

(* every history of interval operations with well-ordered bounds runs to the end (no assert fires)
   and keeps the representation invariant, for any capacity above 1 *)
Theorem C18_interval_histories_never_abort : forall cap, (1 < cap)%nat ->
  forall ops s, WF cap s -> Forall (op_ok cap) ops -> exists s', run cap s ops = Some s' /\ WF cap s'.
Proof. exact run_WF. Qed.
Print Assumptions C18_interval_histories_never_abort.

(* the assert of union_interval fires exactly on reversed bounds *)
Theorem C18_union_interval_total : forall cap, (1 < cap)%nat ->
  forall l mn mx, mn <= mx -> exists r, union_interval cap l mn mx = Some r.
Proof. exact union_interval_total. Qed.
Print Assumptions C18_union_interval_total.

Theorem C18_union_interval_aborts : forall cap, (1 < cap)%nat ->
  forall l mn mx, mx < mn -> union_interval cap l mn mx = None.
Proof. exact union_interval_panics. Qed.
Print Assumptions C18_union_interval_aborts.

(* the saturating integer arithmetic of the function images never leaves i64 *)
Theorem C18_saturating_arithmetic : forall cap, (2 < cap)%nat ->
  forall op x y, in_i64 x -> in_i64 y -> in_i64 (bin_value op x y).
Proof. exact bin_value_in_i64. Qed.
Print Assumptions C18_saturating_arithmetic.

(* whenever an integer expression evaluates on a row, its range propagation terminates with a range *)
Theorem C18_range_propagation_total : forall cap, (2 < cap)%nat ->
  forall e env tenv y,
  Forall2 (fun v S => WF cap S /\ mem v S = true /\ in_i64 v) env tenv ->
  consts_ok e -> eval env e = Some y ->
  exists T, image cap tenv e = Some T /\ WF cap T /\ mem y T = true /\ in_i64 y.
Proof. exact expr_sound. Qed.
Print Assumptions C18_range_propagation_total.
