(* C14 — pinned statements: columns declared unique really are unique (propagation through
   projections).  [fn_meta] is regenerated from Function::is_bijection on every run, so
   [C14_no_lossy_bijection] is re-proved against what the code lists now. *)
From QV Require Import Rel.Unique Rel.UniqueProofs Generated.FnMeta Corr.C14.
From Coq Require Import List.
Open Scope string_scope.

(* no function that loses information is treated as value-preserving *)
Theorem C14_no_lossy_bijection :
  forallb (fun m => let '(n, b, _) := m in negb b || negb (lossy n)) fn_meta = true.
Proof. vm_compute. reflexivity. Qed.

(* every function stripped on the way from a projection to its column is one the code lists *)
Theorem C14_chain_listed : forall e, Forall (fun f => is_bij f = true) (chain is_bij e).
Proof. exact (chain_all_bij is_bij). Qed.

(* if each stripped function is injective on the values it meets, distinct column values stay distinct *)
Theorem C14_unique_preserved : forall (V : Type) (interp : string -> V -> V) (fs : list string) (l : list V),
  chain_injective interp fs l -> NoDup l -> NoDup (map (apply_chain interp fs) l).
Proof. intros V interp. exact (chain_unique interp). Qed.

(* the functions that are injective only up to float rounding are still listed (known finding) *)
Theorem C14_rounding_bijections_refuted :
  exists f, is_bij f = true /\ rounding f = true.
Proof. exists "Exp". vm_compute. split; reflexivity. Qed.

(* non-vacuity: md5(cast_as_text(exp(a))) reduces to column a through three listed functions *)
Example C14_example :
  let e := UFun "Md5" [UFun "CastAsText" [UFun "Exp" [UCol 0]]] in
  into_column is_bij e = Some 0%nat /\ chain is_bij e = ["Md5"; "CastAsText"; "Exp"] /\
  into_column is_bij (UFun "CastAsInteger" [UCol 0]) = None.
Proof. vm_compute. repeat split. Qed.

Check C14_unique_preserved.
Print Assumptions C14_no_lossy_bijection.
Print Assumptions C14_chain_listed.
Print Assumptions C14_unique_preserved.
Print Assumptions C14_rounding_bijections_refuted.
