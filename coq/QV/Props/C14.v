(* C14 — pinned statements: columns declared unique really are unique (propagation through
   projections).  [fn_meta] is regenerated from Function::is_bijection on every run, so
   [C14_no_lossy_bijection] is re-proved against what the code lists now. *)
From QV Require Import Rel.Unique Rel.UniqueProofs Generated.FnMeta Corr.C14 Rel.Rows Rel.RowsProofs Rel.Cols Rel.ColsProofs.
From Coq Require Import ZArith.
From Coq Require Import List.
Open Scope string_scope.

(* no function that loses information is treated as value-preserving *)
Theorem C14_no_lossy_bijection :
  forallb (fun m => let '(n, b, _) := m in negb b || negb (lossy n)) fn_meta = true.
Proof. vm_compute. reflexivity. Qed.

(* ... and every function the code lists as a bijection is one of the value-preserving functions of the model *)
Theorem C14_bijections_value_preserving :
  forallb (fun m => let '(n, b, _) := m in negb b || value_preserving n) fn_meta = true.
Proof. vm_compute. reflexivity. Qed.

(* what Expr::reduce_modulo_bijection looks through (probed on every function, regenerated on every run) is
   listed as a bijection, hence not lossy *)
Theorem C14_reduction_strips_listed_bijections_only :
  forallb (fun m => let '(n, s) := m in negb s || is_bij n) fn_strips = true.
Proof. vm_compute. reflexivity. Qed.

(* the functions whose result Map::schema_exprs declares unique on their own (Function::is_unique, regenerated on
   every run) are the per-row generators only: no statement-stable function (clock, PI) is among them *)
Theorem C14_fresh_functions_listed :
  forallb (fun m => let '(n, _, u) := m in negb u || fresh_per_row n) fn_meta = true.
Proof. vm_compute. reflexivity. Qed.

(* every function stripped on the way from a projection to its column is one the code lists *)
Theorem C14_chain_listed : forall e, Forall (fun f => is_bij f = true) (chain is_bij e).
Proof. exact (chain_all_bij is_bij). Qed.

(* if each stripped function is injective on the values it meets, distinct column values stay distinct *)
Theorem C14_unique_preserved : forall (V : Type) (interp : string -> V -> V) (fs : list string) (l : list V),
  chain_injective interp fs l -> NoDup l -> NoDup (map (apply_chain interp fs) l).
Proof. intros V interp. exact (chain_unique interp). Qed.

(* the functions that are injective only up to float rounding are still listed (known finding) *)
Theorem C14_rounding_bijections_refuted :
  exists f, is_bij f = true /\ rounding f = true.
Proof. exists "Exp". vm_compute. split; reflexivity. Qed.

(* joins (Join::schema): a column of the left input with distinct non-null values keeps them distinct in
   the rows of every join kind when each left row has at most one match (the right key is unique), and
   symmetrically; without that hypothesis the flag would be wrong *)
Theorem C14_join_left_unique : forall k P nl nr L R i,
  (forall l, In l L -> length l = nl) -> (i < nl)%nat ->
  (forall l, In l L -> (length (filter (P l) R) <= 1)%nat) ->
  NoDup (colvals i L) -> NoDup (colvals i (join_rows P k nl nr L R)).
Proof. exact join_left_unique. Qed.

Theorem C14_join_right_unique : forall k P nl nr L R j,
  (forall l, In l L -> length l = nl) -> (forall r, In r R -> length r = nr) ->
  (forall r, In r R -> (length (filter (fun l => P l r) L) <= 1)%nat) ->
  NoDup (colvals j R) -> NoDup (colvals (nl + j) (join_rows P k nl nr L R)).
Proof. exact join_right_unique. Qed.

Theorem C14_join_needs_unique_key : exists P L R,
  NoDup (colvals 0 L) /\ ~ NoDup (colvals 0 (join_rows P JInner 1 1 L R)).
Proof. exact join_left_unique_needs_unique_key. Qed.

(* set operations (Set::schema keeps no flag): UNION removes duplicate rows, not duplicate keys *)
Theorem C14_union_unique_refuted : exists L R,
  NoDup (colvals 0 L) /\ NoDup (colvals 0 R) /\ ~ NoDup (colvals 0 (union_rows false L R)).
Proof. exact union_unique_refuted. Qed.

(* grouping (Reduce::schema_aggregate): the single grouping key, and FIRST of a unique input column *)
Theorem C14_group_key_unique : forall l, NoDup (zdedup l).
Proof. exact group_key_unique. Qed.

Theorem C14_first_of_unique_column : forall i (G : list (list (list (option Z)))),
  NoDup (colvals i (concat G)) -> NoDup (colvals i (firsts G)).
Proof. exact first_of_unique_column. Qed.

(* the property on the column-level fragment: the flags are computed by the rules of Map::schema_exprs,
   Join::schema, Set::schema and Reduce::schema_aggregate ([uflags], compared with the flags qrlew declares
   on every generated expression), the rows by the row-level evaluator (compared with SQLite); if the base
   tables honour their constraints, every column flagged unique holds pairwise distinct non-null values *)
Theorem C14_fragment_unique_sound : forall e, wfu e ->
  forall i, nth i (uflags e) false = true -> NoDup (colvals i (rows_c e)).
Proof. exact unique_sound. Qed.

(* non-vacuity: orders joined with users on the users' key keeps the orders' key unique and not the users' *)
Example C14_example_fragment :
  let users := QTable (0, 30) [true; false] [[Some 1; Some 20]; [Some 2; Some 30]] in
  let orders := QTable (0, 60) [true; false] [[Some 10; Some 1]; [Some 11; Some 1]] in
  let e := QJoin JLeft 1 0 (fun _ _ => true) orders users in
  uflags e = [true; false; false; false] /\
  rows_c e = [[Some 10; Some 1; Some 1; Some 20]; [Some 11; Some 1; Some 1; Some 20]].
Proof. vm_compute. split; reflexivity. Qed.

(* non-vacuity: md5(cast_as_text(exp(a))) reduces to column a through three listed functions *)
Example C14_example :
  let e := UFun "Md5" [UFun "CastAsText" [UFun "Exp" [UCol 0]]] in
  into_column is_bij e = Some 0%nat /\ chain is_bij e = ["Md5"; "CastAsText"; "Exp"] /\
  into_column is_bij (UFun "CastAsInteger" [UCol 0]) = None.
Proof. vm_compute. repeat split. Qed.

Check C14_unique_preserved.
Print Assumptions C14_no_lossy_bijection.
Print Assumptions C14_reduction_strips_listed_bijections_only.
Print Assumptions C14_fresh_functions_listed.
Print Assumptions C14_bijections_value_preserving.
Print Assumptions C14_chain_listed.
Print Assumptions C14_unique_preserved.
Print Assumptions C14_rounding_bijections_refuted.
Print Assumptions C14_join_left_unique.
Print Assumptions C14_join_right_unique.
Print Assumptions C14_join_needs_unique_key.
Print Assumptions C14_union_unique_refuted.
Print Assumptions C14_group_key_unique.
Print Assumptions C14_first_of_unique_column.
Print Assumptions C14_fragment_unique_sound.
