(* C12 — pinned statements: conversions are value-preserving injections (numeric core and
   the Optional / List / Struct liftings). *)
From Coq Require Import ZArith List Reals.
From Flocq Require Import Core IEEE754.Binary IEEE754.Bits.
From QV Require Import DataType.Inject DataType.InjectProofs.

(* Integer -> Float: the image [value(min), value(max)] of an interval contains every converted point *)
Theorem C12_int_to_float_image : forall a b, (Z.abs a <= 2 ^ 63)%Z -> (Z.abs b <= 2 ^ 63)%Z -> (a <= b)%Z ->
  (B2R 53 1024 (i2f a) <= B2R 53 1024 (i2f b))%R.
Proof. exact i2f_monotone. Qed.

(* ... it preserves the value and is injective up to 2^53 *)
Theorem C12_int_to_float_exact : forall i, (Z.abs i <= 2 ^ 53)%Z -> B2R 53 1024 (i2f i) = IZR i.
Proof. exact i2f_exact. Qed.

Theorem C12_int_to_float_injective_partial : forall a b,
  (Z.abs a <= 2 ^ 53)%Z -> (Z.abs b <= 2 ^ 53)%Z -> i2f a = i2f b -> a = b.
Proof. exact i2f_injective_small. Qed.

(* ... and is NOT injective beyond (the full statement of the property is false of the
   unchanged code: known finding C12-int-float-above-2p53) *)
Theorem C12_int_to_float_injective_refuted :
  exists a b, a <> b /\ bits_of_b64 (i2f a) = bits_of_b64 (i2f b).
Proof. exact i2f_not_injective_refuted. Qed.

(* Float -> Integer accepts x only if converting back gives x *)
Theorem C12_float_to_int_round_trip : forall x i, f2i x = Some i -> feq (i2f i) x = true.
Proof. exact f2i_round_trip. Qed.

(* Boolean <-> Integer *)
Theorem C12_bool_int_round_trip : forall b, i2b (b2i b) = Some b.
Proof. exact i2b_b2i. Qed.
Theorem C12_int_to_bool_lossy_refused : forall i, (i <> 0 -> i <> 1 -> i2b i = None)%Z.
Proof. exact i2b_lossy_refused. Qed.

(* liftings preserve injectivity and membership *)
Theorem C12_optional_injective : forall (A B : Type) (f : A -> option B), injective f -> injective (opt_lift f).
Proof. intros A B. exact (@opt_lift_injective A B). Qed.
Theorem C12_list_injective : forall (A B : Type) (f : A -> option B), injective f -> injective (list_lift f).
Proof. intros A B. exact (@list_lift_injective A B). Qed.
Theorem C12_struct_injective : forall (A B : Type) (fs : list (A -> option B)),
  Forall injective fs -> injective (struct_lift fs).
Proof. intros A B. exact (@struct_lift_injective A B). Qed.
Theorem C12_list_image : forall (A B : Type) (f : A -> option B) (P : A -> Prop) (Q : B -> Prop),
  (forall a b, P a -> f a = Some b -> Q b) ->
  forall l l', Forall P l -> list_lift f l = Some l' -> Forall Q l'.
Proof. intros A B. exact (@list_lift_image A B). Qed.

Check C12_int_to_float_image.
Print Assumptions C12_int_to_float_image.
Print Assumptions C12_int_to_float_exact.
Print Assumptions C12_int_to_float_injective_partial.
Print Assumptions C12_int_to_float_injective_refuted.
Print Assumptions C12_float_to_int_round_trip.
Print Assumptions C12_bool_int_round_trip.
Print Assumptions C12_int_to_bool_lossy_refused.
Print Assumptions C12_optional_injective.
Print Assumptions C12_list_injective.
Print Assumptions C12_struct_injective.
Print Assumptions C12_list_image.
