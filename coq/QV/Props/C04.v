(* C04 - grouping keys are released only above the tau threshold; pinned statements *)
From Coq Require Import QArith Reals.
From QV Require Import DP.Tau DP.TauProofs DP.TauSens DP.TauCap.

(* a released key is a key of the data whose count of distinct units, taken after the cap that
   leaves every unit in at most cu groups, plus the noise, exceeds tau *)
Theorem C04_released_spec : forall cu rank tau sigma noise l k,
  In k (released cu rank tau sigma noise l) ->
  In k (map snd l) /\
  (tau < inject_Z (count k (cap cu rank (dedup l))) + sigma * noise k)%Q /\
  forall u, (length (groups_of u (cap cu rank (dedup l))) <= cu)%nat.
Proof. exact released_spec. Qed.
Print Assumptions C04_released_spec.

Theorem C04_release_iff : forall tau sigma noise l k,
  In k (release tau sigma noise l) <->
  In k (map snd l) /\ (tau < inject_Z (count k l) + sigma * noise k)%Q.
Proof. exact release_spec. Qed.
Print Assumptions C04_release_iff.

Theorem C04_cap_bound : forall cu rank l u, (length (groups_of u (cap cu rank l)) <= cu)%nat.
Proof. exact cap_bound. Qed.
Print Assumptions C04_cap_bound.

(* a key held by a single privacy unit is never released deterministically *)
Theorem C04_singleton_not_released : forall cu rank tau sigma noise l k,
  (1 <= tau)%Q -> (0 <= sigma)%Q -> (noise k <= 0)%Q -> (count k l <= 1)%Z ->
  ~ In k (released cu rank tau sigma noise l).
Proof. exact singleton_not_released. Qed.
Print Assumptions C04_singleton_not_released.

Theorem C04_tau_ge_one : forall scale quantile : R, (0 <= scale)%R -> (1 <= tau_of scale quantile)%R.
Proof. exact tau_ge_one. Qed.
Print Assumptions C04_tau_ge_one.

(* the threshold formula as it stood before the repair *)
Theorem C04_tau_unclamped_refuted : exists scale quantile : R, (0 <= scale)%R /\ (1 + scale * quantile < 1)%R.
Proof. exact tau_unclamped_refuted. Qed.
Print Assumptions C04_tau_unclamped_refuted.

(* the count the noise is added to has L2 sensitivity sqrt(cu): the rows of a new unit move every
   per-key count by 0 or 1, and only for keys among the at most cu rows the cap leaves to that unit *)
Theorem C04_count_sensitivity : forall cu rank l new u k,
  fresh u l -> of_unit u new ->
  let before := count k (cap cu rank l) in
  let after := count k (cap cu rank (l ++ new)) in
  (0 <= after - before <= 1)%Z /\
  ((after - before = 1)%Z -> In k (map snd (cap cu rank new))).
Proof. exact count_sensitivity. Qed.
Print Assumptions C04_count_sensitivity.

Theorem C04_moved_keys_bound : forall cu rank new u, of_unit u new -> (length (cap cu rank new) <= cu)%nat.
Proof. exact moved_keys_bound. Qed.
Print Assumptions C04_moved_keys_bound.

(* the cap is exact: when the ranks drawn for the rows of a unit are pairwise different, the unit is left in
   exactly min(cu, its number of groups) groups, whatever the ranks are.  The counts the threshold is applied
   to therefore add up to the sum of these numbers over the units: the invariant the harness checks on the
   counting relation of every rewritten query *)
Theorem C04_cap_exact : forall cu rank l u, NoDup (map rank (groups_of u l)) ->
  length (groups_of u (cap cu rank l)) = Nat.min cu (length (groups_of u l)).
Proof. exact cap_exact. Qed.
Print Assumptions C04_cap_exact.

(* non-vacuity: a unit in three groups capped at two keeps the two rows of highest rank *)
Example C04_example_cap :
  let l := [(1, 10); (1, 20); (1, 30); (2, 10)]%Z in
  cap 2 (fun r => snd r) l = [(1, 20); (1, 30); (2, 10)]%Z.
Proof. vm_compute. reflexivity. Qed.

