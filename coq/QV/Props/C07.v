(* C07 — pinned statements.  (1) the declared size interval contains the number of rows of every
   execution, by induction over the relation: Map (LIMIT / OFFSET), Reduce (grouped, or one row without
   GROUP BY even on an empty input), Join (inner / cross / outer, with the rows an outer join preserves),
   set operations; the one hypothesis left, join_ok, excludes outer joins whose unique flag sits on a
   preserved side, for which (2) Join::size is NOT sound (refuted, known finding: the repository's own
   test pins max(left, right) for them);
   (3) the schema of a Map: every projected value of a row that passes the filter lies in the type
   the Map declares for it (integer columns; from the C10 and C06 theorems). *)
From QV Require Import Intervals.Model Intervals.Proofs Fn.IntExpr Fn.IntExprProofs Expr.Filter Expr.FilterProofs.
From QV Require Import Rel.Size Rel.SizeProofs Rel.Rows Rel.RowsProofs Rel.Eval Rel.EvalProofs Rel.Cols Rel.ColsProofs.
Open Scope Z_scope.

Theorem C07_size_sound_partial : forall e m,
  sizes_ok e = true -> join_ok e = true ->
  card e m -> fst (size_of (skeleton e)) <= m <= snd (size_of (skeleton e)).
Proof. exact size_sound. Qed.

(* without unique flags there is no hypothesis on the shape at all *)
Theorem C07_size_sound_no_unique_flag : forall e m,
  sizes_ok e = true -> no_flags e = true ->
  card e m -> fst (size_of (skeleton e)) <= m <= snd (size_of (skeleton e)).
Proof. exact size_sound_no_flags. Qed.

Theorem C07_join_size_outer_refuted : exists e m,
  sizes_ok e = true /\ card e m /\ snd (size_of (skeleton e)) < m.
Proof. exact join_size_outer_refuted. Qed.

(* (4) joins at row level (Rel/Rows.v): the bag a join of each kind returns has a number of rows that
   meets the premises of [card] — the abstract cardinality semantics is derived, for joins, from rows:
   a unique flag on the right (left) key is read as "every left (right) row has at most one match" *)
Theorem C07_join_rows_card : forall k (ul ur : bool) el er P nl nr L R,
  card el (Z.of_nat (length L)) -> card er (Z.of_nat (length R)) ->
  (ur = true -> forall l, In l L -> (length (filter (P l) R) <= 1)%nat) ->
  (ul = true -> forall r, In r R -> (length (filter (fun l => P l r) L) <= 1)%nat) ->
  Z.of_nat (length (join_rows P k nl nr L R)) <= i64_max ->
  card (EJoin k ul ur el er) (Z.of_nat (length (join_rows P k nl nr L R))).
Proof. exact join_rows_card. Qed.

(* (5) Join::schema: every row a join returns lies in the schema it declares — the padded side of an
   outer join optional, the side narrowed by the ON condition narrowed (the narrowing itself is sound by
   the C10 theorem; here it is the hypothesis on fl / fr) *)
Theorem C07_join_rows_typed : forall k P sl sr fl fr L R,
  Forall (fun l => row_in l sl = true) L -> Forall (fun r => row_in r sr = true) R ->
  (forall l r, In l L -> In r R -> P l r = true -> row_in l fl = true /\ row_in r fr = true) ->
  length fl = length sl -> length fr = length sr ->
  Forall (fun x => row_in x (join_schema k sl sr fl fr) = true) (join_rows P k (length sl) (length sr) L R).
Proof. exact join_rows_typed. Qed.

(* non-vacuity: users LEFT JOIN orders on the key; one user without order is padded with NULLs *)
Example C07_example_rows :
  let P := fun l r : list (option Z) => match nth 0 l None, nth 0 r None with Some a, Some b => a =? b | _, _ => false end in
  let L := [[Some 1; Some 20]; [Some 2; Some 30]] in let R := [[Some 1; Some 7]; [Some 1; Some 8]] in
  join_rows P JLeft 2 2 L R = [[Some 1; Some 20; Some 1; Some 7]; [Some 1; Some 20; Some 1; Some 8]; [Some 2; Some 30; None; None]].
Proof. vm_compute. reflexivity. Qed.

(* (6) the size half of the property on executions: a row-level evaluator of relational expressions over
   concrete conforming tables (filters and projections as arbitrary functions, LIMIT / OFFSET windows,
   grouping, the five join kinds with NULL padding, UNION / EXCEPT / INTERSECT with and without ALL)
   returns a number of rows inside the declared size interval; [wf] says: tables conform to their sizes,
   windows are non-negative, a unique flag means at most one match, counts fit in an i64 *)
Theorem C07_eval_size_sound : forall e, wf e -> sizes_ok (erase e) = true -> join_ok (erase e) = true ->
  fst (size_of (skeleton (erase e))) <= Z.of_nat (length (rows_of e)) <= snd (size_of (skeleton (erase e))).
Proof. exact eval_size_sound. Qed.

(* (7) on the column-level fragment (arbitrary filters, column selections, windows, equi-joins of the five
   kinds with any further condition, single-key grouping, COUNT, set operations) the hypotheses are on the
   base data only: tables conform to their sizes and honour their unique constraints ([wfu], [wfs]); that a
   flagged join key gives at most one match is proved, not assumed.  This is the fragment the harness
   writes from the same tree as the SQL it executes on SQLite (Corr/Eval.v) *)
Theorem C07_fragment_size_sound : forall e, wfu e -> wfs e ->
  sizes_ok (erase (to_rexp e)) = true -> join_ok (erase (to_rexp e)) = true ->
  fst (size_of (skeleton (erase (to_rexp e)))) <= Z.of_nat (length (rows_c e)) <= snd (size_of (skeleton (erase (to_rexp e)))).
Proof. exact cexp_size_sound. Qed.

(* non-vacuity: (users LEFT JOIN orders ON the key) LIMIT 2, then COUNT without GROUP BY *)
Example C07_example_eval :
  let P := fun l r : list (option Z) => match nth 0 l None, nth 0 r None with Some a, Some b => a =? b | _, _ => false end in
  let users := XTable (0, 30) [[Some 1; Some 20]; [Some 2; Some 30]] in
  let orders := XTable (0, 60) [[Some 1; Some 7]; [Some 1; Some 8]] in
  let e := XReduce None (fun rows => [Some (Z.of_nat (length rows))])
             (XMap (fun _ => true) (fun r => r) (Some 2) None (XJoin JLeft false false P 2 2 users orders)) in
  rows_of e = [[Some 2]] /\ size_of (skeleton (erase e)) = (0, 2) /\ sizes_ok (erase e) = true /\ join_ok (erase e) = true.
Proof. vm_compute. repeat split. Qed.

Lemma cap_ok2 : (2 < CAP)%nat. Proof. unfold CAP. lia. Qed.

(* Map::schema_exprs: the type of a projected column is the range of its expression over the input
   type narrowed by the filter *)
Definition map_column_type (t : tenv) (flt : pred) (e : expr) : option (list (Z * Z)) :=
  image CAP (narrow CAP t flt) e.

Theorem C07_map_row_typed : forall t flt e env y,
  typed CAP env t -> pred_ok flt -> consts_ok e -> peval env flt = true -> eval env e = Some y ->
  exists T, map_column_type t flt e = Some T /\ mem y T = true.
Proof.
  intros t flt e env y Ht Hf He Hp Hy.
  pose proof (narrow_sound CAP cap_ok2 flt env t Ht Hf Hp) as Ht'.
  destruct (expr_sound CAP cap_ok2 e env (narrow CAP t flt) y Ht' He Hy) as (T & ET & _ & MT & _).
  exists T. split; assumption.
Qed.

(* non-vacuity: orders LEFT JOIN users (unique key on the right side) limited to 10 rows *)
Example C07_example :
  let e := EMap (Some 10) (Some 2) (EJoin JLeft false true (ETable (0, 60)) (ETable (0, 30))) in
  sizes_ok e = true /\ join_ok e = true /\ size_of (skeleton e) = (0, 10).
Proof. vm_compute. repeat split. Qed.

(* an aggregation without GROUP BY over an input declared empty, FULL JOINed with a one-row relation *)
Example C07_example_degenerate :
  let e := EJoin JFull false false (EReduce false (EMap (Some 0) None (ETable (0, 30)))) (EMap (Some 1) None (ETable (0, 60))) in
  sizes_ok e = true /\ no_flags e = true /\ size_of (skeleton e) = (0, 2) /\ card e 2.
Proof.
  cbn zeta. split; [reflexivity|]. split; [reflexivity|]. split; [reflexivity|].
  apply (CJoin JFull false false _ _ 1 1 2).
  - apply (CReduceU _ 0). apply (CMap (Some 0) None _ 0 0); [constructor; cbn; lia|lia|cbn; lia|intros x Hx; injection Hx as <-; lia].
  - apply (CMap (Some 1) None _ 1 1); [constructor; cbn; lia|lia|cbn; lia|intros x Hx; injection Hx as <-; lia].
  - lia.
  - unfold i64_max. lia.
  - exists 0, 1, 1. repeat split; try lia; intros; discriminate.
Qed.

Check C07_size_sound_partial.
Print Assumptions C07_size_sound_partial.
Print Assumptions C07_size_sound_no_unique_flag.
Print Assumptions C07_join_size_outer_refuted.
Print Assumptions C07_map_row_typed.
Print Assumptions C07_join_rows_card.
Print Assumptions C07_join_rows_typed.
Print Assumptions C07_eval_size_sound.
Print Assumptions C07_fragment_size_sound.
