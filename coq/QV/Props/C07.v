(* C07 — pinned statements.  (1) the declared size interval contains the number of rows of every
   execution, by induction over the relation, on the shapes for which Join::size is sound;
   (2) Join::size is NOT sound for outer joins carrying a unique flag (refuted, known finding);
   (3) the schema of a Map: every projected value of a row that passes the filter lies in the type
   the Map declares for it (integer columns; from the C10 and C06 theorems). *)
From QV Require Import Intervals.Model Intervals.Proofs Fn.IntExpr Fn.IntExprProofs Expr.Filter Expr.FilterProofs.
From QV Require Import Rel.Size Rel.SizeProofs.
Open Scope Z_scope.

Theorem C07_size_sound_partial : forall e m,
  sizes_ok e = true -> join_ok e = true -> reduce_ok e = true ->
  card e m -> fst (size_of (skeleton e)) <= m <= snd (size_of (skeleton e)).
Proof. exact size_sound. Qed.

Theorem C07_join_size_outer_refuted : exists e m,
  sizes_ok e = true /\ reduce_ok e = true /\ card e m /\ snd (size_of (skeleton e)) < m.
Proof. exact join_size_outer_refuted. Qed.

Lemma cap_ok2 : (2 < CAP)%nat. Proof. unfold CAP. lia. Qed.

(* Map::schema_exprs: the type of a projected column is the range of its expression over the input
   type narrowed by the filter *)
Definition map_column_type (t : tenv) (flt : pred) (e : expr) : option (list (Z * Z)) :=
  image CAP (narrow CAP t flt) e.

Theorem C07_map_row_typed : forall t flt e env y,
  typed CAP env t -> pred_ok flt -> consts_ok e -> peval env flt = true -> eval env e = Some y ->
  exists T, map_column_type t flt e = Some T /\ mem y T = true.
Proof.
  intros t flt e env y Ht Hf He Hp Hy.
  pose proof (narrow_sound CAP cap_ok2 flt env t Ht Hf Hp) as Ht'.
  destruct (expr_sound CAP cap_ok2 e env (narrow CAP t flt) y Ht' He Hy) as (T & ET & _ & MT & _).
  exists T. split; assumption.
Qed.

(* non-vacuity: orders LEFT JOIN users (unique key on the right side) limited to 10 rows *)
Example C07_example :
  let e := EMap (Some 10) (Some 2) (EJoin JLeft false true (ETable (0, 60)) (ETable (0, 30))) in
  sizes_ok e = true /\ join_ok e = true /\ reduce_ok e = true /\ size_of (skeleton e) = (0, 10).
Proof. vm_compute. repeat split. Qed.

Check C07_size_sound_partial.
Print Assumptions C07_size_sound_partial.
Print Assumptions C07_join_size_outer_refuted.
Print Assumptions C07_map_row_typed.
