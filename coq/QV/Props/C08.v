(* C08 — pinned statements for the quoting kernel: how identifiers and string literals are
   written (sqlparser's EscapeQuotedString, used by every translator) and read back.  The
   end-to-end half of the property (parse -> relation -> render preserves results) has no model:
   it is decided by executing original and rendered SQL on SQLite. *)
From QV Require Import Sql.Quote Sql.QuoteProofs Sql.Parens Sql.ParensProofs Generated.Parens.
From Coq Require Import String.
Open Scope N_scope.

(* values without a delimiter right after a backslash or after another delimiter survive *)
Theorem C08_quote_roundtrip_partial : forall q s, q <> backslash -> q <> 0 -> clean q 0 s = true ->
  unquote q (quote q s) = Some s.
Proof. exact quote_roundtrip_partial. Qed.

(* the unrestricted statement is false of the faithful model: known finding C08-quote-heuristic *)
Theorem C08_quote_roundtrip_refuted : exists q s, unquote q (quote q s) <> Some s.
Proof. exact quote_roundtrip_refuted. Qed.

Open Scope nat_scope.
(* how expressions are written.  [parens] is regenerated on every run from the translator: each function of
   the expression language written with compound arguments; no argument is left bare next to an operator
   (0: between parentheses or the commas of a call, 1: between keywords of CASE / CAST / EXTRACT / SUBSTRING /
   POSITION) *)
Theorem C08_operands_delimited :
  forallb (fun row => let '(_, _, _, classes) := row in forallb (fun c => Nat.ltb c 2) classes) parens = true.
Proof. vm_compute. reflexivity. Qed.

(* a text in which every operand of an infix, prefix or postfix operator stands between parentheses is read
   back, by a precedence-climbing parser, to the tree it was written from, whatever the binding powers of the
   operators are (so in every dialect) *)
Theorem C08_parenthesised_roundtrip : forall (bl br bpre bpost : nat -> nat) e,
  parse bl br bpre bpost (need e) 0 (pr e) = Some (e, nil).
Proof. exact roundtrip. Qed.

(* and not without them: (a) OR (b) IS NULL is read as a OR (b IS NULL); this was the defect repaired by the
   fix: commits on IS NULL, IN, LIKE *)
Theorem C08_postfix_operand_needs_parentheses : exists bl br bpre bpost e fuel e',
  parse bl br bpre bpost fuel 0 (pr_bad e) = Some (e', nil) /\ e' <> e.
Proof. exact postfix_operand_needs_parentheses. Qed.

(* non-vacuity: NOT ((a) OR ((b) IS NULL)) *)
Example C08_example_parens :
  let e := PPre 0 (PBin 1 (PAtom 1) (PPost 2 (PAtom 2))) in
  parse (fun _ => 3) (fun _ => 4) (fun _ => 9) (fun _ => 1) (need e) 0 (pr e) = Some (e, nil) /\ List.length (pr e) = 13.
Proof. vm_compute. split; reflexivity. Qed.
Close Scope nat_scope.

Check C08_quote_roundtrip_partial.
Print Assumptions C08_quote_roundtrip_partial.
Print Assumptions C08_quote_roundtrip_refuted.
Print Assumptions C08_operands_delimited.
Print Assumptions C08_parenthesised_roundtrip.
Print Assumptions C08_postfix_operand_needs_parentheses.
