(* C08 — pinned statements for the quoting kernel: how identifiers and string literals are
   written (sqlparser's EscapeQuotedString, used by every translator) and read back.  The
   end-to-end half of the property (parse -> relation -> render preserves results) has no model:
   it is decided by executing original and rendered SQL on SQLite. *)
From QV Require Import Sql.Quote Sql.QuoteProofs.
Open Scope N_scope.

(* values without a delimiter right after a backslash or after another delimiter survive *)
Theorem C08_quote_roundtrip_partial : forall q s, q <> backslash -> q <> 0 -> clean q 0 s = true ->
  unquote q (quote q s) = Some s.
Proof. exact quote_roundtrip_partial. Qed.

(* the unrestricted statement is false of the faithful model: known finding C08-quote-heuristic *)
Theorem C08_quote_roundtrip_refuted : exists q s, unquote q (quote q s) <> Some s.
Proof. exact quote_roundtrip_refuted. Qed.

Check C08_quote_roundtrip_partial.
Print Assumptions C08_quote_roundtrip_partial.
Print Assumptions C08_quote_roundtrip_refuted.
