(* C03 — pinned statements: privacy loss is never under-reported; each DP aggregation fits
   its budget.  Stated over the reals; the calibration sigma / C = sqrt(2 ln(1.25/delta)) / eps being
   (eps, delta)-DP for eps < 1 is the classical theorem (Dwork-Roth A.1), cited, not proved. *)
From Coq Require Import Reals List Lra.
From QV Require Import DP.Budget DP.BudgetProofs.
Open Scope R_scope.

(* the recorded noise multiplier is never larger than the sigma / C applied *)
Theorem C03_recorded_le_applied : forall eps del s th groups m,
  params_ok eps del s -> (th = true -> s < 1) ->
  In m (planR eps del s th groups) -> nm (r_eps m) (r_del m) <= nm (m_eps m) (m_del m).
Proof. exact recorded_le_applied. Qed.

(* all the mechanisms of one DP aggregation, by basic composition, fit in (eps, delta) *)
Theorem C03_budget_fits : forall eps del s th groups, params_ok eps del s ->
  let ms := planR eps del s th groups in
  let t := if th then threshold_budgetR eps del s else (0, 0) in
  sum_eps ms + fst t <= eps /\ sum_del ms + snd t <= del.
Proof. exact budget_fits. Qed.

(* composing events drops nothing but no-ops, whatever the number type *)
Theorem C03_compose_keeps : forall (T : Type) (tzero : T -> bool) (a b : event T),
  leaves T tzero (compose T tzero a b) = (leaves T tzero a ++ leaves T tzero b)%list.
Proof. exact compose_keeps. Qed.

Theorem C03_from_iter_keeps : forall (T : Type) (tzero : T -> bool) (l : list (event T)),
  leaves T tzero (from_iter T tzero l) = flat_map (leaves T tzero) l.
Proof. exact from_iter_keeps. Qed.

(* non-vacuity *)
Example C03_params_example : params_ok 1 (1 / 1000) (1 / 2).
Proof. unfold params_ok. repeat split; lra. Qed.

Example C03_plan_example :
  length (planR 1 (1 / 1000) (1 / 2) true (2 :: 3 :: nil)%nat) = 5%nat.
Proof. reflexivity. Qed.

Check C03_budget_fits.
Print Assumptions C03_recorded_le_applied.
Print Assumptions C03_budget_fits.
Print Assumptions C03_compose_keeps.
Print Assumptions C03_from_iter_keeps.
