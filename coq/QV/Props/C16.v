(* C16 - compilation is deterministic; pinned statements about the naming state machine *)
From QV Require Import Namer.Model Namer.Proofs.

(* a compilation whose every generated name is derived from content gets the same names under
   every schedule: any interleaving with other compilations, threads, counter requests and resets,
   from any initial state of the process-wide counter *)
Theorem C16_content_names_schedule_independent : forall rs,
  forallb is_content (mine rs) = true -> forall s, run_tagged s rs = run [] (mine rs).
Proof. exact content_names_schedule_independent. Qed.
Print Assumptions C16_content_names_schedule_independent.

Theorem C16_two_schedules : forall rs1 rs2 s1 s2,
  mine rs1 = mine rs2 -> forallb is_content (mine rs1) = true -> run_tagged s1 rs1 = run_tagged s2 rs2.
Proof. exact two_schedules. Qed.
Print Assumptions C16_two_schedules.

(* a name or id taken from the counter depends on the history (known finding: random()) *)
Theorem C16_counter_names_refuted : exists p s1 s2, snd (step s1 (RNew p)) <> snd (step s2 (RNew p)).
Proof. exact counter_names_refuted. Qed.
Print Assumptions C16_counter_names_refuted.

Theorem C16_counter_ids_refuted : exists p s, snd (step s (RId p)) <> snd (step (fst (step s (RId p))) (RId p)).
Proof. exact counter_ids_refuted. Qed.
Print Assumptions C16_counter_ids_refuted.

Theorem C16_encode_length : forall len x, String.length (encode len x) = len.
Proof. exact encode_length. Qed.
Print Assumptions C16_encode_length.

Theorem C16_encode_mod : forall len x, encode len x = encode len (x mod 37 ^ N.of_nat len)%N.
Proof. exact encode_mod. Qed.
Print Assumptions C16_encode_mod.
