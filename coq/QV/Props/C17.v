(* C17 - dialect translation: pinned statements for the identifier quoting of the eight translators
   (table generated from the code on every run).  The acceptance of the translated text by the
   dialect parsers, the read-back schema and the SQLite results have no model: they are decided by
   the oracle on the implementation. *)
From Coq Require Import String List NArith.
From QV Require Import Sql.Quote Sql.QuoteProofs Generated.Dialects Sql.Dialects.
Open Scope N_scope.

Theorem C17_dialects_table_ok : dialects_ok = true.
Proof. exact dialects_table_ok. Qed.
Print Assumptions C17_dialects_table_ok.

Theorem C17_identifiers_survive : forall name q reads s,
  In (name, q, reads) dialects -> plain q s = true -> reads = true /\ unquote q (quote q s) = Some s.
Proof. exact (dialect_identifiers_survive dialects_table_ok). Qed.
Print Assumptions C17_identifiers_survive.

Theorem C17_identifiers_with_delimiter : forall name q reads s,
  In (name, q, reads) dialects -> clean q 0 s = true -> unquote q (quote q s) = Some s.
Proof. exact (dialect_identifiers_with_delimiter dialects_table_ok). Qed.
Print Assumptions C17_identifiers_with_delimiter.

(* names with a delimiter right after a backslash or another delimiter do not: the finding of C08 *)
Theorem C17_quote_roundtrip_refuted : exists q s, unquote q (quote q s) <> Some s.
Proof. exact quote_roundtrip_refuted. Qed.
Print Assumptions C17_quote_roundtrip_refuted.
