(* C13 — pinned statements: the rewriting search is complete, well-typed, best-scoring. *)
From QV Require Import Rules.Model Rules.Search.

(* the enumeration (after elimination) returns exactly the consistent rule assignments *)
Theorem C13_select_exact : forall t d, In d (select (eliminate t)) <-> consistent t d.
Proof. exact select_eliminate_spec. Qed.

(* a rewriting is returned exactly when a consistent assignment with an acceptable root exists;
   otherwise the property is reported unreachable (None) *)
Theorem C13_rewrite_some_iff : forall w acc t,
  (exists d, best w acc t = Some d) <-> (exists d, consistent t d /\ acc (dout d) = true).
Proof. exact best_some_iff. Qed.

Theorem C13_unreachable_iff : forall w acc t,
  best w acc t = None <-> (forall d, consistent t d -> acc (dout d) = false).
Proof. exact best_none_iff. Qed.

(* the derivation applied is well-typed ... *)
Theorem C13_applied_consistent : forall w acc t d,
  best w acc t = Some d -> consistent t d /\ acc (dout d) = true.
Proof. exact best_sound. Qed.

(* ... and no other acceptable consistent derivation scores strictly higher, whatever the weights *)
Theorem C13_best_optimal : forall w acc t d d',
  best w acc t = Some d -> consistent t d' -> acc (dout d') = true -> (score w d' <= score w d)%Z.
Proof. exact best_optimal. Qed.

(* non-vacuity: SELECT sum(x) FROM protected, with synthetic data *)
Example C13_example :
  let tbl := Node (KTable true) [R [] Private; R [] PUP; R [] SD] [] in
  let mp := Node KMap [R [Public] Public; R [Published] Published; R [DP] Published; R [PUP] PUP; R [SD] SD] [tbl] in
  let rd := Node KReduce [R [Public] Public; R [Published] Published; R [SD] SD; R [PUP] PUP; R [PUP] DP] [mp] in
  length (select (eliminate rd)) = 3%nat /\
  rewrite_dp rd = Some (D (R [PUP] DP) [D (R [PUP] PUP) [D (R [] PUP) []]]) /\
  rewrite_pup rd = Some (D (R [PUP] PUP) [D (R [PUP] PUP) [D (R [] PUP) []]]).
Proof. vm_compute. repeat split. Qed.

Check C13_select_exact.
Print Assumptions C13_select_exact.
Print Assumptions C13_rewrite_some_iff.
Print Assumptions C13_unreachable_iff.
Print Assumptions C13_applied_consistent.
Print Assumptions C13_best_optimal.
