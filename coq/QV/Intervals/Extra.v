(* A linear bound on the number of pieces of an intersection: |pieces self src| <= |self| + |src|,
   which makes the side condition of the subset theorems hold whenever |a| + |b| < cap. *)
From QV Require Import Intervals.Model Intervals.Proofs.
From Coq Require Import ZifyBool.
Open Scope Z_scope.

Fixpoint drop_le (x : Z) (l : ivs) : ivs :=
  match l with
  | [] => []
  | (a, b) :: t => if b <=? x then drop_le x t else l
  end.

Lemma drop_le_length x l : (length (drop_le x l) <= length l)%nat.
Proof. induction l as [|[a b] t IH]; cbn [drop_le length]; [lia|]. destruct (b <=? x); cbn [length]; lia. Qed.

Lemma drop_le_wf x l : wf l -> wf (drop_le x l).
Proof.
  induction l as [|[a b] t IH]; intros H; cbn [drop_le]; [exact I|].
  destruct (b <=? x); [apply IH; cbn in H; tauto|exact H].
Qed.

(* intervals ending at or below x do not meet a window starting above x *)
Lemma inter_drop_le x l : forall mn mx, x < mn -> inter l mn mx = inter (drop_le x l) mn mx.
Proof.
  induction l as [|[a b] t IH]; intros mn mx Hx; cbn [drop_le inter]; [reflexivity|].
  destruct (b <=? x) eqn:E.
  - assert (Hb : (b <? mn) = true) by lia. rewrite Hb. apply IH, Hx.
  - reflexivity.
Qed.

Lemma pieces_drop_le x l src : wf src -> lo_gt x src -> pieces l src = pieces (drop_le x l) src.
Proof.
  revert x. induction src as [|[mn mx] t IH]; intros x Hw Hl; cbn [pieces]; [reflexivity|].
  cbn [lo_gt] in Hl. cbn [wf] in Hw. destruct Hw as (Hle & Hlt & Hw).
  rewrite (inter_drop_le x l mn mx Hl). f_equal.
  apply IH; [exact Hw|]. apply (lo_gt_trans x mx); [lia|exact Hlt].
Qed.

Lemma inter_above l : forall mn mx b, wf l -> lo_gt b l -> mx < b -> mn <= mx -> inter l mn mx = [].
Proof.
  intros mn mx b Hw Hl Hb Hle. destruct l as [|[a' b'] t]; [reflexivity|].
  cbn [lo_gt] in Hl. cbn [wf] in Hw. cbn [inter].
  assert (E1 : (b' <? mn) = false) by lia. rewrite E1.
  assert (E2 : (mx <? a') = true) by lia. rewrite E2. reflexivity.
Qed.

Lemma inter_drop_count l : forall mn mx, wf l -> mn <= mx ->
  (length (inter l mn mx) + length (drop_le mx l) <= length l + 1)%nat.
Proof.
  induction l as [|[a b] t IH]; intros mn mx Hw Hle; cbn [inter drop_le length]; [lia|].
  cbn [wf] in Hw. destruct Hw as (Hab & Hlt & Hw).
  destruct (b <? mn) eqn:E1.
  - assert (E : (b <=? mx) = true) by lia. rewrite E. specialize (IH mn mx Hw Hle). lia.
  - destruct (mx <? a) eqn:E2.
    + assert (E : (b <=? mx) = false) by lia. rewrite E. cbn [length]. lia.
    + cbn [length]. destruct (b <=? mx) eqn:E3.
      * specialize (IH mn mx Hw Hle). lia.
      * rewrite (inter_above t mn mx b Hw Hlt ltac:(lia) Hle). cbn [length]. lia.
Qed.

Theorem pieces_length_add src : forall self, wf self -> wf src ->
  (length (pieces self src) <= length self + length src)%nat.
Proof.
  induction src as [|[mn mx] t IH]; intros self Hs Hw; cbn [pieces length]; [lia|].
  cbn [wf] in Hw. destruct Hw as (Hle & Hlt & Hw).
  rewrite app_length. rewrite (pieces_drop_le mx self t Hw Hlt).
  pose proof (IH (drop_le mx self) (drop_le_wf mx self Hs) Hw) as H1.
  pose proof (inter_drop_count self mn mx Hs Hle) as H2. lia.
Qed.

Section Add.
Variable cap : nat.
Hypothesis cap_gt1 : (1 < cap)%nat.

Lemma xpieces_length_add a b : wf a -> wf b -> (length (xpieces a b) <= length a + length b)%nat.
Proof.
  intros Ha Hb. unfold xpieces. destruct (length b <=? length a)%nat.
  - apply pieces_length_add; assumption.
  - rewrite Nat.add_comm. apply pieces_length_add; assumption.
Qed.

(* the subset test is sound, and its negative answer means a real difference, whenever the two
   operands have fewer than cap intervals together *)
Theorem is_subset_of_sound_additive a b :
  WF cap a -> WF cap b -> (length a + length b < cap)%nat ->
  is_subset_of cap a b = Some true -> forall v, mem v a = true -> mem v b = true.
Proof.
  intros Ha Hb Hl. apply (is_subset_of_sound_partial cap cap_gt1 a b Ha Hb).
  pose proof (xpieces_length_add a b (proj1 Ha) (proj1 Hb)). lia.
Qed.

End Add.
