(* Model of src/data_type/intervals.rs: Intervals<B> over an ordered bound type.

   Bounds are Z.  i64 bounds are themselves; f64 bounds (NaN excluded: the code
   asserts on it) are mapped by the harness through the order embedding of their
   bit patterns; the operations only compare and copy bounds, so the embedding
   commutes with every operation modelled here.

   [None] stands for a Rust panic (the assert!(min <= max) of union_interval /
   intersection_interval). *)
From Coq Require Export List ZArith Bool Lia.
Export ListNotations.
Open Scope Z_scope.

Notation itv := (Z * Z)%type (only parsing).
Notation ivs := (list (Z * Z)) (only parsing).

Definition in_itv (v : Z) (i : itv) : bool := (fst i <=? v) && (v <=? snd i).
Definition mem (v : Z) (l : ivs) : bool := existsb (in_itv v) l.

(* into_interval: [min of first, max of last] *)
Definition hull (l : ivs) : ivs :=
  match l with
  | [] => []
  | (a, b) :: t => [(a, snd (last t (a, b)))]
  end.

(* to_simple_superset *)
Definition simplify (cap : nat) (l : ivs) : ivs :=
  if (length l <? cap)%nat then l else hull l.

(* union_interval without the final simplification.  The code computes
   min_index / max_index with two [position] scans, widens [mn,mx] with the first
   and last overlapped interval, drains the overlapped range and inserts; on a
   sorted disjoint list this is the following recursion (overlap is tested with
   <=, so touching intervals merge and adjacent integers do not). *)
Fixpoint uni (l : ivs) (mn mx : Z) : ivs :=
  match l with
  | [] => [(mn, mx)]
  | (a, b) :: t =>
      if b <? mn then (a, b) :: uni t mn mx
      else if mx <? a then (mn, mx) :: (a, b) :: t
      else uni t (Z.min a mn) (Z.max b mx)
  end.

Definition union_interval (cap : nat) (l : ivs) (mn mx : Z) : option ivs :=
  if mn <=? mx then Some (simplify cap (uni l mn mx)) else None.

Fixpoint inter (l : ivs) (mn mx : Z) : ivs :=
  match l with
  | [] => []
  | (a, b) :: t =>
      if b <? mn then inter t mn mx
      else if mx <? a then []
      else (Z.max a mn, Z.min b mx) :: inter t mn mx
  end.

Definition intersection_interval (cap : nat) (l : ivs) (mn mx : Z) : option ivs :=
  if mn <=? mx then Some (simplify cap (inter l mn mx)) else None.

Definition obind {A B} (x : option A) (f : A -> option B) : option B :=
  match x with Some a => f a | None => None end.

(* fold of union_interval over the intervals of [src] into [acc] *)
Fixpoint union_into (cap : nat) (acc : ivs) (src : ivs) : option ivs :=
  match src with
  | [] => Some acc
  | (mn, mx) :: t => obind (union_interval cap acc mn mx) (fun acc' => union_into cap acc' t)
  end.

(* Intervals::union: the operand with fewer intervals is folded into the other *)
Definition union (cap : nat) (a b : ivs) : option ivs :=
  if (length b <=? length a)%nat then union_into cap a b else union_into cap b a.

(* fold of result.union(self.intersection_interval(min,max)) over [src] *)
Fixpoint inter_into (cap : nat) (self : ivs) (acc : ivs) (src : ivs) : option ivs :=
  match src with
  | [] => Some acc
  | (mn, mx) :: t =>
      obind (intersection_interval cap self mn mx) (fun piece =>
      obind (union cap acc piece) (fun acc' => inter_into cap self acc' t))
  end.

Definition intersection (cap : nat) (a b : ivs) : option ivs :=
  if (length b <=? length a)%nat then inter_into cap a [] b else inter_into cap b [] a.

Definition itv_eqb (x y : itv) : bool := (fst x =? fst y) && (snd x =? snd y).
Fixpoint ivs_eqb (x y : ivs) : bool :=
  match x, y with
  | [], [] => true
  | i :: x', j :: y' => itv_eqb i j && ivs_eqb x' y'
  | _, _ => false
  end.

Definition is_subset_of (cap : nat) (a b : ivs) : option bool :=
  obind (intersection cap a b) (fun r => Some (ivs_eqb r a)).

(* contains: Intervals::from(value).is_subset_of(self) *)
Definition contains (cap : nat) (a : ivs) (v : Z) : option bool :=
  is_subset_of cap [(v, v)] a.

(* Operation histories, as the correspondence stream generates them *)
Inductive op :=
| UnionI (mn mx : Z)
| InterI (mn mx : Z)
| UnionS (t : ivs)
| InterS (t : ivs).

Definition step (cap : nat) (s : ivs) (o : op) : option ivs :=
  match o with
  | UnionI mn mx => union_interval cap s mn mx
  | InterI mn mx => intersection_interval cap s mn mx
  | UnionS t => union cap s t
  | InterS t => intersection cap s t
  end.

Fixpoint run (cap : nat) (s : ivs) (ops : list op) : option ivs :=
  match ops with
  | [] => Some s
  | o :: t => obind (step cap s o) (fun s' => run cap s' t)
  end.

(* every intermediate state, for the correspondence stream *)
Fixpoint trace (cap : nat) (s : ivs) (ops : list op) : list (option ivs) :=
  match ops with
  | [] => []
  | o :: t =>
      match step cap s o with
      | Some s' => Some s' :: trace cap s' t
      | None => [None]
      end
  end.

(* from_intervals: fold of union_interval from the empty set *)
Definition from_intervals (cap : nat) (l : ivs) : option ivs := union_into cap [] l.

(* CAPACITY = 1 << 7 *)
Definition CAP : nat := 128.
