(* Invariants and soundness of the interval-set algebra (C11, interval level). *)
From QV Require Import Intervals.Model.
From Coq Require Import ZifyBool.
Open Scope Z_scope.

(* ---------- well-formedness: sorted, pairwise disjoint, lo <= hi ---------- *)

Definition lo_gt (x : Z) (l : ivs) : Prop :=
  match l with [] => True | (a, _) :: _ => x < a end.

Fixpoint wf (l : ivs) : Prop :=
  match l with
  | [] => True
  | (a, b) :: t => a <= b /\ lo_gt b t /\ wf t
  end.

Fixpoint wfb (l : ivs) : bool :=
  match l with
  | [] => true
  | (a, b) :: t =>
      (a <=? b) && (match t with [] => true | (a', _) :: _ => b <? a' end) && wfb t
  end.

Lemma wfb_wf l : wfb l = true <-> wf l.
Proof.
  induction l as [|[a b] t IH]; cbn [wfb wf]; [tauto|].
  rewrite !andb_true_iff, IH. destruct t as [|[a' b'] t']; cbn [lo_gt].
  - rewrite Z.leb_le. tauto.
  - rewrite Z.leb_le, Z.ltb_lt. tauto.
Qed.

Definition WF (cap : nat) (l : ivs) : Prop := wf l /\ (length l < cap)%nat.

Lemma lo_gt_trans x y l : x <= y -> lo_gt y l -> lo_gt x l.
Proof. destruct l as [|[a b] t]; cbn; lia. Qed.

(* every member of a well-formed list above x is above x *)
Lemma mem_lo_gt x l v : wf l -> lo_gt x l -> mem v l = true -> x < v.
Proof.
  revert x; induction l as [|[a b] t IH]; intros x Hw Hl Hm; cbn in *; [discriminate|].
  destruct Hw as (Hab & Hlt & Hw).
  apply orb_true_iff in Hm as [Hm|Hm].
  - unfold in_itv in Hm; cbn in Hm; lia.
  - specialize (IH b Hw Hlt Hm). lia.
Qed.

Lemma mem_false_below l v : wf l -> lo_gt v l -> mem v l = false.
Proof.
  intros Hw Hl. destruct (mem v l) eqn:E; [|reflexivity].
  pose proof (mem_lo_gt v l v Hw Hl E). lia.
Qed.

Ltac split4 := split; [|split; [|split]].

(* ---------- uni ---------- *)

Lemma uni_spec l : forall mn mx x,
  wf l -> mn <= mx -> lo_gt x l -> x < mn ->
  wf (uni l mn mx) /\ lo_gt x (uni l mn mx) /\
  (forall v, mem v (uni l mn mx) = mem v l || in_itv v (mn, mx)) /\
  (length (uni l mn mx) <= S (length l))%nat.
Proof.
  induction l as [|[a b] t IH]; intros mn mx x Hw Hle Hlo Hx; cbn [uni].
  - cbn. split4; try lia.
  - cbn [wf] in Hw. destruct Hw as (Hab & Hlt & Hw). cbn [lo_gt] in Hlo.
    destruct (b <? mn) eqn:E1.
    + assert (Hb : b < mn) by lia.
      destruct (IH mn mx b Hw Hle Hlt Hb) as (W & L & M & N).
      split4.
      * cbn [wf]. auto.
      * cbn. lia.
      * intros v. cbn [mem existsb]. fold (mem v (uni t mn mx)). rewrite M.
        fold (mem v t). now rewrite orb_assoc.
      * cbn [length]. lia.
    + destruct (mx <? a) eqn:E2.
      * split4.
        -- cbn [wf lo_gt]. split4; try lia; auto.
        -- cbn. lia.
        -- intros v. cbn [mem existsb]. fold (mem v t).
           destruct (in_itv v (mn, mx)), (in_itv v (a, b)), (mem v t); reflexivity.
        -- cbn [length]. lia.
      * assert (Hle' : Z.min a mn <= Z.max b mx) by lia.
        assert (Hlt' : lo_gt (Z.max b mx) t \/ True) by (right; exact I).
        (* t may start below max b mx; weaken the lower bound to b *)
        assert (Hx' : x < Z.min a mn) by lia.
        (* use IH with the lower bound x, after showing lo_gt x t *)
        assert (Hlx : lo_gt x t) by (eapply lo_gt_trans; [|exact Hlt]; lia).
        destruct (IH (Z.min a mn) (Z.max b mx) x Hw Hle' Hlx Hx') as (W & L & M & N).
        split4; [exact W|exact L| |cbn [length]; lia].
        intros v. rewrite M. cbn [mem existsb]. fold (mem v t).
        unfold in_itv; cbn [fst snd].
        destruct (mem v t); [now rewrite !orb_true_r; rewrite ?orb_true_l|].
        rewrite !orb_false_r, ?orb_false_l. lia.
Qed.

Lemma uni_wf l mn mx : wf l -> mn <= mx -> wf (uni l mn mx).
Proof.
  intros Hw Hle.
  assert (H : lo_gt (Z.min mn (match l with [] => mn | (a, _) :: _ => a end) - 1) l)
    by (destruct l as [|[a b] t]; cbn; lia).
  eapply uni_spec in H; eauto; [tauto|lia].
Qed.

Lemma uni_mem l mn mx v : wf l -> mn <= mx ->
  mem v (uni l mn mx) = mem v l || in_itv v (mn, mx).
Proof.
  intros Hw Hle.
  assert (H : lo_gt (Z.min mn (match l with [] => mn | (a, _) :: _ => a end) - 1) l)
    by (destruct l as [|[a b] t]; cbn; lia).
  eapply uni_spec in H; eauto; [|lia]. destruct H as (_ & _ & M & _). apply M.
Qed.

Lemma uni_length l mn mx : wf l -> mn <= mx -> (length (uni l mn mx) <= S (length l))%nat.
Proof.
  intros Hw Hle.
  assert (H : lo_gt (Z.min mn (match l with [] => mn | (a, _) :: _ => a end) - 1) l)
    by (destruct l as [|[a b] t]; cbn; lia).
  eapply uni_spec in H; eauto; [tauto|lia].
Qed.

(* ---------- hull / simplify ---------- *)

Lemma last_cons {A} (t : list A) : forall x d, last (x :: t) d = last t x.
Proof.
  induction t as [|y t IH]; intros x d; [reflexivity|].
  change (last (x :: y :: t) d) with (last (y :: t) d). rewrite !IH. reflexivity.
Qed.

Lemma last_snd_ge t : forall a b, wf ((a, b) :: t) -> b <= snd (last t (a, b)) /\
  (forall v, mem v ((a, b) :: t) = true -> a <= v <= snd (last t (a, b))).
Proof.
  induction t as [|[a' b'] t IH]; intros a b Hw.
  - cbn. split; [lia|]. intros v Hv. rewrite orb_false_r in Hv. unfold in_itv in Hv; cbn in Hv. lia.
  - cbn [wf lo_gt] in Hw. destruct Hw as (Hab & Hlt & Hab' & Hlt' & Hw).
    assert (Hw' : wf ((a', b') :: t)) by (cbn [wf]; auto).
    destruct (IH a' b' Hw') as (H1 & H2).
    assert (E : last ((a', b') :: t) (a, b) = last t (a', b')) by apply last_cons.
    rewrite E. split; [lia|].
    intros v Hv. cbn [mem existsb] in Hv. apply orb_true_iff in Hv as [Hv|Hv].
    + unfold in_itv in Hv; cbn in Hv. lia.
    + specialize (H2 v Hv). lia.
Qed.

Lemma hull_wf l : wf l -> wf (hull l).
Proof.
  destruct l as [|[a b] t]; intros Hw; cbn [hull]; [exact I|].
  pose proof (last_snd_ge t a b Hw) as [H _]. cbn [wf] in Hw. destruct Hw as (Hab & _).
  cbn [wf lo_gt]. split; [lia|auto].
Qed.

Lemma hull_superset l v : wf l -> mem v l = true -> mem v (hull l) = true.
Proof.
  destruct l as [|[a b] t]; intros Hw Hv; cbn [hull]; [exact Hv|].
  pose proof (last_snd_ge t a b Hw) as [_ H]. specialize (H v Hv).
  cbn [mem existsb]. unfold in_itv; cbn [fst snd]. lia.
Qed.

Lemma hull_length l : (length (hull l) <= 1)%nat.
Proof. destruct l as [|[a b] t]; cbn; lia. Qed.

Lemma simplify_wf cap l : wf l -> wf (simplify cap l).
Proof. unfold simplify. destruct (length l <? cap)%nat; auto using hull_wf. Qed.

(* simplification never loses a point *)
Lemma simplify_superset cap l v : wf l -> mem v l = true -> mem v (simplify cap l) = true.
Proof. unfold simplify. destruct (length l <? cap)%nat; auto using hull_superset. Qed.

Lemma simplify_length cap l : (1 < cap)%nat -> (length (simplify cap l) < cap)%nat.
Proof.
  intros Hc. unfold simplify. destruct (length l <? cap)%nat eqn:E; [lia|].
  pose proof (hull_length l). lia.
Qed.

Lemma simplify_id cap l : (length l < cap)%nat -> simplify cap l = l.
Proof. intros H. unfold simplify. destruct (length l <? cap)%nat eqn:E; [reflexivity|lia]. Qed.

(* ---------- inter ---------- *)

Lemma inter_spec l : forall mn mx x,
  wf l -> mn <= mx -> lo_gt x l -> x < mn ->
  wf (inter l mn mx) /\ lo_gt x (inter l mn mx) /\
  (forall v, mem v (inter l mn mx) = mem v l && in_itv v (mn, mx)) /\
  (length (inter l mn mx) <= length l)%nat.
Proof.
  induction l as [|[a b] t IH]; intros mn mx x Hw Hle Hlo Hx; cbn [inter].
  - cbn. split4; lia.
  - cbn [wf] in Hw. destruct Hw as (Hab & Hlt & Hw). cbn [lo_gt] in Hlo.
    assert (Hlx : lo_gt x t) by (eapply lo_gt_trans; [|exact Hlt]; lia).
    destruct (b <? mn) eqn:E1.
    + destruct (IH mn mx x Hw Hle Hlx Hx) as (W & L & M & N).
      split4; auto.
      * intros v. rewrite M. cbn [mem existsb]. fold (mem v t).
        unfold in_itv; cbn [fst snd]. destruct (mem v t); cbn; lia.
      * cbn [length]. lia.
    + destruct (mx <? a) eqn:E2.
      * split4; cbn; try lia.
        intros v. fold (mem v t).
        destruct (mem v t) eqn:Em.
        -- pose proof (mem_lo_gt b t v Hw Hlt Em). unfold in_itv; cbn. lia.
        -- unfold in_itv; cbn. lia.
      * assert (Hb : Z.min b mx < Z.max mn (Z.min b mx + 1)) by lia.
        (* tail: lower bound b works for the recursive call only when b < mn fails;
           use the weaker bound x for wf and prove lo_gt (min b mx) separately *)
        destruct (IH mn mx x Hw Hle Hlx Hx) as (W & L & M & N).
        split4.
        -- cbn [wf]. repeat split; [lia| |exact W].
           (* first element of inter t mn mx is above b >= min b mx *)
           destruct (inter t mn mx) as [|[c d] r] eqn:Ei; cbn; [exact I|].
           assert (Hc : mem c ((c, d) :: r) = true).
           { cbn [wf] in W. destruct W as (Hcd & _).
             cbn [mem existsb]. unfold in_itv; cbn [fst snd]. lia. }
           rewrite M in Hc. apply andb_true_iff in Hc as [Hc _].
           pose proof (mem_lo_gt b t c Hw Hlt Hc). lia.
        -- cbn. lia.
        -- intros v. cbn [mem existsb]. fold (mem v (inter t mn mx)). rewrite M.
           fold (mem v t). unfold in_itv; cbn [fst snd].
           destruct (mem v t); cbn; lia.
        -- cbn [length]. lia.
Qed.

Definition low_of (l : ivs) (mn : Z) : Z :=
  Z.min mn (match l with [] => mn | (a, _) :: _ => a end) - 1.

Lemma low_of_ok l mn : lo_gt (low_of l mn) l /\ low_of l mn < mn.
Proof. unfold low_of. destruct l as [|[a b] t]; cbn; lia. Qed.

Lemma inter_wf l mn mx : wf l -> mn <= mx -> wf (inter l mn mx).
Proof.
  intros Hw Hle. destruct (low_of_ok l mn) as [H1 H2].
  destruct (inter_spec l mn mx _ Hw Hle H1 H2); tauto.
Qed.

Lemma inter_mem l mn mx v : wf l -> mn <= mx ->
  mem v (inter l mn mx) = mem v l && in_itv v (mn, mx).
Proof.
  intros Hw Hle. destruct (low_of_ok l mn) as [H1 H2].
  destruct (inter_spec l mn mx _ Hw Hle H1 H2) as (_ & _ & M & _). apply M.
Qed.

Lemma inter_length l mn mx : wf l -> mn <= mx -> (length (inter l mn mx) <= length l)%nat.
Proof.
  intros Hw Hle. destruct (low_of_ok l mn) as [H1 H2].
  destruct (inter_spec l mn mx _ Hw Hle H1 H2); tauto.
Qed.

(* ---------- the single-interval operations ---------- *)

Section Cap.
Variable cap : nat.
Hypothesis cap_gt1 : (1 < cap)%nat.

Lemma union_interval_total l mn mx : mn <= mx -> exists r, union_interval cap l mn mx = Some r.
Proof. intros H. unfold union_interval. destruct (mn <=? mx) eqn:E; [eauto|lia]. Qed.

Lemma union_interval_panics l mn mx : mx < mn -> union_interval cap l mn mx = None.
Proof. intros H. unfold union_interval. destruct (mn <=? mx) eqn:E; [lia|reflexivity]. Qed.

Lemma union_interval_WF l mn mx r :
  wf l -> union_interval cap l mn mx = Some r -> WF cap r.
Proof.
  unfold union_interval. intros Hw. destruct (mn <=? mx) eqn:E; [|discriminate].
  intros [= <-]. split; [apply simplify_wf, uni_wf; auto; lia|apply simplify_length, cap_gt1].
Qed.

Lemma union_interval_sound l mn mx r v :
  wf l -> union_interval cap l mn mx = Some r ->
  mem v l || in_itv v (mn, mx) = true -> mem v r = true.
Proof.
  unfold union_interval. intros Hw. destruct (mn <=? mx) eqn:E; [|discriminate].
  intros [= <-] Hv. apply simplify_superset; [apply uni_wf; auto; lia|].
  rewrite uni_mem; auto; lia.
Qed.

Lemma union_interval_exact l mn mx r v :
  wf l -> (S (length l) < cap)%nat -> union_interval cap l mn mx = Some r ->
  mem v r = mem v l || in_itv v (mn, mx).
Proof.
  unfold union_interval. intros Hw Hl. destruct (mn <=? mx) eqn:E; [|discriminate].
  intros [= <-]. rewrite simplify_id; [apply uni_mem; auto; lia|].
  pose proof (uni_length l mn mx Hw ltac:(lia)). lia.
Qed.

Lemma union_interval_length l mn mx r :
  wf l -> (S (length l) < cap)%nat -> union_interval cap l mn mx = Some r ->
  (length r <= S (length l))%nat.
Proof.
  unfold union_interval. intros Hw Hl. destruct (mn <=? mx) eqn:E; [|discriminate].
  intros [= <-]. pose proof (uni_length l mn mx Hw ltac:(lia)).
  rewrite simplify_id; lia.
Qed.

Lemma intersection_interval_total l mn mx : mn <= mx -> exists r, intersection_interval cap l mn mx = Some r.
Proof. intros H. unfold intersection_interval. destruct (mn <=? mx) eqn:E; [eauto|lia]. Qed.

Lemma intersection_interval_WF l mn mx r :
  wf l -> intersection_interval cap l mn mx = Some r -> WF cap r.
Proof.
  unfold intersection_interval. intros Hw. destruct (mn <=? mx) eqn:E; [|discriminate].
  intros [= <-]. split; [apply simplify_wf, inter_wf; auto; lia|apply simplify_length, cap_gt1].
Qed.

Lemma intersection_interval_sound l mn mx r v :
  wf l -> intersection_interval cap l mn mx = Some r ->
  mem v l && in_itv v (mn, mx) = true -> mem v r = true.
Proof.
  unfold intersection_interval. intros Hw. destruct (mn <=? mx) eqn:E; [|discriminate].
  intros [= <-] Hv. apply simplify_superset; [apply inter_wf; auto; lia|].
  rewrite inter_mem; auto; lia.
Qed.

(* on a set within capacity the intersection with an interval is exact *)
Lemma intersection_interval_exact l mn mx r :
  WF cap l -> intersection_interval cap l mn mx = Some r ->
  r = inter l mn mx.
Proof.
  unfold intersection_interval. intros [Hw Hl]. destruct (mn <=? mx) eqn:E; [|discriminate].
  intros [= <-]. apply simplify_id.
  pose proof (inter_length l mn mx Hw ltac:(lia)). lia.
Qed.

(* ---------- folds: union, intersection ---------- *)

Definition all_mem (v : Z) (l : ivs) := mem v l.

Lemma wf_tail a b t : wf ((a, b) :: t) -> a <= b /\ wf t.
Proof. cbn. tauto. Qed.

Lemma union_into_WF src : forall acc, WF cap acc -> wf src ->
  exists r, union_into cap acc src = Some r /\ WF cap r /\
    (forall v, mem v acc || mem v src = true -> mem v r = true).
Proof.
  induction src as [|[mn mx] t IH]; intros acc Ha Hs; cbn [union_into].
  - exists acc. split; [reflexivity|]. split; [exact Ha|]. intros v. now rewrite orb_false_r.
  - destruct (wf_tail _ _ _ Hs) as [Hle Ht].
    destruct (union_interval_total acc mn mx Hle) as [a' Ea]. rewrite Ea. cbn [obind].
    pose proof (union_interval_WF _ _ _ _ (proj1 Ha) Ea) as Ha'.
    destruct (IH a' Ha' Ht) as (r & Er & W & M).
    exists r. split; [exact Er|]. split; [exact W|].
    intros v Hv. apply M. cbn [mem existsb] in Hv. fold (mem v t) in Hv.
    destruct (mem v t); [now rewrite orb_true_r|]. rewrite orb_false_r in *.
    rewrite (union_interval_sound _ _ _ _ v (proj1 Ha) Ea); auto.
Qed.

Theorem union_sound a b : WF cap a -> WF cap b ->
  exists r, union cap a b = Some r /\ WF cap r /\
    (forall v, mem v a || mem v b = true -> mem v r = true).
Proof.
  intros Ha Hb. unfold union. destruct (length b <=? length a)%nat.
  - apply union_into_WF; [auto|apply Hb].
  - destruct (union_into_WF a b Hb (proj1 Ha)) as (r & Er & W & M).
    exists r. split; [exact Er|]. split; [exact W|]. intros v Hv. apply M. now rewrite orb_comm.
Qed.

(* exact union below capacity *)
Lemma union_into_exact src : forall acc,
  wf acc -> wf src -> (length acc + length src < cap)%nat ->
  exists r, union_into cap acc src = Some r /\ wf r /\
    (length r <= length acc + length src)%nat /\
    (forall v, mem v r = mem v acc || mem v src).
Proof.
  induction src as [|[mn mx] t IH]; intros acc Ha Hs Hl; cbn [union_into].
  - exists acc. repeat split; auto; [lia|]. intros v. now rewrite orb_false_r.
  - destruct (wf_tail _ _ _ Hs) as [Hle Ht]. cbn [length] in Hl.
    destruct (union_interval_total acc mn mx Hle) as [a' Ea]. rewrite Ea. cbn [obind].
    pose proof (union_interval_WF _ _ _ _ Ha Ea) as [Hwa' _].
    assert (Hl1 : (S (length acc) < cap)%nat) by lia.
    pose proof (union_interval_length _ _ _ _ Ha Hl1 Ea) as Hn.
    destruct (IH a' Hwa' Ht ltac:(lia)) as (r & Er & W & N & M).
    exists r. repeat split; auto; [cbn [length]; lia|].
    intros v. rewrite M. rewrite (union_interval_exact _ _ _ _ v Ha Hl1 Ea).
    cbn [mem existsb]. fold (mem v t). now rewrite orb_assoc.
Qed.

Theorem union_exact a b : wf a -> wf b -> (length a + length b < cap)%nat ->
  exists r, union cap a b = Some r /\ wf r /\ (length r <= length a + length b)%nat /\
    (forall v, mem v r = mem v a || mem v b).
Proof.
  intros Ha Hb Hl. unfold union. destruct (length b <=? length a)%nat.
  - apply union_into_exact; auto.
  - destruct (union_into_exact a b Hb Ha ltac:(lia)) as (r & Er & W & N & M).
    exists r. repeat split; auto; [lia|]. intros v. rewrite M. apply orb_comm.
Qed.

(* membership in any piece: exists an interval of src containing v *)
Lemma inter_into_sound self src : forall acc,
  WF cap self -> WF cap acc -> wf src ->
  exists r, inter_into cap self acc src = Some r /\ WF cap r /\
    (forall v, mem v acc || (mem v self && mem v src) = true -> mem v r = true).
Proof.
  induction src as [|[mn mx] t IH]; intros acc Hself Hacc Hs; cbn [inter_into].
  - exists acc. repeat split; try apply Hacc. intros v. cbn. now rewrite andb_false_r, orb_false_r.
  - destruct (wf_tail _ _ _ Hs) as [Hle Ht].
    destruct (intersection_interval_total self mn mx Hle) as [p Ep]. rewrite Ep. cbn [obind].
    pose proof (intersection_interval_WF _ _ _ _ (proj1 Hself) Ep) as Hp.
    destruct (union_sound acc p Hacc Hp) as (a' & Ea & Wa & Ma). rewrite Ea. cbn [obind].
    destruct (IH a' Hself Wa Ht) as (r & Er & W & M).
    exists r. repeat split; try apply W; auto.
    intros v Hv. apply M.
    cbn [mem existsb] in Hv. fold (mem v t) in Hv.
    destruct (mem v acc) eqn:E1.
    { rewrite (Ma v); [reflexivity|now rewrite E1]. }
    cbn [orb] in Hv. apply andb_true_iff in Hv as [Hs1 Hs2].
    apply orb_true_iff in Hs2 as [Hs2|Hs2].
    + rewrite (Ma v); [reflexivity|].
      rewrite (intersection_interval_sound _ _ _ _ v (proj1 Hself) Ep); [apply orb_true_r|].
      now rewrite Hs1, Hs2.
    + rewrite Hs1, Hs2. apply orb_true_r.
Qed.

Lemma WF_nil : WF cap [].
Proof. split; cbn; [exact I|lia]. Qed.

Theorem intersection_sound a b : WF cap a -> WF cap b ->
  exists r, intersection cap a b = Some r /\ WF cap r /\
    (forall v, mem v a && mem v b = true -> mem v r = true).
Proof.
  intros Ha Hb. unfold intersection. destruct (length b <=? length a)%nat.
  - destruct (inter_into_sound a b [] Ha WF_nil (proj1 Hb)) as (r & Er & W & M).
    exists r. repeat split; try apply W; auto.
  - destruct (inter_into_sound b a [] Hb WF_nil (proj1 Ha)) as (r & Er & W & M).
    exists r. repeat split; try apply W; auto. intros v Hv. apply M. cbn [orb]. now rewrite andb_comm.
Qed.

(* The exact pieces the fold unions together *)
Fixpoint pieces (self src : ivs) : ivs :=
  match src with
  | [] => []
  | (mn, mx) :: t => inter self mn mx ++ pieces self t
  end.

Lemma inter_into_exact self src : forall acc,
  WF cap self -> wf acc -> wf src ->
  (length acc + length (pieces self src) < cap)%nat ->
  exists r, inter_into cap self acc src = Some r /\ wf r /\
    (length r <= length acc + length (pieces self src))%nat /\
    (forall v, mem v r = mem v acc || (mem v self && mem v src)).
Proof.
  induction src as [|[mn mx] t IH]; intros acc Hself Hacc Hs Hl; cbn [inter_into].
  - exists acc. repeat split; auto; [cbn; lia|]. intros v. cbn. now rewrite andb_false_r, orb_false_r.
  - destruct (wf_tail _ _ _ Hs) as [Hle Ht]. cbn [pieces] in Hl. rewrite app_length in Hl.
    destruct (intersection_interval_total self mn mx Hle) as [p Ep]. rewrite Ep. cbn [obind].
    pose proof (intersection_interval_exact _ _ _ _ Hself Ep) as ->.
    assert (Hpw : wf (inter self mn mx)) by (apply inter_wf; [apply Hself|exact Hle]).
    destruct (union_exact acc (inter self mn mx) Hacc Hpw ltac:(lia)) as (a' & Ea & Wa & Na & Ma).
    rewrite Ea. cbn [obind].
    destruct (IH a' Hself Wa Ht ltac:(lia)) as (r & Er & W & N & M).
    exists r. repeat split; auto.
    + cbn [pieces]. rewrite app_length. lia.
    + intros v. rewrite M, Ma, inter_mem; [|apply Hself|exact Hle].
      cbn [mem existsb]. fold (mem v t).
      destruct (mem v acc), (mem v self), (in_itv v (mn, mx)), (mem v t); reflexivity.
Qed.

(* pieces as the code orders its operands *)
Definition xpieces (a b : ivs) : ivs :=
  if (length b <=? length a)%nat then pieces a b else pieces b a.

Theorem intersection_exact a b : WF cap a -> WF cap b ->
  (length (xpieces a b) < cap)%nat ->
  exists r, intersection cap a b = Some r /\ wf r /\
    (forall v, mem v r = mem v a && mem v b).
Proof.
  intros Ha Hb. unfold intersection, xpieces. destruct (length b <=? length a)%nat; intros Hl.
  - destruct (inter_into_exact a b [] Ha I (proj1 Hb) Hl) as (r & Er & W & N & M).
    exists r. repeat split; auto.
  - destruct (inter_into_exact b a [] Hb I (proj1 Ha) Hl) as (r & Er & W & N & M).
    exists r. repeat split; auto. intros v. rewrite M. cbn [mem existsb orb]. apply andb_comm.
Qed.

Lemma ivs_eqb_eq x : forall y, ivs_eqb x y = true -> x = y.
Proof.
  induction x as [|[a b] x IH]; intros [|[c d] y]; cbn; try discriminate; auto.
  unfold itv_eqb; cbn. intros H. apply andb_true_iff in H as [H1 H2].
  rewrite (IH y H2). f_equal. f_equal; lia.
Qed.

(* is_subset_of is sound whenever the fold stayed below the capacity.  The
   condition is computable; [pieces_length_mul] gives a size bound that implies it. *)
Theorem is_subset_of_sound_partial a b :
  WF cap a -> WF cap b -> (length (xpieces a b) < cap)%nat ->
  is_subset_of cap a b = Some true ->
  forall v, mem v a = true -> mem v b = true.
Proof.
  intros Ha Hb Hl. unfold is_subset_of.
  destruct (intersection_exact a b Ha Hb Hl) as (r & Er & W & M). rewrite Er. cbn [obind].
  intros [= E] v Hv. apply ivs_eqb_eq in E. subst r.
  specialize (M v). rewrite Hv in M. cbn in M. auto.
Qed.

Theorem is_subset_of_complete_partial a b :
  WF cap a -> WF cap b -> (length (xpieces a b) < cap)%nat ->
  is_subset_of cap a b = Some false ->
  exists r, intersection cap a b = Some r /\ r <> a.
Proof.
  intros Ha Hb Hl. unfold is_subset_of.
  destruct (intersection_exact a b Ha Hb Hl) as (r & Er & W & M). rewrite Er. cbn [obind].
  intros [= E]. exists r. split; auto. intros ->.
  assert (X : forall x, ivs_eqb x x = true).
  { induction x as [|[c d] x IH]; cbn; auto. unfold itv_eqb; cbn. rewrite IH. lia. }
  rewrite X in E. discriminate.
Qed.

Lemma pieces_length_mul self src : wf self -> wf src ->
  (length (pieces self src) <= length self * length src)%nat.
Proof.
  intros Hs. induction src as [|[mn mx] t IH]; intros Hw; cbn [pieces length]; [lia|].
  destruct (wf_tail _ _ _ Hw) as [Hle Ht]. rewrite app_length.
  pose proof (inter_length self mn mx Hs Hle). specialize (IH Ht). nia.
Qed.

(* contains is exact: a singleton against a set within capacity never merges *)
Theorem contains_iff a v : WF cap a -> contains cap a v = Some (mem v a).
Proof.
  intros Ha. unfold contains, is_subset_of.
  assert (Hv : WF cap [(v, v)]) by (split; cbn; [lia|lia]).
  assert (Hl : (length (xpieces [(v, v)] a) < cap)%nat).
  { unfold xpieces. destruct Ha as [Hw Hn].
    destruct (length a <=? length [(v, v)])%nat.
    - pose proof (pieces_length_mul [(v, v)] a (proj1 Hv) Hw). cbn [length] in *. lia.
    - pose proof (pieces_length_mul a [(v, v)] Hw (proj1 Hv)). cbn [length] in *. lia. }
  destruct (intersection_exact _ _ Hv Ha Hl) as (r & Er & W & M). rewrite Er. cbn [obind].
  f_equal.
  destruct (mem v a) eqn:E.
  - (* r has exactly the point v and is wf, so r = [(v,v)] *)
    assert (Mv : mem v r = true) by (rewrite M; cbn; unfold in_itv; cbn; rewrite E; lia).
    assert (Mo : forall w, w <> v -> mem w r = false).
    { intros w Hw'. rewrite M. cbn. unfold in_itv; cbn. lia. }
    destruct r as [|[c d] r']; [discriminate|].
    cbn [wf] in W. destruct W as (Hcd & Hlt & W').
    assert (c = v /\ d = v) as [-> ->].
    { destruct (Z.eq_dec c v) as [->|Hc].
      - split; auto. destruct (Z.eq_dec d v) as [->|Hd]; auto.
        specialize (Mo d Hd). cbn in Mo. unfold in_itv in Mo; cbn in Mo. lia.
      - specialize (Mo c Hc). cbn in Mo. unfold in_itv in Mo; cbn in Mo. lia. }
    destruct r' as [|[c' d'] r'']; [cbn; unfold itv_eqb; cbn; lia|].
    cbn [lo_gt] in Hlt. cbn [wf] in W'.
    assert (Hc' : c' <> v) by lia.
    specialize (Mo c' Hc'). cbn in Mo. unfold in_itv in Mo; cbn in Mo. lia.
  - destruct (ivs_eqb r [(v, v)]) eqn:Eq; [|reflexivity].
    apply ivs_eqb_eq in Eq. subst r. specialize (M v). cbn in M. unfold in_itv in M; cbn in M.
    rewrite E in M. lia.
Qed.

(* ---------- histories ---------- *)

Definition op_ok (o : op) : Prop :=
  match o with
  | UnionI mn mx | InterI mn mx => mn <= mx
  | UnionS t | InterS t => WF cap t
  end.

Lemma step_WF s o : WF cap s -> op_ok o -> exists s', step cap s o = Some s' /\ WF cap s'.
Proof.
  intros Hs Ho. destruct o as [mn mx|mn mx|t|t]; cbn [step op_ok] in *.
  - destruct (union_interval_total s mn mx Ho) as [r Er]. exists r. split; auto.
    eapply union_interval_WF; eauto. apply Hs.
  - destruct (intersection_interval_total s mn mx Ho) as [r Er]. exists r. split; auto.
    eapply intersection_interval_WF; eauto. apply Hs.
  - destruct (union_sound s t Hs Ho) as (r & Er & W & _). eauto.
  - destruct (intersection_sound s t Hs Ho) as (r & Er & W & _). eauto.
Qed.

(* every history of well-formed operations, of any length, crossing the capacity or
   not, runs without panic and ends in a sorted, disjoint set within capacity *)
Theorem run_WF ops : forall s, WF cap s -> Forall op_ok ops ->
  exists s', run cap s ops = Some s' /\ WF cap s'.
Proof.
  induction ops as [|o t IH]; intros s Hs Ho; cbn [run]; [eauto|].
  inversion Ho as [|? ? Ho1 Ho2]; subst.
  destruct (step_WF s o Hs Ho1) as (s' & Es & Ws). rewrite Es. cbn [obind]. auto.
Qed.

(* a union step never loses a point *)
Theorem step_union_monotone s o s' v :
  WF cap s -> op_ok o -> step cap s o = Some s' ->
  match o with
  | UnionI mn mx => mem v s || in_itv v (mn, mx) = true -> mem v s' = true
  | UnionS t => mem v s || mem v t = true -> mem v s' = true
  | InterI mn mx => mem v s && in_itv v (mn, mx) = true -> mem v s' = true
  | InterS t => mem v s && mem v t = true -> mem v s' = true
  end.
Proof.
  intros Hs Ho E. destruct o as [mn mx|mn mx|t|t]; cbn [step op_ok] in *.
  - eapply union_interval_sound; eauto. apply Hs.
  - eapply intersection_interval_sound; eauto. apply Hs.
  - destruct (union_sound s t Hs Ho) as (r & Er & _ & M). rewrite Er in E. injection E as <-. apply M.
  - destruct (intersection_sound s t Hs Ho) as (r & Er & _ & M). rewrite Er in E. injection E as <-. apply M.
Qed.

End Cap.
