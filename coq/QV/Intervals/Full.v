(* The subset test is sound without any side condition on the number of intervals:
   is_subset_of a b = Some true  ->  a is included in b.
   The fold that computes the intersection may replace the accumulator by its hull when it reaches
   the capacity; the invariant below shows that an interval produced by such a hull contains cap
   points lying in pairwise different cells (A_i /\ B_k), so it cannot be an interval of a when b has
   fewer than cap intervals. *)
From QV Require Import Intervals.Model Intervals.Proofs.
From Coq Require Import ZifyBool.
Open Scope Z_scope.

Lemma in_itv_spec v a b : in_itv v (a, b) = true <-> a <= v <= b.
Proof. unfold in_itv; cbn. lia. Qed.

(* order facts of well-formed lists *)
Lemma wf_lo_gt_all b l : wf l -> lo_gt b l -> Forall (fun I => b < fst I) l.
Proof.
  revert b. induction l as [|[a' b'] t IH]; intros b Hw Hl; constructor.
  - cbn in *. lia.
  - cbn [wf] in Hw. destruct Hw as (H1 & H2 & H3). cbn [lo_gt] in Hl.
    eapply Forall_impl; [|apply (IH b' H3 H2)]. cbn. intros I HI. lia.
Qed.

Lemma wf_pairs l : wf l -> ForallOrdPairs (fun I J => snd I < fst J) l.
Proof.
  induction l as [|[a b] t IH]; intros Hw; constructor.
  - cbn [wf] in Hw. destruct Hw as (_ & H2 & H3). apply (wf_lo_gt_all b t H3 H2).
  - apply IH. cbn [wf] in Hw. tauto.
Qed.

Lemma wf_each l : wf l -> Forall (fun I => fst I <= snd I) l.
Proof.
  induction l as [|[a b] t IH]; intros Hw; constructor; cbn [wf] in Hw; [cbn; tauto|apply IH; tauto].
Qed.

Lemma last_nonempty_in {A} (t : list A) : forall d, t <> [] -> In (last t d) t.
Proof.
  induction t as [|y t IH]; intros d Hne; [congruence|].
  destruct t as [|z t']; [left; reflexivity|].
  right. change (last (y :: z :: t') d) with (last (z :: t') d). apply IH. discriminate.
Qed.

Lemma last_in {A} (t : list A) d : In (last t d) (d :: t).
Proof. destruct t as [|y t]; [left; reflexivity|]. right. apply last_nonempty_in. discriminate. Qed.

Lemma in_firstn {A} (l : list A) : forall n y, In y (firstn n l) -> In y l.
Proof.
  induction l as [|z t IH]; intros [|n] y Hy; cbn in *; try tauto.
  destruct Hy as [<-|Hy]; [left; reflexivity|right; eapply IH, Hy].
Qed.

Lemma FOP_firstn {A} (R : A -> A -> Prop) (l : list A) : forall n, ForallOrdPairs R l -> ForallOrdPairs R (firstn n l).
Proof.
  induction l as [|x t IH]; intros n H; [rewrite firstn_nil; constructor|].
  destruct n as [|n]; [constructor|]. cbn [firstn]. inversion H as [|? ? Hx Ht]; subst.
  constructor; [|apply IH, Ht].
  rewrite Forall_forall in *. intros y Hy. apply Hx. eapply in_firstn, Hy.
Qed.


Section Abstract.
Variable cap : nat.
Hypothesis cap_gt1 : (1 < cap)%nat.
Variable S : Z -> bool.                 (* membership in both operands *)
Variable cell : Z -> Z -> Prop.         (* the two points lie in the same interval of each operand *)
Hypothesis cell_between : forall v u w, cell v w -> (v <= u <= w \/ w <= u <= v) -> cell u w.

Definition closed (I : Z * Z) : Prop := forall v w, cell v w -> in_itv v I = true -> in_itv w I = true.
Definition exact (I : Z * Z) : Prop := forall v, in_itv v I = true -> S v = true.
Definition apart (x y : Z) : Prop := ~ cell x y /\ ~ cell y x.
Definition big (I : Z * Z) : Prop :=
  exists xs, length xs = cap /\ Forall (fun x => in_itv x I = true /\ S x = true) xs /\ ForallOrdPairs apart xs.
Definition G (I : Z * Z) : Prop :=
  fst I <= snd I /\ S (fst I) = true /\ closed I /\ (exact I \/ big I).

Lemma big_mono I J : big I -> (forall v, in_itv v I = true -> in_itv v J = true) -> big J.
Proof.
  intros (xs & Hl & Hin & Hp) Hsub. exists xs. split; [exact Hl|]. split; [|exact Hp].
  eapply Forall_impl; [|exact Hin]. cbn. intros x [H1 H2]. split; [apply Hsub, H1|exact H2].
Qed.

(* merging two overlapping or touching intervals *)
Lemma G_merge a b mn mx : G (a, b) -> G (mn, mx) -> ~ b < mn -> ~ mx < a -> G (Z.min a mn, Z.max b mx).
Proof.
  intros (H1 & S1 & C1 & E1) (H2 & S2 & C2 & E2) N1 N2. cbn [fst snd] in *.
  assert (Hsplit : forall v, in_itv v (Z.min a mn, Z.max b mx) = true -> in_itv v (a, b) = true \/ in_itv v (mn, mx) = true).
  { intros v Hv. apply in_itv_spec in Hv. rewrite !in_itv_spec. lia. }
  assert (Hsub1 : forall v, in_itv v (a, b) = true -> in_itv v (Z.min a mn, Z.max b mx) = true)
    by (intros v Hv; apply in_itv_spec in Hv; apply in_itv_spec; lia).
  assert (Hsub2 : forall v, in_itv v (mn, mx) = true -> in_itv v (Z.min a mn, Z.max b mx) = true)
    by (intros v Hv; apply in_itv_spec in Hv; apply in_itv_spec; lia).
  split; [cbn; lia|]. split.
  - cbn [fst]. destruct (Z.min_spec a mn) as [[_ ->]|[_ ->]]; assumption.
  - split.
    + intros v w Hc Hv. destruct (Hsplit v Hv) as [Hv'|Hv'].
      * apply Hsub1, (C1 v w Hc Hv').
      * apply Hsub2, (C2 v w Hc Hv').
    + destruct E1 as [E1|B1]; [|right; exact (big_mono _ _ B1 Hsub1)].
      destruct E2 as [E2|B2]; [|right; exact (big_mono _ _ B2 Hsub2)].
      left. intros v Hv. destruct (Hsplit v Hv) as [Hv'|Hv']; auto.
Qed.

Lemma uni_G l : forall mn mx, Forall G l -> G (mn, mx) -> Forall G (uni l mn mx).
Proof.
  induction l as [|[a b] t IH]; intros mn mx Hl Hg; cbn [uni].
  - constructor; [exact Hg|constructor].
  - inversion Hl as [|? ? Hab Ht]; subst.
    destruct (b <? mn) eqn:E1.
    + constructor; [exact Hab|apply IH; assumption].
    + destruct (mx <? a) eqn:E2.
      * constructor; [exact Hg|exact Hl].
      * apply IH; [exact Ht|]. apply G_merge; try assumption; lia.
Qed.

Lemma apart_los l : wf l -> Forall G l -> ForallOrdPairs apart (map fst l).
Proof.
  induction l as [|[a b] t IH]; intros Hw Hg; cbn [map]; constructor.
  - inversion Hg as [|? ? Hab Ht]; subst. cbn [wf] in Hw. destruct Hw as (Hle & Hlt & Hw).
    pose proof (wf_lo_gt_all b t Hw Hlt) as Hall. pose proof (wf_each t Hw) as Heach.
    rewrite Forall_forall in *. intros x Hx. apply in_map_iff in Hx. destruct Hx as [J [<- HJ]].
    specialize (Hall J HJ). specialize (Heach J HJ). specialize (Ht J HJ).
    destruct Hab as (_ & _ & Cab & _). destruct Ht as (_ & _ & CJ & _). cbn [fst].
    split; intros Hc.
    + assert (H : in_itv (fst J) (a, b) = true) by (apply (Cab a (fst J) Hc); apply in_itv_spec; lia).
      apply in_itv_spec in H. lia.
    + assert (H : in_itv a J = true) by (apply (CJ (fst J) a Hc); destruct J; apply in_itv_spec; cbn in *; lia).
      destruct J as [c d]. apply in_itv_spec in H. cbn in *. lia.
  - apply IH; [cbn [wf] in Hw; tauto|inversion Hg; assumption].
Qed.

Lemma hull_G l : wf l -> Forall G l -> (cap <= length l)%nat -> Forall G (hull l).
Proof.
  destruct l as [|[a b] t]; intros Hw Hg Hc; cbn [hull]; [constructor|].
  constructor; [|constructor].
  pose proof (last_snd_ge t a b Hw) as [Hb Hmem].
  set (L := last t (a, b)) in *.
  assert (HL : In L ((a, b) :: t)) by apply last_in.
  pose proof (wf_each _ Hw) as Heach.
  assert (HLle : fst L <= snd L) by (rewrite Forall_forall in Heach; apply (Heach L HL)).
  assert (HgL : G L) by (rewrite Forall_forall in Hg; apply (Hg L HL)).
  assert (Hgab : G (a, b)) by (inversion Hg; assumption).
  assert (Hle : a <= b) by (cbn [wf] in Hw; tauto).
  unfold G. cbn [fst snd]. split; [lia|]. split; [destruct Hgab as (_ & Sa & _); exact Sa|]. split.
  - intros v w Hcw Hv. apply in_itv_spec in Hv. apply in_itv_spec.
    destruct (Z_lt_ge_dec (snd L) w) as [Hgt|Hge1].
    + exfalso. assert (Hc1 : cell (snd L) w) by (apply (cell_between v (snd L) w Hcw); lia).
      destruct HgL as (_ & _ & CL & _). destruct L as [c d]. cbn [fst snd] in *.
      assert (H : in_itv w (c, d) = true) by (apply (CL d w Hc1); apply in_itv_spec; lia).
      apply in_itv_spec in H. lia.
    + destruct (Z_lt_ge_dec w a) as [Hlt|Hge2]; [|lia].
      exfalso. assert (Hc1 : cell a w) by (apply (cell_between v a w Hcw); lia).
      destruct Hgab as (_ & _ & Cab & _).
      assert (H : in_itv w (a, b) = true) by (apply (Cab a w Hc1); apply in_itv_spec; lia).
      apply in_itv_spec in H. lia.
  - right. exists (map fst (firstn cap ((a, b) :: t))). split; [|split].
    + rewrite map_length. apply firstn_length_le, Hc.
    + rewrite Forall_forall. intros x Hx. apply in_map_iff in Hx. destruct Hx as [J [<- HJ]].
      apply in_firstn in HJ.
      assert (HgJ : G J) by (rewrite Forall_forall in Hg; apply (Hg J HJ)).
      assert (HJle : fst J <= snd J) by (rewrite Forall_forall in Heach; apply (Heach J HJ)).
      split; [|destruct HgJ as (_ & SJ & _); exact SJ].
      apply in_itv_spec. apply Hmem.
      unfold mem. apply existsb_exists. exists J. split; [exact HJ|]. destruct J; apply in_itv_spec; cbn in *; lia.
    + rewrite <- firstn_map. apply FOP_firstn. apply apart_los; assumption.
Qed.

Lemma simplify_G l : wf l -> Forall G l -> Forall G (simplify cap l).
Proof.
  intros Hw Hg. unfold simplify. destruct (length l <? cap)%nat eqn:E; [exact Hg|].
  apply hull_G; try assumption. apply Nat.ltb_ge in E. exact E.
Qed.

Lemma union_interval_G l mn mx r :
  wf l -> Forall G l -> G (mn, mx) -> union_interval cap l mn mx = Some r -> Forall G r /\ wf r.
Proof.
  intros Hw Hg Hi. unfold union_interval. destruct (mn <=? mx) eqn:E; [|discriminate].
  intros [= <-]. assert (Hle : mn <= mx) by lia.
  split; [apply simplify_G; [apply uni_wf; assumption|apply uni_G; assumption]|apply simplify_wf, uni_wf; assumption].
Qed.

Lemma union_into_G src : forall acc r,
  wf acc -> Forall G acc -> Forall G src -> union_into cap acc src = Some r -> Forall G r /\ wf r.
Proof.
  induction src as [|[mn mx] t IH]; intros acc r Hw Hg Hs; cbn [union_into].
  - intros [= <-]. split; assumption.
  - inversion Hs as [|? ? Hi Ht]; subst.
    destruct (union_interval cap acc mn mx) as [acc'|] eqn:E; [|discriminate]. cbn [obind].
    destruct (union_interval_G acc mn mx acc' Hw Hg Hi E) as [Hg' Hw'].
    apply IH; assumption.
Qed.

Lemma union_G a b r :
  wf a -> wf b -> Forall G a -> Forall G b -> union cap a b = Some r -> Forall G r /\ wf r.
Proof.
  intros Ha Hb Ga Gb. unfold union. destruct (length b <=? length a)%nat; apply union_into_G; assumption.
Qed.
End Abstract.

(* ---------- the concrete instance: S and cell for two well-formed lists ---------- *)

Lemma in_mem v A l : In A l -> in_itv v A = true -> mem v l = true.
Proof. intros HA Hv. unfold mem. apply existsb_exists. exists A. tauto. Qed.

Lemma mem_in v l : mem v l = true -> exists A, In A l /\ in_itv v A = true.
Proof. unfold mem. intros H. apply existsb_exists in H. exact H. Qed.

Lemma unique_interval l : forall v A A', wf l -> In A l -> In A' l ->
  in_itv v A = true -> in_itv v A' = true -> A = A'.
Proof.
  induction l as [|[a b] t IH]; intros v A A' Hw HA HA' Hv Hv'; [destruct HA|].
  cbn [wf] in Hw. destruct Hw as (Hab & Hlt & Hw).
  pose proof (wf_lo_gt_all b t Hw Hlt) as Hall. rewrite Forall_forall in Hall.
  destruct HA as [<-|HA], HA' as [<-|HA'].
  - reflexivity.
  - exfalso. specialize (Hall A' HA'). destruct A' as [c d]. apply in_itv_spec in Hv, Hv'. cbn in *. lia.
  - exfalso. specialize (Hall A HA). destruct A as [c d]. apply in_itv_spec in Hv, Hv'. cbn in *. lia.
  - apply (IH v A A' Hw HA HA' Hv Hv').
Qed.

Section Concrete.
Variable cap : nat.
Hypothesis cap_gt1 : (1 < cap)%nat.
Variables self src : ivs.
Hypothesis wf_self : wf self.
Hypothesis wf_src : wf src.

Definition S2 (v : Z) : bool := mem v self && mem v src.
Definition cell2 (v w : Z) : Prop :=
  (exists A, In A self /\ in_itv v A = true /\ in_itv w A = true) /\
  (exists B, In B src /\ in_itv v B = true /\ in_itv w B = true).

Lemma cell2_between v u w : cell2 v w -> (v <= u <= w \/ w <= u <= v) -> cell2 u w.
Proof.
  intros [(A & HA & Av & Aw) (B & HB & Bv & Bw)] Hu. split.
  - exists A. split; [exact HA|]. split; [|exact Aw]. destruct A as [c d]. apply in_itv_spec in Av, Aw. apply in_itv_spec. lia.
  - exists B. split; [exact HB|]. split; [|exact Bw]. destruct B as [c d]. apply in_itv_spec in Bv, Bw. apply in_itv_spec. lia.
Qed.

Notation G2 := (G cap S2 cell2).

(* the pieces of one window are exact cells *)
Lemma inter_G2 mn mx : In (mn, mx) src -> mn <= mx ->
  forall l, (forall A, In A l -> In A self) -> Forall G2 (inter l mn mx).
Proof.
  intros Hin Hle. induction l as [|[a b] t IH]; intros Hsub; cbn [inter]; [constructor|].
  assert (Hsub' : forall A, In A t -> In A self) by (intros A HA; apply Hsub; right; exact HA).
  destruct (b <? mn) eqn:E1; [apply IH, Hsub'|].
  destruct (mx <? a) eqn:E2; [constructor|].
  constructor; [|apply IH, Hsub'].
  assert (Hab : In (a, b) self) by (apply Hsub; left; reflexivity).
  assert (Hle' : a <= b).
  { pose proof (wf_each self wf_self) as H. rewrite Forall_forall in H. apply (H (a, b) Hab). }
  unfold G. cbn [fst snd]. split; [lia|]. split; [|split].
  - unfold S2. rewrite (in_mem _ (a, b) self Hab), (in_mem _ (mn, mx) src Hin); [reflexivity| |]; apply in_itv_spec; lia.
  - intros v w [(A & HA & Av & Aw) (B & HB & Bv & Bw)] Hv. apply in_itv_spec in Hv.
    assert (A = (a, b)) by (apply (unique_interval self v A (a, b) wf_self HA Hab Av); apply in_itv_spec; lia). subst A.
    assert (B = (mn, mx)) by (apply (unique_interval src v B (mn, mx) wf_src HB Hin Bv); apply in_itv_spec; lia). subst B.
    apply in_itv_spec in Aw, Bw. apply in_itv_spec. lia.
  - left. intros v Hv. apply in_itv_spec in Hv. unfold S2.
    rewrite (in_mem v (a, b) self Hab), (in_mem v (mn, mx) src Hin); [reflexivity| |]; apply in_itv_spec; lia.
Qed.

Lemma intersection_interval_G2 mn mx p : In (mn, mx) src -> mn <= mx ->
  intersection_interval cap self mn mx = Some p -> Forall G2 p /\ wf p.
Proof.
  intros Hin Hle. unfold intersection_interval. destruct (mn <=? mx) eqn:E; [|discriminate].
  intros [= <-]. assert (Hw : wf (inter self mn mx)) by (apply inter_wf; assumption).
  split; [|apply simplify_wf, Hw].
  apply (simplify_G cap cap_gt1 S2 cell2 cell2_between); [exact Hw|].
  apply inter_G2; auto.
Qed.

Lemma inter_into_G2 l : (forall B, In B l -> In B src) -> wf l -> forall acc r,
  wf acc -> Forall G2 acc -> inter_into cap self acc l = Some r -> Forall G2 r /\ wf r.
Proof.
  induction l as [|[mn mx] t IH]; intros Hsub Hwl acc r Hw Hg; cbn [inter_into].
  - intros [= <-]. split; assumption.
  - cbn [wf] in Hwl. destruct Hwl as (Hle & _ & Hwt).
    destruct (intersection_interval cap self mn mx) as [p|] eqn:Ep; [|discriminate]. cbn [obind].
    destruct (intersection_interval_G2 mn mx p (Hsub _ (or_introl eq_refl)) Hle Ep) as [Gp Wp].
    destruct (union cap acc p) as [acc'|] eqn:Eu; [|discriminate]. cbn [obind].
    destruct (union_G cap cap_gt1 S2 cell2 cell2_between acc p acc' Hw Wp Hg Gp Eu) as [Ga Wa].
    apply IH; try assumption. intros B HB. apply Hsub. right. exact HB.
Qed.
End Concrete.

(* ---------- pigeonhole: points in pairwise different intervals of l are at most |l| ---------- *)

Definition share (l : ivs) (x y : Z) : Prop := exists B, In B l /\ in_itv x B = true /\ in_itv y B = true.

Lemma FOP_filter {A} (R : A -> A -> Prop) (p : A -> bool) (l : list A) :
  ForallOrdPairs R l -> ForallOrdPairs R (filter p l).
Proof.
  induction l as [|x t IH]; intros H; cbn [filter]; [constructor|].
  inversion H as [|? ? Hx Ht]; subst. destruct (p x); [|apply IH, Ht].
  constructor; [|apply IH, Ht]. rewrite Forall_forall in *. intros y Hy. apply filter_In in Hy. apply Hx. tauto.
Qed.

Lemma filter_length_split {A} (p : A -> bool) (l : list A) :
  length l = (length (filter p l) + length (filter (fun x => negb (p x)) l))%nat.
Proof. induction l as [|x t IH]; cbn [filter length]; [reflexivity|]. destruct (p x); cbn [negb length]; lia. Qed.

Lemma at_most_one (B : Z * Z) (l : ivs) xs : In B l ->
  ForallOrdPairs (fun x y => ~ share l x y) xs -> (length (filter (fun x => in_itv x B) xs) <= 1)%nat.
Proof.
  intros HB. induction xs as [|x t IH]; intros H; cbn [filter]; [cbn; lia|].
  inversion H as [|? ? Hx Ht]; subst. destruct (in_itv x B) eqn:Ex; [|apply IH, Ht].
  cbn [length]. assert (E : filter (fun y => in_itv y B) t = []).
  { apply (proj2 (List.Forall_nil_iff _) I) || idtac.
    destruct (filter (fun y => in_itv y B) t) as [|y r] eqn:Ef; [reflexivity|exfalso].
    assert (Hy : In y (filter (fun y => in_itv y B) t)) by (rewrite Ef; left; reflexivity).
    apply filter_In in Hy. destruct Hy as [Hyt HyB]. rewrite Forall_forall in Hx.
    apply (Hx y Hyt). exists B. tauto. }
  rewrite E. cbn. lia.
Qed.

Lemma pigeon l : forall xs, (forall x, In x xs -> mem x l = true) ->
  ForallOrdPairs (fun x y => ~ share l x y) xs -> (length xs <= length l)%nat.
Proof.
  induction l as [|B t IH]; intros xs Hm Hp.
  - destruct xs as [|x r]; [cbn; lia|]. specialize (Hm x (or_introl eq_refl)). cbn in Hm. discriminate.
  - rewrite (filter_length_split (fun x => in_itv x B) xs).
    pose proof (at_most_one B (B :: t) xs (or_introl eq_refl) Hp) as H1.
    assert (H2 : (length (filter (fun x => negb (in_itv x B)) xs) <= length t)%nat).
    { apply IH.
      - intros x Hx. apply filter_In in Hx. destruct Hx as [Hx Hn]. specialize (Hm x Hx).
        cbn [mem existsb] in Hm. apply negb_true_iff in Hn. rewrite Hn in Hm. exact Hm.
      - apply FOP_filter.
        assert (Hweak : forall x y, ~ share (B :: t) x y -> ~ share t x y).
        { intros x y Hn [B' (HB' & H1' & H2')]. apply Hn. exists B'. split; [right; exact HB'|tauto]. }
        clear -Hp Hweak. induction Hp as [|x r Hx Hr IHr]; constructor; [|exact IHr].
        eapply Forall_impl; [|exact Hx]. intros y. apply Hweak. }
    cbn [length]. lia.
Qed.

(* ---------- the theorem ---------- *)

Section Full.
Variable cap : nat.
Hypothesis cap_gt1 : (1 < cap)%nat.

Lemma no_big_in_a self src A other :
  wf self -> wf src ->
  (* A is an interval of one operand; [other] is the other operand, with fewer than cap intervals *)
  (length other < cap)%nat ->
  ((In A self /\ other = src) \/ (In A src /\ other = self)) ->
  ~ big cap (S2 self src) (cell2 self src) A.
Proof.
  intros Hws Hwr Hlen Hside (xs & Hl & Hin & Hp).
  assert (Hle : (length xs <= length other)%nat).
  { apply pigeon.
    - intros x Hx. rewrite Forall_forall in Hin. destruct (Hin x Hx) as [_ HS]. unfold S2 in HS.
      apply andb_true_iff in HS. destruct Hside as [[_ ->]|[_ ->]]; tauto.
    - assert (Hall : forall x, In x xs -> in_itv x A = true) by (intros x Hx; rewrite Forall_forall in Hin; apply (Hin x Hx)).
      clear Hl Hin. induction Hp as [|x r Hx Hr IHr]; constructor.
      + rewrite Forall_forall in *. intros y Hy [B (HB & Bx & By)].
        destruct (Hx y Hy) as [Hn _]. apply Hn. unfold cell2.
        assert (Ax : in_itv x A = true) by (apply Hall; left; reflexivity).
        assert (Ay : in_itv y A = true) by (apply Hall; right; exact Hy).
        destruct Hside as [[HA ->]|[HA ->]].
        * split; [exists A; tauto|exists B; tauto].
        * split; [exists B; tauto|exists A; tauto].
      + apply IHr. intros z Hz. apply Hall. right. exact Hz. }
  lia.
Qed.

Theorem is_subset_of_sound a b :
  WF cap a -> WF cap b -> is_subset_of cap a b = Some true ->
  forall v, mem v a = true -> mem v b = true.
Proof.
  intros [Hwa Hla] [Hwb Hlb]. unfold is_subset_of, intersection.
  destruct (length b <=? length a)%nat eqn:Ecmp.
  - (* self = a, src = b *)
    destruct (inter_into cap a [] b) as [r|] eqn:Er; [|discriminate]. cbn [obind].
    intros [= E] v Hv. apply (ivs_eqb_eq cap cap_gt1) in E. subst r.
    destruct (inter_into_G2 cap cap_gt1 a b Hwa Hwb b (fun B H => H) Hwb [] a I (Forall_nil _) Er) as [Hg _].
    apply mem_in in Hv. destruct Hv as (A & HA & Av).
    rewrite Forall_forall in Hg. destruct (Hg A HA) as (_ & _ & _ & [Hex|Hbig]).
    + specialize (Hex v Av). unfold S2 in Hex. apply andb_true_iff in Hex. tauto.
    + exfalso. apply (no_big_in_a a b A b Hwa Hwb Hlb); [left; tauto|exact Hbig].
  - (* self = b, src = a *)
    destruct (inter_into cap b [] a) as [r|] eqn:Er; [|discriminate]. cbn [obind].
    intros [= E] v Hv. apply (ivs_eqb_eq cap cap_gt1) in E. subst r.
    destruct (inter_into_G2 cap cap_gt1 b a Hwb Hwa a (fun B H => H) Hwa [] a I (Forall_nil _) Er) as [Hg _].
    apply mem_in in Hv. destruct Hv as (A & HA & Av).
    rewrite Forall_forall in Hg. destruct (Hg A HA) as (_ & _ & _ & [Hex|Hbig]).
    + specialize (Hex v Av). unfold S2 in Hex. apply andb_true_iff in Hex. tauto.
    + exfalso. apply (no_big_in_a b a A b Hwb Hwa Hlb); [right; tauto|exact Hbig].
Qed.
End Full.
