From QV Require Import Intervals.Model Intervals.Proofs Fn.IntExpr.
From Coq Require Import ZifyBool.
Open Scope Z_scope.

(* ---------- monotone functions and boxes ---------- *)
Definition mono_on (g : Z -> Z) (a b : Z) : Prop :=
  (forall x y, a <= x -> x <= y -> y <= b -> g x <= g y) \/
  (forall x y, a <= x -> x <= y -> y <= b -> g y <= g x).

Lemma mono_bounds g a b v : mono_on g a b -> a <= v <= b ->
  Z.min (g a) (g b) <= g v <= Z.max (g a) (g b).
Proof.
  intros [H|H] Hv.
  - pose proof (H a v ltac:(lia) ltac:(lia) ltac:(lia)). pose proof (H v b ltac:(lia) ltac:(lia) ltac:(lia)). lia.
  - pose proof (H a v ltac:(lia) ltac:(lia) ltac:(lia)). pose proof (H v b ltac:(lia) ltac:(lia) ltac:(lia)). lia.
Qed.

(* the value at any point of a box lies between the smallest and the largest corner value *)
Lemma box_corners (f : Z -> Z -> Z) a1 a2 b1 b2 x y :
  (forall y0, b1 <= y0 <= b2 -> mono_on (fun x0 => f x0 y0) a1 a2) ->
  (forall x0, a1 <= x0 <= a2 -> mono_on (f x0) b1 b2) ->
  a1 <= x <= a2 -> b1 <= y <= b2 ->
  Z.min (Z.min (f a1 b1) (f a1 b2)) (Z.min (f a2 b1) (f a2 b2)) <= f x y <=
  Z.max (Z.max (f a1 b1) (f a1 b2)) (Z.max (f a2 b1) (f a2 b2)).
Proof.
  intros Hx Hy Hxr Hyr.
  pose proof (mono_bounds (fun x0 => f x0 y) a1 a2 x (Hx y Hyr) Hxr) as H1. cbn beta in H1.
  pose proof (mono_bounds (f a1) b1 b2 y (Hy a1 ltac:(lia)) Hyr) as H2.
  pose proof (mono_bounds (f a2) b1 b2 y (Hy a2 ltac:(lia)) Hyr) as H3.
  lia.
Qed.

Definition in_i64 (z : Z) : Prop := i64_min <= z <= i64_max.

Lemma sat_in z : in_i64 (sat z).
Proof. unfold in_i64, sat, i64_min, i64_max. lia. Qed.

Lemma sat_mono x y : x <= y -> sat x <= sat y.
Proof. unfold sat. lia. Qed.

(* sign conditions of a piece *)
Definition sign_ok (op : binop) (a1 a2 b1 b2 : Z) : Prop :=
  match op with
  | Mul => (0 <= a1 \/ a2 <= 0) /\ (0 <= b1 \/ b2 <= 0)
  | _ => True
  end.

Lemma bin_mono_l op a1 a2 b1 b2 : sign_ok op a1 a2 b1 b2 ->
  forall y0, b1 <= y0 <= b2 -> mono_on (fun x0 => bin_value op x0 y0) a1 a2.
Proof.
  intros Hs y0 Hy. destruct op; cbn [bin_value sign_ok] in *.
  - left. intros x y _ H _. cbn beta. apply sat_mono. lia.
  - left. intros x y _ H _. cbn beta. apply sat_mono. lia.
  - destruct Hs as [_ [Hb|Hb]].
    + left. intros x y _ H _. cbn beta. apply sat_mono. apply Z.mul_le_mono_nonneg_r; lia.
    + right. intros x y _ H _. cbn beta. apply sat_mono. apply Z.mul_le_mono_nonpos_r; lia.
  - left. intros x y _ H _. cbn beta. lia.
  - left. intros x y _ H _. cbn beta. lia.
  - left. intros x y _ H _. cbn beta. unfold b2z. destruct (y0 <? x) eqn:E1, (y0 <? y) eqn:E2; lia.
  - right. intros x y _ H _. cbn beta. unfold b2z. destruct (x <? y0) eqn:E1, (y <? y0) eqn:E2; lia.
  - left. intros x y _ H _. cbn beta. unfold b2z. destruct (y0 <=? x) eqn:E1, (y0 <=? y) eqn:E2; lia.
  - right. intros x y _ H _. cbn beta. unfold b2z. destruct (x <=? y0) eqn:E1, (y <=? y0) eqn:E2; lia.
Qed.

Lemma bin_mono_r op a1 a2 b1 b2 : sign_ok op a1 a2 b1 b2 ->
  forall x0, a1 <= x0 <= a2 -> mono_on (bin_value op x0) b1 b2.
Proof.
  intros Hs x0 Hx. destruct op; cbn [bin_value sign_ok] in *.
  - left. intros x y _ H _. cbn [bin_value]. apply sat_mono. lia.
  - right. intros x y _ H _. cbn [bin_value]. apply sat_mono. lia.
  - destruct Hs as [[Ha|Ha] _].
    + left. intros x y _ H _. cbn [bin_value]. apply sat_mono. apply Z.mul_le_mono_nonneg_l; lia.
    + right. intros x y _ H _. cbn [bin_value]. apply sat_mono. apply Z.mul_le_mono_nonpos_l; lia.
  - left. intros x y _ H _. cbn [bin_value]. lia.
  - left. intros x y _ H _. cbn [bin_value]. lia.
  - right. intros x y _ H _. cbn [bin_value]. unfold b2z. destruct (x <? x0) eqn:E1, (y <? x0) eqn:E2; lia.
  - left. intros x y _ H _. cbn [bin_value]. unfold b2z. destruct (x0 <? x) eqn:E1, (x0 <? y) eqn:E2; lia.
  - right. intros x y _ H _. cbn [bin_value]. unfold b2z. destruct (x <=? x0) eqn:E1, (y <=? x0) eqn:E2; lia.
  - left. intros x y _ H _. cbn [bin_value]. unfold b2z. destruct (x0 <=? x) eqn:E1, (x0 <=? y) eqn:E2; lia.
Qed.

Lemma box_image_sound op a b x y :
  sign_ok op (fst a) (snd a) (fst b) (snd b) ->
  in_itv x a = true -> in_itv y b = true ->
  in_itv (bin_value op x y) (box_image op a b) = true /\ fst (box_image op a b) <= snd (box_image op a b).
Proof.
  destruct a as [a1 a2], b as [b1 b2]. unfold in_itv; cbn [fst snd]. intros Hs Hx Hy.
  pose proof (box_corners (bin_value op) a1 a2 b1 b2 x y (bin_mono_l op a1 a2 b1 b2 Hs) (bin_mono_r op a1 a2 b1 b2 Hs)
                ltac:(lia) ltac:(lia)) as H.
  unfold box_image; cbn [fst snd minl maxl]. lia.
Qed.

(* ---------- collecting intervals in any order ---------- *)
Section Cap.
Variable cap : nat.
Hypothesis cap_gt1 : (1 < cap)%nat.

Lemma union_into_any src : forall acc, WF cap acc -> Forall (fun i => fst i <= snd i) src ->
  exists r, union_into cap acc src = Some r /\ WF cap r /\
    (forall v, mem v acc || existsb (in_itv v) src = true -> mem v r = true).
Proof.
  induction src as [|[mn mx] t IH]; intros acc Ha Hs; cbn [union_into].
  - exists acc. split; [reflexivity|]. split; [exact Ha|]. intros v. cbn. now rewrite orb_false_r.
  - inversion Hs as [|? ? Hle Ht]; subst. cbn [fst snd] in Hle.
    destruct (union_interval_total cap cap_gt1 acc mn mx Hle) as [a' Ea]. rewrite Ea. cbn [obind].
    pose proof (union_interval_WF cap cap_gt1 _ _ _ _ (proj1 Ha) Ea) as Ha'.
    destruct (IH a' Ha' Ht) as (r & Er & W & M).
    exists r. split; [exact Er|]. split; [exact W|].
    intros v Hv. apply M. cbn [existsb] in Hv.
    destruct (existsb (in_itv v) t); [now rewrite orb_true_r|]. rewrite orb_false_r in *.
    rewrite (union_interval_sound cap cap_gt1 _ _ _ _ v (proj1 Ha) Ea); auto.
Qed.

Lemma from_intervals_sound l : Forall (fun i => fst i <= snd i) l ->
  exists r, from_intervals cap l = Some r /\ WF cap r /\
    (forall v, existsb (in_itv v) l = true -> mem v r = true).
Proof.
  intros Hl. unfold from_intervals.
  destruct (union_into_any l [] (WF_nil cap cap_gt1) Hl) as (r & Er & W & M).
  exists r. split; [exact Er|]. split; [exact W|]. intros v Hv. apply M. exact Hv.
Qed.

(* a member of a set lies in one of its intervals *)
Lemma mem_interval v l : mem v l = true -> exists i, In i l /\ in_itv v i = true.
Proof. unfold mem. intros H. apply existsb_exists in H. exact H. Qed.

Lemma wf_intervals_in l i : wf l -> In i l -> fst i <= snd i.
Proof.
  induction l as [|[a b] t IH]; cbn; [tauto|]. intros (Hab & _ & Hw) [<-|Hi]; auto.
Qed.

(* sign conditions hold inside the quadrant pieces *)
Lemma in_piece_sign op p A B a b :
  In p (pieces op) ->
  (forall v, mem v A = true -> mem v (fst p) = true) ->
  (forall v, mem v B = true -> mem v (snd p) = true) ->
  wf A -> wf B -> In a A -> In b B ->
  sign_ok op (fst a) (snd a) (fst b) (snd b).
Proof.
  intros Hp HA HB WA WB Ha Hb. destruct op; cbn [sign_ok]; auto.
  pose proof (wf_intervals_in A a WA Ha) as La. pose proof (wf_intervals_in B b WB Hb) as Lb.
  assert (Ma1 : mem (fst a) A = true) by (apply existsb_exists; exists a; split; auto; unfold in_itv; lia).
  assert (Ma2 : mem (snd a) A = true) by (apply existsb_exists; exists a; split; auto; unfold in_itv; lia).
  assert (Mb1 : mem (fst b) B = true) by (apply existsb_exists; exists b; split; auto; unfold in_itv; lia).
  assert (Mb2 : mem (snd b) B = true) by (apply existsb_exists; exists b; split; auto; unfold in_itv; lia).
  apply HA in Ma1, Ma2. apply HB in Mb1, Mb2.
  cbn [pieces] in Hp. unfold nonneg, nonpos in Hp.
  destruct Hp as [<-|[<-|[<-|[<-|[]]]]]; cbn [fst snd mem existsb] in *; unfold in_itv in *; cbn [fst snd] in *; lia.
Qed.
End Cap.

(* ---------- everything produced from intervals inside [lo,hi] stays inside [lo,hi] ---------- *)
Definition within (lo hi : Z) (l : list (Z * Z)) : Prop := Forall (fun i => lo <= fst i /\ snd i <= hi) l.

Lemma within_mem lo hi l v : within lo hi l -> wf l -> mem v l = true -> lo <= v <= hi.
Proof.
  intros Hw _ Hm. apply existsb_exists in Hm as (i & Hi & Hv).
  unfold within in Hw. rewrite Forall_forall in Hw. specialize (Hw i Hi). unfold in_itv in Hv. lia.
Qed.

Lemma uni_within lo hi l : forall mn mx, within lo hi l -> lo <= mn -> mx <= hi -> within lo hi (uni l mn mx).
Proof.
  induction l as [|[a b] t IH]; intros mn mx Hw H1 H2; cbn [uni].
  - constructor; [cbn; lia|constructor].
  - inversion Hw as [|? ? Hab Ht]; subst. cbn [fst snd] in Hab.
    destruct (b <? mn); [constructor; [cbn; lia|apply IH; auto]|].
    destruct (mx <? a); [constructor; [cbn; lia|constructor; [cbn; lia|auto]]|].
    apply IH; auto; lia.
Qed.

Lemma last_within lo hi (t : list (Z * Z)) : forall d, within lo hi t -> lo <= fst d /\ snd d <= hi ->
  lo <= fst (last t d) /\ snd (last t d) <= hi.
Proof.
  induction t as [|x t IH]; intros d Hw Hd; [exact Hd|].
  inversion Hw; subst. rewrite last_cons. apply IH; auto.
Qed.

Lemma hull_within lo hi l : within lo hi l -> within lo hi (hull l).
Proof.
  destruct l as [|[a b] t]; intros Hw; cbn [hull]; [constructor|].
  inversion Hw as [|? ? Hab Ht]; subst. cbn [fst snd] in Hab.
  pose proof (last_within lo hi t (a, b) Ht ltac:(cbn; lia)) as [_ H].
  constructor; [cbn; lia|constructor].
Qed.

Lemma simplify_within cap lo hi l : within lo hi l -> within lo hi (simplify cap l).
Proof. unfold simplify. destruct (length l <? cap)%nat; auto using hull_within. Qed.

Lemma inter_within l : forall mn mx, mn <= mx -> within mn mx (inter l mn mx).
Proof.
  induction l as [|[a b] t IH]; intros mn mx H; cbn [inter]; [constructor|].
  destruct (b <? mn); [apply IH; exact H|]. destruct (mx <? a); [constructor|].
  constructor; [cbn; lia|apply IH; exact H].
Qed.

Lemma union_into_within cap lo hi src : forall acc r, within lo hi acc -> within lo hi src ->
  union_into cap acc src = Some r -> within lo hi r.
Proof.
  induction src as [|[mn mx] t IH]; intros acc r Ha Hs; cbn [union_into].
  - intros [= <-]. exact Ha.
  - inversion Hs as [|? ? Hm Ht]; subst. cbn [fst snd] in Hm.
    unfold union_interval. destruct (mn <=? mx); [|discriminate]. cbn [obind].
    apply IH; auto. apply simplify_within. apply uni_within; auto; lia.
Qed.

Lemma union_within cap lo hi a b r : within lo hi a -> within lo hi b -> union cap a b = Some r -> within lo hi r.
Proof.
  unfold union. intros Ha Hb. destruct (length b <=? length a)%nat; intros H.
  - exact (union_into_within cap lo hi b a r Ha Hb H).
  - exact (union_into_within cap lo hi a b r Hb Ha H).
Qed.

Lemma inter_into_within cap lo hi self src : forall acc r, within lo hi acc ->
  (within lo hi self \/ within lo hi src) -> Forall (fun i => fst i <= snd i) src ->
  inter_into cap self acc src = Some r -> within lo hi r.
Proof.
  induction src as [|[mn mx] t IH]; intros acc r Ha Hor Hle; cbn [inter_into].
  - intros [= <-]. exact Ha.
  - inversion Hle as [|? ? Hm Ht]; subst. cbn [fst snd] in Hm.
    unfold intersection_interval. destruct (mn <=? mx) eqn:E; [|discriminate]. cbn [obind].
    destruct (union cap acc (simplify cap (inter self mn mx))) as [a'|] eqn:Eu; [|discriminate]. cbn [obind].
    apply IH; auto.
    + eapply union_within; [exact Ha| |exact Eu]. apply simplify_within.
      destruct Hor as [Hself|Hsrc].
      * (* pieces of self stay inside self's bounds *)
        clear -Hself. induction self as [|[a b] s IHs]; cbn [inter]; [constructor|].
        inversion Hself as [|? ? Hab Hs']; subst. cbn [fst snd] in Hab.
        destruct (b <? mn); [apply IHs; exact Hs'|]. destruct (mx <? a); [constructor|].
        constructor; [cbn; lia|apply IHs; exact Hs'].
      * inversion Hsrc as [|? ? Hb _]; subst. cbn [fst snd] in Hb.
        pose proof (inter_within self mn mx ltac:(lia)) as Hi.
        unfold within in *. rewrite Forall_forall in *. intros i Hin. specialize (Hi i Hin). lia.
    + destruct Hor as [H|H]; [left; exact H|right; inversion H; auto].
Qed.

(* the intersection with a single interval stays inside that interval *)
Lemma intersection_within cap a lo hi r : wf a -> lo <= hi ->
  intersection cap a [(lo, hi)] = Some r -> within lo hi r.
Proof.
  intros Ha Hle. unfold intersection. destruct (length [(lo, hi)] <=? length a)%nat.
  - apply inter_into_within; [constructor|right; constructor; [cbn; lia|constructor]|constructor; [cbn; lia|constructor]].
  - apply inter_into_within; [constructor|left; constructor; [cbn; lia|constructor]|].
    clear -Ha. induction a as [|[x y] t IH]; constructor; cbn in Ha; [cbn; lia|apply IH; tauto].
Qed.

Section Sound.
Variable cap : nat.
Hypothesis cap_gt2 : (2 < cap)%nat.
Let cap_gt1 : (1 < cap)%nat. Proof. lia. Qed.

Lemma arg_set_ok e A : WF cap A -> WF cap (arg_set e A) /\ forall v, mem v (arg_set e A) = mem v A.
Proof.
  intros HA. unfold arg_set. destruct (expr_is_bool e); [|split; auto].
  unfold enum_bool. destruct A as [|[a b] [|i t]]; try (split; auto; fail).
  destruct (b =? a + 1) eqn:E; [|split; auto].
  split.
  - split; [cbn; lia|cbn; lia].
  - intros v. cbn. unfold in_itv; cbn. lia.
Qed.

Lemma WF_single lo hi : lo <= hi -> WF cap [(lo, hi)].
Proof. intros H. split; [cbn; lia|cbn; lia]. Qed.

Lemma piece_bounds op p : In p (pieces op) ->
  exists la ha lb hb, p = ([(la, ha)], [(lb, hb)]) /\ la <= ha /\ lb <= hb.
Proof.
  destruct op; cbn [pieces]; unfold full, nonneg, nonpos, i64_min, i64_max;
  intros H; repeat (destruct H as [<-|H]; [do 4 eexists; split; [reflexivity|lia]|]); destruct H.
Qed.

Lemma piece_cover op x y : in_i64 x -> in_i64 y ->
  exists p, In p (pieces op) /\ mem x (fst p) = true /\ mem y (snd p) = true.
Proof.
  unfold in_i64, i64_min, i64_max. intros Hx Hy.
  destruct op; cbn [pieces];
  try (exists (full, full); split; [left; reflexivity|]; unfold full, i64_min, i64_max; cbn; unfold in_itv; cbn; lia).
  destruct (Z_le_gt_dec 0 x), (Z_le_gt_dec 0 y).
  - exists (nonneg, nonneg). split; [left; reflexivity|]. unfold nonneg, i64_max; cbn; unfold in_itv; cbn; lia.
  - exists (nonneg, nonpos). split; [right; left; reflexivity|]. unfold nonneg, nonpos, i64_min, i64_max; cbn; unfold in_itv; cbn; lia.
  - exists (nonpos, nonneg). split; [right; right; left; reflexivity|]. unfold nonneg, nonpos, i64_min, i64_max; cbn; unfold in_itv; cbn; lia.
  - exists (nonpos, nonpos). split; [right; right; right; left; reflexivity|]. unfold nonpos, i64_min; cbn; unfold in_itv; cbn; lia.
Qed.

Lemma boxes_spec op A B :
  wf A -> wf B ->
  (forall a b, In a A -> In b B -> sign_ok op (fst a) (snd a) (fst b) (snd b)) ->
  Forall (fun i => fst i <= snd i) (boxes op A B) /\
  (forall x y, mem x A = true -> mem y B = true -> existsb (in_itv (bin_value op x y)) (boxes op A B) = true).
Proof.
  intros WA WB Hs. split.
  - unfold boxes. apply Forall_forall. intros i Hi. apply in_flat_map in Hi as (b & Hb & Hi).
    apply in_map_iff in Hi as (a & <- & Ha).
    pose proof (wf_intervals_in A a WA Ha). pose proof (wf_intervals_in B b WB Hb).
    apply (box_image_sound op a b (fst a) (fst b)); [apply Hs; auto|unfold in_itv; lia|unfold in_itv; lia].
  - intros x y Hx Hy. apply mem_interval in Hx as (a & Ha & Hxa). apply mem_interval in Hy as (b & Hb & Hyb).
    apply existsb_exists. exists (box_image op a b). split.
    + unfold boxes. apply in_flat_map. exists b. split; auto. apply (in_map (fun a0 => box_image op a0 b)). exact Ha.
    + apply box_image_sound; auto.
Qed.

Lemma all_boxes_spec op SA SB : WF cap SA -> WF cap SB ->
  forall ps, (forall p, In p ps -> In p (pieces op)) ->
  exists l, all_boxes cap op SA SB ps = Some l /\ Forall (fun i => fst i <= snd i) l /\
    (forall p x y, In p ps -> mem x SA = true -> mem y SB = true -> mem x (fst p) = true -> mem y (snd p) = true ->
       existsb (in_itv (bin_value op x y)) l = true).
Proof.
  intros HA HB. induction ps as [|p t IH]; intros Hps; cbn [all_boxes].
  - exists []. split; [reflexivity|]. split; [constructor|]. intros p x y [].
  - destruct (piece_bounds op p (Hps p (or_introl eq_refl))) as (la & ha & lb & hb & -> & Hla & Hlb).
    unfold piece_boxes. cbn [fst snd].
    destruct (intersection_sound cap cap_gt1 SA [(la, ha)] HA (WF_single la ha Hla)) as (A & EA & WA & MA).
    destruct (intersection_sound cap cap_gt1 SB [(lb, hb)] HB (WF_single lb hb Hlb)) as (B & EB & WB & MB).
    rewrite EA, EB. cbn [obind].
    destruct (IH (fun q Hq => Hps q (or_intror Hq))) as (l & El & Fl & Ml). rewrite El. cbn [obind].
    pose proof (intersection_within cap SA la ha A (proj1 HA) Hla EA) as WinA.
    pose proof (intersection_within cap SB lb hb B (proj1 HB) Hlb EB) as WinB.
    assert (Hsign : forall a b, In a A -> In b B -> sign_ok op (fst a) (snd a) (fst b) (snd b)).
    { intros a b Ha Hb.
      apply (in_piece_sign cap cap_gt1 op ([(la, ha)], [(lb, hb)]) A B a b); auto; [apply Hps; left; reflexivity| | |apply WA|apply WB].
      - intros v Hv. pose proof (within_mem la ha A v WinA (proj1 WA) Hv). cbn. unfold in_itv; cbn. lia.
      - intros v Hv. pose proof (within_mem lb hb B v WinB (proj1 WB) Hv). cbn. unfold in_itv; cbn. lia. }
    destruct (boxes_spec op A B (proj1 WA) (proj1 WB) Hsign) as [FB MBx].
    exists (boxes op A B ++ l). split; [reflexivity|]. split; [apply Forall_app; auto|].
    intros q x y [<-|Hq] Hx Hy Hpx Hpy; rewrite existsb_app.
    + cbn [fst snd] in Hpx, Hpy. rewrite MBx; [reflexivity|apply MA; now rewrite Hx, Hpx|apply MB; now rewrite Hy, Hpy].
    + rewrite (Ml q x y Hq Hx Hy Hpx Hpy). apply orb_true_r.
Qed.

(* range propagation of one binary function is sound, and total on well-formed arguments *)
Theorem bin_image_sound op SA SB x y : WF cap SA -> WF cap SB ->
  mem x SA = true -> mem y SB = true -> in_i64 x -> in_i64 y ->
  exists T, bin_image cap op SA SB = Some T /\ WF cap T /\ mem (bin_value op x y) T = true.
Proof.
  intros HA HB Hx Hy Ix Iy. unfold bin_image.
  destruct (all_boxes_spec op SA SB HA HB (pieces op) (fun p H => H)) as (l & El & Fl & Ml). rewrite El. cbn [obind].
  destruct (from_intervals_sound cap cap_gt1 l Fl) as (T & ET & WT & MT).
  exists T. split; [exact ET|]. split; [exact WT|]. apply MT.
  destruct (piece_cover op x y Ix Iy) as (p & Hp & Hpx & Hpy). eapply Ml; eauto.
Qed.

Lemma bin_value_in_i64 op x y : in_i64 x -> in_i64 y -> in_i64 (bin_value op x y).
Proof.
  unfold in_i64, i64_min, i64_max. intros Hx Hy. destruct op; cbn [bin_value]; unfold sat, b2z, i64_min, i64_max; try lia.
  - destruct (y <? x); lia.
  - destruct (x <? y); lia.
  - destruct (y <=? x); lia.
  - destruct (x <=? y); lia.
Qed.

Fixpoint consts_ok (e : expr) : Prop :=
  match e with
  | EVar _ => True
  | EConst z => in_i64 z
  | EBin _ l r => consts_ok l /\ consts_ok r
  end.

(* C06 for the integer expression language: whatever the expression evaluates to on a row of
   the input type lies in the propagated range, and propagation succeeds *)
Theorem expr_sound e : forall env tenv y,
  Forall2 (fun v S => WF cap S /\ mem v S = true /\ in_i64 v) env tenv -> consts_ok e ->
  eval env e = Some y ->
  exists T, image cap tenv e = Some T /\ WF cap T /\ mem y T = true /\ in_i64 y.
Proof.
  induction e as [n|z|op l IHl r IHr]; intros env tenv y Henv Hc He; cbn [eval image] in *.
  - clear Hc. revert n He. induction Henv as [|v S env' tenv' (W & M & I) Hrest IH]; intros [|n] He; cbn in *; try discriminate.
    + injection He as <-. exists S. auto.
    + apply IH. exact He.
  - injection He as <-. exists [(z, z)]. split; [reflexivity|]. split; [apply WF_single; lia|].
    split; [cbn; unfold in_itv; cbn; lia|exact Hc].
  - destruct Hc as [Hcl Hcr].
    destruct (eval env l) as [x|] eqn:El; [|discriminate]. destruct (eval env r) as [y'|] eqn:Er; [|discriminate].
    cbn [obind] in He. injection He as <-.
    destruct (IHl env tenv x Henv Hcl El) as (A & EA & WA & MA & IA).
    destruct (IHr env tenv y' Henv Hcr Er) as (B & EB & WB & MB & IB).
    rewrite EA, EB. cbn [obind].
    destruct (arg_set_ok l A WA) as [WA' MA']. destruct (arg_set_ok r B WB) as [WB' MB'].
    rewrite <- (MA' x) in MA. rewrite <- (MB' y') in MB.
    destruct (bin_image_sound op (arg_set l A) (arg_set r B) x y' WA' WB' MA MB IA IB) as (T & ET & WT & MT).
    exists T. split; [exact ET|]. split; [exact WT|]. split; [exact MT|]. now apply bin_value_in_i64.
Qed.
End Sound.
