(* C06 — model of range propagation for the integer expression language:
   PartitionnedMonotonic::{bivariate, piecewise_bivariate} of src/data_type/function.rs
   instantiated with the integer implementations of plus / minus / multiply (saturating),
   least / greatest and the four comparisons (booleans are 0 / 1, as Intervals<bool> orders
   false < true and Boolean -> Integer is b as i64), composed over expression trees as
   SuperImageVisitor / ValueVisitor of src/expr/mod.rs do. *)
From QV Require Import Intervals.Model.
Open Scope Z_scope.

Definition i64_min : Z := - 2 ^ 63.
Definition i64_max : Z := 2 ^ 63 - 1.
Definition sat (z : Z) : Z := Z.max i64_min (Z.min i64_max z).

Inductive binop := Plus | Minus | Mul | Least | Greatest | Gt | Lt | GtEq | LtEq.

Definition b2z (b : bool) : Z := if b then 1 else 0.

(* the closures of function.rs *)
Definition bin_value (op : binop) (x y : Z) : Z :=
  match op with
  | Plus => sat (x + y)          (* saturating_add *)
  | Minus => sat (x - y)         (* saturating_sub *)
  | Mul => sat (x * y)           (* saturating_mul *)
  | Least => Z.min x y
  | Greatest => Z.max x y
  | Gt => b2z (y <? x)
  | Lt => b2z (x <? y)
  | GtEq => b2z (y <=? x)
  | LtEq => b2z (x <=? y)
  end.

Definition full : list (Z * Z) := [(i64_min, i64_max)].
Definition nonneg : list (Z * Z) := [(0, i64_max)].     (* Integer::from_min(0) *)
Definition nonpos : list (Z * Z) := [(i64_min, 0)].     (* Integer::from_max(0) *)

(* the partitions on which the closure is declared monotonic *)
Definition pieces (op : binop) : list (list (Z * Z) * list (Z * Z)) :=
  match op with
  | Mul => [(nonneg, nonneg); (nonneg, nonpos); (nonpos, nonneg); (nonpos, nonpos)]
  | _ => [(full, full)]
  end.

Fixpoint minl (d : Z) (l : list Z) : Z := match l with [] => d | x :: t => Z.min x (minl d t) end.
Fixpoint maxl (d : Z) (l : list Z) : Z := match l with [] => d | x :: t => Z.max x (maxl d t) end.

(* one box: the closure on the four corners, sorted, first and last *)
Definition box_image (op : binop) (a b : Z * Z) : Z * Z :=
  let c1 := bin_value op (fst a) (fst b) in
  let cs := [bin_value op (fst a) (snd b); bin_value op (snd a) (fst b); bin_value op (snd a) (snd b)] in
  (minl c1 cs, maxl c1 cs).

(* the boxes are enumerated with the last argument outermost (itertools' multi_cartesian_product over the
   reversed terms): above the capacity the order decides which intervals are merged first *)
Definition boxes (op : binop) (A B : list (Z * Z)) : list (Z * Z) :=
  flat_map (fun b => map (fun a => box_image op a b) A) B.

(* super_image of one piece: intersect the argument sets with the piece, enumerate the boxes *)
Definition piece_boxes (cap : nat) (op : binop) (SA SB : list (Z * Z)) (p : list (Z * Z) * list (Z * Z))
  : option (list (Z * Z)) :=
  obind (intersection cap SA (fst p)) (fun A =>
  obind (intersection cap SB (snd p)) (fun B => Some (boxes op A B))).

Fixpoint all_boxes (cap : nat) (op : binop) (SA SB : list (Z * Z)) (ps : list (list (Z * Z) * list (Z * Z)))
  : option (list (Z * Z)) :=
  match ps with
  | [] => Some []
  | p :: t => obind (piece_boxes cap op SA SB p) (fun l => obind (all_boxes cap op SA SB t) (fun r => Some (l ++ r)))
  end.

(* the collected Intervals<U> *)
Definition bin_image (cap : nat) (op : binop) (SA SB : list (Z * Z)) : option (list (Z * Z)) :=
  obind (all_boxes cap op SA SB (pieces op)) (from_intervals cap).

Inductive expr := EVar (n : nat) | EConst (z : Z) | EBin (op : binop) (l r : expr).

Fixpoint eval (env : list Z) (e : expr) : option Z :=
  match e with
  | EVar n => nth_error env n
  | EConst z => Some z
  | EBin op l r => obind (eval env l) (fun x => obind (eval env r) (fun y => Some (bin_value op x y)))
  end.

Definition is_cmp (op : binop) : bool :=
  match op with Gt | Lt | GtEq | LtEq => true | _ => false end.
Definition expr_is_bool (e : expr) : bool :=
  match e with EBin op _ _ => is_cmp op | _ => false end.

(* A Boolean-typed argument is converted into the Integer domain by Base<Boolean,Integer>, whose
   image goes through into_values: bool[false true] becomes the two values {0}, {1} *)
Definition enum_bool (l : list (Z * Z)) : list (Z * Z) :=
  match l with
  | [(a, b)] => if b =? a + 1 then [(a, a); (b, b)] else l
  | _ => l
  end.
Definition arg_set (e : expr) (A : list (Z * Z)) : list (Z * Z) :=
  if expr_is_bool e then enum_bool A else A.

Fixpoint image (cap : nat) (tenv : list (list (Z * Z))) (e : expr) : option (list (Z * Z)) :=
  match e with
  | EVar n => nth_error tenv n
  | EConst z => Some [(z, z)]
  | EBin op l r =>
      obind (image cap tenv l) (fun A =>
      obind (image cap tenv r) (fun B => bin_image cap op (arg_set l A) (arg_set r B)))
  end.

(* sets of integers are compared up to the merging of adjacent integers ({0},{1} = [0 1]) *)
Fixpoint merge_adjacent (l : list (Z * Z)) : list (Z * Z) :=
  match l with
  | [] => []
  | (a, b) :: t =>
      match merge_adjacent t with
      | (c, d) :: t' => if c =? b + 1 then (a, d) :: t' else (a, b) :: (c, d) :: t'
      | [] => [(a, b)]
      end
  end.
