(* Model of src/hierarchy.rs: Hierarchy<T> = BTreeMap<Vec<String>, T> with lookup by
   exact path or by unambiguous suffix.  Path components are N (the harness numbers
   the strings; only equality of components is ever used).  The map is an
   association list; BTreeMap guarantees distinct keys (NoDup), and iteration order
   is shown irrelevant (get_perm). *)
From Coq Require Export List NArith Bool Lia Permutation.
Export ListNotations.

Definition path := list N.

Fixpoint path_eqb (p q : path) : bool :=
  match p, q with
  | [], [] => true
  | x :: p', y :: q' => N.eqb x y && path_eqb p' q'
  | _, _ => false
  end.

(* zip(...).all(==): compares the components both paths have *)
Fixpoint zip_all (p q : path) : bool :=
  match p, q with
  | x :: p', y :: q' => N.eqb x y && zip_all p' q'
  | _, _ => true
  end.

Definition is_prefix_of (l r : path) : bool := zip_all l r.
Definition is_suffix_of (l r : path) : bool := zip_all (rev l) (rev r).

Inductive found (A : Type) := Zero | One (a : A) | More.
Arguments Zero {A}. Arguments One {A} a. Arguments More {A}.

Section H.
Context {T : Type}.
Definition hier := list (path * T).

Definition found_step (p : path) (f : found (path * T)) (kv : path * T) : found (path * T) :=
  if is_suffix_of p (fst kv) then match f with Zero => One kv | _ => More end else f.

Definition get_key_value (h : hier) (p : path) : option (path * T) :=
  match find (fun kv => path_eqb (fst kv) p) h with
  | Some kv => Some kv
  | None =>
      match fold_left (found_step p) h Zero with
      | One kv => Some kv
      | _ => None
      end
  end.

Definition get (h : hier) (p : path) : option T := option_map snd (get_key_value h p).

Definition hfilter (h : hier) (p : path) : hier := filter (fun kv => is_prefix_of p (fst kv)) h.

Definition prepend (h : hier) (head : path) : hier := map (fun kv => (head ++ fst kv, snd kv)) h.
End H.

(* Hierarchy<P>::and_then: values are paths looked up in a second hierarchy *)
Definition and_then {T} (h : @hier path) (g : @hier T) : @hier T :=
  flat_map (fun kv => match get g (snd kv) with Some t => [(fst kv, t)] | None => [] end) h.
