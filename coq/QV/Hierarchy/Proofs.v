From QV Require Import Hierarchy.Model.

Lemma path_eqb_eq p : forall q, path_eqb p q = true <-> p = q.
Proof.
  induction p as [|x p IH]; intros [|y q]; cbn; split; try discriminate; auto.
  - intros H. apply andb_true_iff in H as [H1 H2]. apply N.eqb_eq in H1. apply IH in H2. congruence.
  - intros [= -> ->]. rewrite N.eqb_refl. cbn. now apply IH.
Qed.

(* zip_all compares exactly the positions both paths have *)
Lemma zip_all_spec p : forall q, zip_all p q = true <->
  (forall i, (i < Nat.min (length p) (length q))%nat -> nth_error p i = nth_error q i).
Proof.
  induction p as [|x p IH]; intros [|y q]; cbn [zip_all length Nat.min]; split; auto; try (intros _ i Hi; lia).
  - intros H i Hi. apply andb_true_iff in H as [H1 H2]. apply N.eqb_eq in H1. subst y.
    destruct i as [|i]; [reflexivity|]. cbn. apply (proj1 (IH q) H2). cbn in Hi. lia.
  - intros H. apply andb_true_iff. split.
    + specialize (H 0%nat ltac:(cbn; lia)). cbn in H. injection H as ->. apply N.eqb_refl.
    + apply IH. intros i Hi. apply (H (S i)). cbn. lia.
Qed.

(* "agrees on every trailing component they both have" *)
Definition agree (p k : path) : Prop :=
  forall i, (i < Nat.min (length p) (length k))%nat -> nth_error (rev p) i = nth_error (rev k) i.

Lemma is_suffix_of_agree p k : is_suffix_of p k = true <-> agree p k.
Proof. unfold is_suffix_of, agree. rewrite zip_all_spec, !rev_length. reflexivity. Qed.

Section H.
Context {T : Type}.
Notation hier := (list (path * T)).

Definition sfx (p : path) (kv : path * T) : bool := is_suffix_of p (fst kv).

Definition classify (l : hier) : found (path * T) :=
  match l with [] => Zero | [kv] => One kv | _ => More end.

Lemma fold_found p (h : hier) : forall f,
  fold_left (found_step p) h f =
  match f, filter (sfx p) h with
  | f, [] => f
  | Zero, l => classify l
  | _, _ => More
  end.
Proof.
  induction h as [|kv h IH]; intros f; cbn [fold_left filter].
  - destruct f; reflexivity.
  - rewrite IH. unfold found_step, sfx. destruct (is_suffix_of p (fst kv)) eqn:E.
    + destruct f; destruct (filter _ h) as [|c1 [|c2 l]]; reflexivity.
    + reflexivity.
Qed.

Lemma fold_found_zero p (h : hier) : fold_left (found_step p) h Zero = classify (filter (sfx p) h).
Proof. rewrite fold_found. destruct (filter (sfx p) h); reflexivity. Qed.

Definition keys (h : hier) := map fst h.

Lemma find_exact_none (h : hier) p :
  find (fun kv => path_eqb (fst kv) p) h = None <-> ~ In p (keys h).
Proof.
  induction h as [|[k v] h IH]; cbn; [tauto|].
  destruct (path_eqb k p) eqn:E.
  - apply path_eqb_eq in E. subst. split; [discriminate|tauto].
  - rewrite IH. split; [|tauto]. intros H [->|H']; [|tauto].
    assert (path_eqb p p = true) by now apply path_eqb_eq. congruence.
Qed.

Lemma find_exact_some (h : hier) p kv :
  find (fun kv => path_eqb (fst kv) p) h = Some kv -> In kv h /\ fst kv = p.
Proof.
  intros H. apply find_some in H as [H1 H2]. apply path_eqb_eq in H2. auto.
Qed.

Lemma NoDup_keys_unique (h : hier) kv kv' :
  NoDup (keys h) -> In kv h -> In kv' h -> fst kv = fst kv' -> kv = kv'.
Proof.
  induction h as [|[k v] h IH]; cbn; [tauto|]. intros Hn H1 H2 E.
  inversion Hn as [|? ? Hni Hn']; subst.
  destruct H1 as [<-|H1], H2 as [<-|H2]; auto.
  - exfalso. apply Hni. cbn in E. rewrite E. apply in_map. exact H2.
  - exfalso. apply Hni. cbn in E. rewrite <- E. apply in_map. exact H1.
Qed.

(* exact match wins *)
Theorem get_exact (h : hier) p v :
  NoDup (keys h) -> In (p, v) h -> get_key_value h p = Some (p, v).
Proof.
  intros Hn Hi. unfold get_key_value.
  destruct (find _ h) as [kv|] eqn:E.
  - apply find_exact_some in E as [E1 E2]. f_equal.
    apply (NoDup_keys_unique h kv (p, v) Hn E1 Hi). exact E2.
  - apply find_exact_none in E. exfalso. apply E. change p with (fst (p, v)). apply in_map. exact Hi.
Qed.

(* full characterisation of a successful lookup *)
Theorem get_spec (h : hier) p kv : NoDup (keys h) ->
  (get_key_value h p = Some kv <->
   In kv h /\ (fst kv = p \/
               (~ In p (keys h) /\ agree p (fst kv) /\
                forall kv', In kv' h -> agree p (fst kv') -> kv' = kv))).
Proof.
  intros Hn. unfold get_key_value. destruct (find _ h) as [kv0|] eqn:E.
  - pose proof (find_exact_some _ _ _ E) as [E1 E2]. split.
    + intros [= <-]. auto.
    + intros [Hi [Hk|(Hnot & _)]].
      * f_equal. apply (NoDup_keys_unique h kv0 kv Hn E1 Hi). congruence.
      * exfalso. apply Hnot. rewrite <- E2. apply in_map. exact E1.
  - pose proof (proj1 (find_exact_none _ _) E) as Hnot.
    rewrite fold_found_zero.
    destruct (filter (sfx p) h) as [|a [|b l]] eqn:F; cbn [classify].
    + split; [discriminate|]. intros [Hi [Hk|(_ & Ha & _)]].
      * exfalso. apply Hnot. rewrite <- Hk. apply in_map. exact Hi.
      * assert (In kv (filter (sfx p) h)) by (apply filter_In; split; auto; now apply is_suffix_of_agree).
        rewrite F in H. destruct H.
    + assert (Ha : In a h /\ sfx p a = true) by (apply filter_In; rewrite F; left; reflexivity).
      split.
      * intros [= <-]. split; [tauto|]. right. split; [exact Hnot|]. split; [apply is_suffix_of_agree; tauto|].
        intros kv' Hi' Hag. assert (In kv' (filter (sfx p) h)) by (apply filter_In; split; auto; now apply is_suffix_of_agree).
        rewrite F in H. destruct H as [H|[]]. auto.
      * intros [Hi [Hk|(_ & Hag & Hu)]].
        -- exfalso. apply Hnot. rewrite <- Hk. apply in_map. exact Hi.
        -- f_equal. apply Hu; [tauto|]. apply is_suffix_of_agree. tauto.
    + split; [discriminate|]. intros [Hi [Hk|(_ & Hag & Hu)]].
      * exfalso. apply Hnot. rewrite <- Hk. apply in_map. exact Hi.
      * exfalso.
        assert (Ha : In a h /\ sfx p a = true) by (apply filter_In; rewrite F; left; reflexivity).
        assert (Hb : In b h /\ sfx p b = true) by (apply filter_In; rewrite F; right; left; reflexivity).
        assert (a = kv) by (apply Hu; [tauto|apply is_suffix_of_agree; tauto]).
        assert (b = kv) by (apply Hu; [tauto|apply is_suffix_of_agree; tauto]).
        subst a b.
        (* kv occurs twice in a filtered sub-list of a list with distinct keys *)
        assert (Hnd : NoDup (filter (sfx p) h)).
        { apply NoDup_filter. clear -Hn. induction h as [|[k v] h IH]; [constructor|].
          inversion Hn; subst. constructor; auto. intros Hin. apply H1. change k with (fst (k, v)). apply in_map. exact Hin. }
        rewrite F in Hnd. inversion Hnd; subst. apply H1. left. reflexivity.
Qed.

(* several candidates and no exact key: nothing is bound *)
Theorem ambiguous_never_bound (h : hier) p kv1 kv2 :
  ~ In p (keys h) -> In kv1 h -> In kv2 h -> kv1 <> kv2 ->
  agree p (fst kv1) -> agree p (fst kv2) -> get_key_value h p = None.
Proof.
  intros Hnot H1 H2 Hne A1 A2. unfold get_key_value.
  rewrite (proj2 (find_exact_none _ _) Hnot). rewrite fold_found_zero.
  destruct (filter (sfx p) h) as [|a [|b l]] eqn:F; cbn [classify]; auto.
  exfalso.
  assert (I1 : In kv1 (filter (sfx p) h)) by (apply filter_In; split; auto; now apply is_suffix_of_agree).
  assert (I2 : In kv2 (filter (sfx p) h)) by (apply filter_In; split; auto; now apply is_suffix_of_agree).
  rewrite F in I1, I2. destruct I1 as [<-|[]], I2 as [<-|[]]. auto.
Qed.

Theorem no_candidate_none (h : hier) p :
  ~ In p (keys h) -> (forall kv, In kv h -> ~ agree p (fst kv)) -> get_key_value h p = None.
Proof.
  intros Hnot Hno. unfold get_key_value.
  rewrite (proj2 (find_exact_none _ _) Hnot). rewrite fold_found_zero.
  destruct (filter (sfx p) h) as [|a l] eqn:F; cbn [classify]; auto.
  exfalso. assert (Ha : In a h /\ sfx p a = true) by (apply filter_In; rewrite F; left; reflexivity).
  apply (Hno a); [tauto|]. apply is_suffix_of_agree. tauto.
Qed.

(* the answer does not depend on the order in which the map is traversed / was filled *)
Theorem get_perm (h h' : hier) p : NoDup (keys h) -> Permutation h h' ->
  get_key_value h p = get_key_value h' p.
Proof.
  intros Hn Hp.
  assert (Hn' : NoDup (keys h')) by (eapply Permutation_NoDup; [apply Permutation_map; exact Hp|exact Hn]).
  destruct (get_key_value h p) as [kv|] eqn:E.
  - symmetry. apply (get_spec h' p kv Hn'). apply (get_spec h p kv Hn) in E.
    destruct E as [Hi Hc]. split; [eapply Permutation_in; eauto|].
    destruct Hc as [Hk|(Hnot & Ha & Hu)]; [left; exact Hk|right].
    split; [intros Hin; apply Hnot; eapply Permutation_in; [apply Permutation_sym, Permutation_map; exact Hp|exact Hin]|].
    split; auto. intros kv' Hi'. apply Hu. eapply Permutation_in; [apply Permutation_sym; exact Hp|exact Hi'].
  - destruct (get_key_value h' p) as [kv|] eqn:E'; [|reflexivity].
    apply (get_spec h' p kv Hn') in E'.
    assert (X : get_key_value h p = Some kv).
    { apply (get_spec h p kv Hn). destruct E' as [Hi Hc]. apply Permutation_sym in Hp.
      split; [eapply Permutation_in; eauto|].
      destruct Hc as [Hk|(Hnot & Ha & Hu)]; [left; exact Hk|right].
      split; [intros Hin; apply Hnot; eapply Permutation_in; [apply Permutation_map, Permutation_sym; exact Hp|exact Hin]|].
      split; auto. intros kv' Hi'. apply Hu. eapply Permutation_in; [apply Permutation_sym; exact Hp|exact Hi']. }
    congruence.
Qed.

Theorem hfilter_spec (h : hier) p kv :
  In kv (hfilter h p) <-> In kv h /\ is_prefix_of p (fst kv) = true.
Proof. unfold hfilter. apply filter_In. Qed.

End H.
