From QV Require Import Rel.Unique.
From Coq Require Import Lia.

Section P.
Context {V : Type}.
Variable is_bij : string -> bool.
Variable interp : string -> V -> V.      (* the meaning of a unary function on column values *)

Definition injective_on (f : V -> V) (l : list V) : Prop :=
  forall x y, In x l -> In y l -> f x = f y -> x = y.

(* apply the stripped functions, innermost first, to a value *)
Fixpoint apply_chain (fs : list string) (v : V) : V :=
  match fs with
  | [] => v
  | f :: t => interp f (apply_chain t v)
  end.

Lemma NoDup_map_inj (g : V -> V) (l : list V) : injective_on g l -> NoDup l -> NoDup (map g l).
Proof.
  induction l as [|a l IH]; intros Hg Hn; cbn; [constructor|].
  inversion Hn as [|? ? Ha Hl]; subst. constructor.
  - intros Hin. apply in_map_iff in Hin as (b & Hb & Hbl). apply Ha.
    assert (b = a) by (apply Hg; [right; exact Hbl|left; reflexivity|exact Hb]). now subst.
  - apply IH; auto. intros x y Hx Hy. apply Hg; right; assumption.
Qed.

(* every function of the chain is injective on the values it is applied to *)
Fixpoint chain_injective (fs : list string) (l : list V) : Prop :=
  match fs with
  | [] => True
  | f :: t => chain_injective t l /\ injective_on (interp f) (map (apply_chain t) l)
  end.

(* the non-null values of a column declared unique because its projection reduces, modulo
   value-preserving functions, to a unique input column, are pairwise distinct *)
Theorem chain_unique (fs : list string) (l : list V) :
  chain_injective fs l -> NoDup l -> NoDup (map (apply_chain fs) l).
Proof.
  induction fs as [|f t IH]; intros Hc Hn; cbn [apply_chain chain_injective] in *.
  - now rewrite map_id.
  - destruct Hc as [Ht Hf]. specialize (IH Ht Hn).
    replace (map (fun v => interp f (apply_chain t v)) l) with (map (interp f) (map (apply_chain t) l)) by now rewrite map_map.
    apply NoDup_map_inj; assumption.
Qed.

(* the chain only contains functions the code lists as bijections *)
Fixpoint chain_all_bij (e : uexpr) : Forall (fun f => is_bij f = true) (chain is_bij e).
Proof.
  destruct e as [n|f args|]; cbn [chain]; try constructor.
  destruct args as [|a rest]; [constructor|]. destruct (is_bij f) eqn:E; [|constructor].
  constructor; [exact E|]. apply chain_all_bij.
Qed.
End P.
