From QV Require Import Rel.Track.
Open Scope Z_scope.

Lemma unit_eqb_some a u : unit_eqb a (Some u) = true <-> a = Some u.
Proof.
  destruct a as [x|]; cbn; [|split; discriminate].
  rewrite Z.eqb_eq. split; [intros ->; reflexivity|intros H; injection H; auto].
Qed.

Lemma filter_filter_comm {A} (p q : A -> bool) l : filter p (filter q l) = filter q (filter p l).
Proof.
  induction l as [|x t IH]; cbn [filter]; [reflexivity|].
  destruct (p x) eqn:Hp, (q x) eqn:Hq; cbn [filter]; rewrite ?Hp, ?Hq, IH; reflexivity.
Qed.

Lemma filter_ext_in' {A} (p q : A -> bool) l : (forall x, In x l -> p x = q x) -> filter p l = filter q l.
Proof.
  induction l as [|x t IH]; intros H; cbn [filter]; [reflexivity|].
  rewrite (H x (or_introl eq_refl)), IH; [reflexivity|]. intros y Hy. apply H. right. exact Hy.
Qed.

Lemma filter_id {A} (p : A -> bool) l : (forall x, In x l -> p x = true) -> filter p l = l.
Proof.
  induction l as [|x t IH]; intros H; cbn [filter]; [reflexivity|].
  rewrite (H x (or_introl eq_refl)), IH; [reflexivity|]. intros y Hy. apply H. right. exact Hy.
Qed.

Lemma filter_map_comm {A B} (f : A -> B) (p : B -> bool) l : filter p (map f l) = map f (filter (fun x => p (f x)) l).
Proof.
  induction l as [|x t IH]; cbn [filter map]; [reflexivity|].
  destruct (p (f x)); cbn [map]; rewrite IH; reflexivity.
Qed.

(* rows produced from a row keep its unit: the restriction goes through flat_map *)
Lemma restrict_flat_map {A} (F : A -> list trow) (un : A -> option Z) u l :
  (forall r o, In o (F r) -> fst o = un r) ->
  restrict u (flat_map F l) = flat_map F (filter (fun r => unit_eqb (un r) (Some u)) l).
Proof.
  intros HF. induction l as [|x t IH]; cbn [flat_map filter]; [reflexivity|].
  unfold restrict in *. rewrite filter_app, IH.
  destruct (unit_eqb (un x) (Some u)) eqn:Hx.
  - cbn [flat_map]. f_equal. apply filter_id. intros o Ho. rewrite (HF x o Ho). exact Hx.
  - rewrite <- app_nil_l. f_equal.
    assert (H : forall o, In o (F x) -> unit_eqb (fst o) (Some u) = false)
      by (intros o Ho; rewrite (HF x o Ho); exact Hx).
    induction (F x) as [|o os IHo]; cbn [filter]; [reflexivity|].
    rewrite (H o (or_introl eq_refl)). apply IHo. intros o' Ho'. apply H. right. exact Ho'.
Qed.

Lemma flat_map_ext_in {A B} (F G : A -> list B) l : (forall x, In x l -> F x = G x) -> flat_map F l = flat_map G l.
Proof.
  induction l as [|x t IH]; intros H; cbn [flat_map]; [reflexivity|].
  rewrite (H x (or_introl eq_refl)), IH; [reflexivity|]. intros y Hy. apply H. right. exact Hy.
Qed.

(* a flat_map that only reads rows passing c can run on the filtered list *)
Lemma flat_map_filter {A B} (F : A -> list B) (c : A -> bool) l :
  (forall x, c x = false -> F x = []) -> flat_map F l = flat_map F (filter c l).
Proof.
  intros H. induction l as [|x t IH]; cbn [flat_map filter]; [reflexivity|].
  destruct (c x) eqn:Hc; cbn [flat_map]; rewrite IH; [reflexivity|]. rewrite (H x Hc). reflexivity.
Qed.

Lemma restrict_join g u l1 l2 :
  restrict u (join_rows true g l1 l2) = join_rows true g (restrict u l1) (restrict u l2).
Proof.
  unfold join_rows. rewrite (restrict_flat_map _ (fun r => fst r)).
  - fold (restrict u l1). apply flat_map_ext_in. intros r1 Hr1.
    apply filter_In in Hr1. destruct Hr1 as [_ Hu]. apply unit_eqb_some in Hu.
    unfold restrict. apply flat_map_filter. intros r2 Hc. cbn [negb orb]. rewrite Hu.
    destruct (unit_eqb (Some u) (fst r2)) eqn:He; [|reflexivity].
    exfalso. destruct (fst r2) as [y|]; cbn in He, Hc; [|discriminate].
    rewrite Z.eqb_sym in He. congruence.
  - intros r o Ho. apply in_flat_map in Ho. destruct Ho as [r2 [_ Ho]].
    destruct (negb true || unit_eqb (fst r) (fst r2)); [|destruct Ho].
    destruct (g (snd r) (snd r2)); [|destruct Ho]. destruct Ho as [<-|[]]. reflexivity.
Qed.

Lemma restrict_join_pub pub g u l : restrict u (join_pub pub g l) = join_pub pub g (restrict u l).
Proof.
  unfold join_pub. rewrite (restrict_flat_map _ (fun r => fst r)); [reflexivity|].
  intros r o Ho. apply in_flat_map in Ho. destruct Ho as [q [_ Ho]].
  destruct (g (snd r) q); [|destruct Ho]. destruct Ho as [<-|[]]. reflexivity.
Qed.

Lemma ou_eqb_refl a : ou_eqb a a = true.
Proof. destruct a; cbn; [apply Z.eqb_refl|reflexivity]. Qed.

Lemma gkey_eqb_eq a b : gkey_eqb a b = true <-> a = b.
Proof.
  destruct a as [a1 a2], b as [b1 b2]. unfold gkey_eqb. cbn [fst snd]. rewrite andb_true_iff, Z.eqb_eq.
  split.
  - intros [H1 ->]. f_equal. destruct a1, b1; cbn in H1; try discriminate; [apply Z.eqb_eq in H1; subst|]; reflexivity.
  - intros H. injection H as -> ->. split; [apply ou_eqb_refl|reflexivity].
Qed.

Lemma dedupk_In k l : In k (dedupk l) -> In k l.
Proof.
  revert k. induction l as [|x t IH]; intros k H; cbn [dedupk] in H; [exact H|].
  destruct H as [<-|H]; [left; reflexivity|]. apply filter_In in H. right. apply IH. tauto.
Qed.

(* dedupk commutes with a filter *)
Lemma dedupk_filter (p : gkey -> bool) l : filter p (dedupk l) = dedupk (filter p l).
Proof.
  induction l as [|k t IH]; cbn [dedupk filter]; [reflexivity|].
  destruct (p k) eqn:Hp; cbn [dedupk].
  - f_equal. rewrite filter_filter_comm, IH. reflexivity.
  - rewrite filter_filter_comm, IH. apply filter_id. intros k' Hk'.
    apply dedupk_In in Hk'. apply filter_In in Hk'. destruct Hk' as [_ Hpk'].
    destruct (gkey_eqb k k') eqn:He; [|reflexivity]. apply gkey_eqb_eq in He. subst. congruence.
Qed.

Lemma restrict_reduce key agg u l :
  restrict u (reduce true key agg l) = reduce true key agg (restrict u l).
Proof.
  unfold reduce, restrict. rewrite filter_map_comm. cbn [fst group_unit].
  rewrite (dedupk_filter (fun k => unit_eqb (fst k) (Some u))).
  rewrite <- (filter_map_comm (gk true key) (fun k => unit_eqb (fst k) (Some u))).
  cbn [gk fst].
  apply map_ext_in. intros k Hk.
  assert (Hu : unit_eqb (fst k) (Some u) = true).
  { apply dedupk_In in Hk. apply filter_In in Hk. tauto. }
  assert (Hrows : filter (fun r => gkey_eqb (gk true key r) k) l =
                  filter (fun r => gkey_eqb (gk true key r) k) (filter (fun r => unit_eqb (fst r) (Some u)) l)).
  { rewrite filter_filter_comm. symmetry. apply filter_id. intros r Hr.
    apply filter_In in Hr. destruct Hr as [_ Hr]. apply gkey_eqb_eq in Hr. subst k. exact Hu. }
  rewrite <- Hrows. reflexivity.
Qed.

Lemma existsb_restrict r u l :
  unit_eqb (fst r) (Some u) = true -> existsb (trow_eqb r) l = existsb (trow_eqb r) (restrict u l).
Proof.
  intros Hr. induction l as [|x t IH]; cbn [existsb restrict filter]; [reflexivity|].
  fold (restrict u t). destruct (unit_eqb (fst x) (Some u)) eqn:Hx; cbn [existsb]; rewrite IH; [reflexivity|].
  replace (trow_eqb r x) with false; [reflexivity|]. symmetry. unfold trow_eqb.
  apply unit_eqb_some in Hr. rewrite Hr. destruct (fst x) as [y|]; cbn in *; [|reflexivity].
  rewrite Z.eqb_sym, Hx. reflexivity.
Qed.

(* every operator of the fragment commutes with the restriction to a unit *)
Theorem tracking_local e : skel_ok (skel_of e) = true ->
  forall db u, restrict u (eval db e) = eval (restrict_db u db) e.
Proof.
  induction e as [n|f lim e IH|p e IH|keep pub g alone e IH|pq g e1 IH1 e2 IH2|e1 IH1 e2 IH2|keep e1 IH1 e2 IH2|b key agg e IH];
    cbn [skel_of skel_ok eval]; intros Hok db u.
  - reflexivity.
  - destruct lim as [k|]; cbn in Hok; [discriminate|].
    rewrite <- (IH Hok). unfold restrict. rewrite filter_map_comm. reflexivity.
  - rewrite <- (IH Hok). unfold restrict. apply filter_filter_comm.
  - destruct keep; cbn in Hok; [discriminate|]. rewrite !app_nil_r.
    rewrite <- (IH Hok). apply restrict_join_pub.
  - apply andb_true_iff in Hok. destruct Hok as [Hok H2]. apply andb_true_iff in Hok. destruct Hok as [Hq H1].
    subst pq. rewrite <- (IH1 H1), <- (IH2 H2). apply restrict_join.
  - apply andb_true_iff in Hok. destruct Hok as [H1 H2].
    rewrite <- (IH1 H1), <- (IH2 H2). unfold restrict. apply filter_app.
  - apply andb_true_iff in Hok. destruct Hok as [H1 H2].
    rewrite <- (IH1 H1), <- (IH2 H2). unfold restrict at 1. rewrite filter_filter_comm.
    unfold restrict at 2. apply filter_ext_in'. intros r Hr. apply filter_In in Hr. destruct Hr as [_ Hr].
    rewrite (existsb_restrict r u _ Hr). reflexivity.
  - apply andb_true_iff in Hok. destruct Hok as [Hb H1]. subst b.
    rewrite <- (IH H1). apply restrict_reduce.
Qed.

(* ... and every row carries a unit when the source rows do *)
Definition all_units (l : list trow) : Prop := forall r, In r l -> fst r <> None.

Theorem tracking_units e : skel_ok (skel_of e) = true ->
  forall db, (forall n, all_units (db n)) -> all_units (eval db e).
Proof.
  induction e as [n|f lim e IH|p e IH|keep pub g alone e IH|pq g e1 IH1 e2 IH2|e1 IH1 e2 IH2|keep e1 IH1 e2 IH2|b key agg e IH];
    cbn [skel_of skel_ok eval]; intros Hok db Hdb r Hr.
  - exact (Hdb n r Hr).
  - destruct lim as [k|]; cbn in Hok; [discriminate|].
    apply in_map_iff in Hr. destruct Hr as [r0 [<- Hr0]]. cbn [fst]. exact (IH Hok db Hdb r0 Hr0).
  - apply filter_In in Hr. exact (IH Hok db Hdb r (proj1 Hr)).
  - destruct keep; cbn in Hok; [discriminate|]. rewrite app_nil_r in Hr.
    unfold join_pub in Hr. apply in_flat_map in Hr. destruct Hr as [r0 [Hr0 Hr]].
    apply in_flat_map in Hr. destruct Hr as [q [_ Hr]].
    destruct (g (snd r0) q); [|destruct Hr]. destruct Hr as [<-|[]]. cbn [fst]. exact (IH Hok db Hdb r0 Hr0).
  - apply andb_true_iff in Hok. destruct Hok as [Hok H2]. apply andb_true_iff in Hok. destruct Hok as [_ H1].
    unfold join_rows in Hr. apply in_flat_map in Hr. destruct Hr as [r1 [Hr1 Hr]].
    apply in_flat_map in Hr. destruct Hr as [r2 [_ Hr]].
    destruct (negb pq || unit_eqb (fst r1) (fst r2)); [|destruct Hr].
    destruct (g (snd r1) (snd r2)); [|destruct Hr]. destruct Hr as [<-|[]]. cbn [fst]. exact (IH1 H1 db Hdb r1 Hr1).
  - apply andb_true_iff in Hok. destruct Hok as [H1 H2]. apply in_app_or in Hr.
    destruct Hr as [Hr|Hr]; [exact (IH1 H1 db Hdb r Hr)|exact (IH2 H2 db Hdb r Hr)].
  - apply andb_true_iff in Hok. destruct Hok as [H1 _]. apply filter_In in Hr. exact (IH1 H1 db Hdb r (proj1 Hr)).
  - apply andb_true_iff in Hok. destruct Hok as [Hb H1]. subst b.
    unfold reduce in Hr. apply in_map_iff in Hr. destruct Hr as [k [<- Hk]]. cbn [fst group_unit].
    apply dedupk_In in Hk. apply in_map_iff in Hk. destruct Hk as [r0 [<- Hr0]]. cbn [gk fst].
    exact (IH H1 db Hdb r0 Hr0).
Qed.

(* the three shapes outside the fragment are not local *)
Definition db2 : nat -> list trow := fun _ => [(Some 1, [10]); (Some 2, [20])].

Lemma limit_refuted : exists e db u,
  skel_of e = SMap true SSrc /\ restrict u (eval db e) <> eval (restrict_db u db) e.
Proof. exists (TMap (fun p => p) (Some 1%nat) (TSrc 0)), db2, 2. split; [reflexivity|]. vm_compute. discriminate. Qed.

Lemma join_without_unit_refuted : exists e db u,
  skel_of e = SJoin false SSrc SSrc /\ restrict u (eval db e) <> eval (restrict_db u db) e.
Proof.
  exists (TJoin false (fun a b => Some (a ++ b)) (TSrc 0) (TSrc 0)), db2, 1.
  split; [reflexivity|]. vm_compute. discriminate.
Qed.

Lemma reduce_without_unit_refuted : exists e db u,
  skel_of e = SReduce false SSrc /\ restrict u (eval db e) <> eval (restrict_db u db) e.
Proof.
  exists (TReduce false (fun _ => 0) (fun l => [Z.of_nat (length l)]) (TSrc 0)), db2, 1.
  split; [reflexivity|]. vm_compute. discriminate.
Qed.

Lemma outer_public_refuted : exists e db,
  skel_of e = SJoinPub true SSrc /\ (forall n, all_units (db n)) /\ ~ all_units (eval db e).
Proof.
  exists (TJoinPub true [[7]] (fun _ _ => None) (fun q => q) (TSrc 0)), db2.
  split; [reflexivity|]. split.
  - intros n r [<-|[<-|[]]]; discriminate.
  - intros H. apply (H (None, [7])); [vm_compute; left; reflexivity|reflexivity].
Qed.
