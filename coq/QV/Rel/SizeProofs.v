From QV Require Import Rel.Size.
From Coq Require Import ZifyBool Psatz.
Open Scope Z_scope.

Lemma size_hi_bound e : sizes_ok e = true -> snd (size_of (skeleton e)) <= i64_max /\ 0 <= snd (size_of (skeleton e)) \/ True.
Proof. right. exact I. Qed.

Lemma card_nonneg e m : card e m -> 0 <= m.
Proof. induction 1; lia. Qed.

(* every execution returns a number of rows inside the declared size interval *)
Theorem size_sound e : forall m, sizes_ok e = true -> join_ok e = true -> reduce_ok e = true ->
  card e m -> fst (size_of (skeleton e)) <= m <= snd (size_of (skeleton e)).
Proof.
  induction e as [s|l o i IH|g i IH|k ul ur l IHl r IHr|op all l IHl r IHr]; intros m Hs Hj Hr Hc;
    cbn [skeleton size_of sizes_ok join_ok reduce_ok fst snd] in *.
  - inversion Hc; subst. lia.
  - inversion Hc as [|? ? ? n ? Hi Hm0 Hm Hl| | | |]; subst.
    apply andb_true_iff in Hs as [Hs Hl']. apply andb_true_iff in Hs as [Hs Ho].
    specialize (IH n Hs Hj Hr Hi). pose proof (card_nonneg _ _ Hi) as Hn.
    destruct o as [x|]; destruct l as [y|]; cbn [fst snd]; try (specialize (Hl y eq_refl)); lia.
  - apply andb_true_iff in Hr as [Hg Hr].
    inversion Hc as [| |? n ? Hi Hm|? n Hi| |]; subst.
    + specialize (IH n Hs Hj Hr Hi). cbn [fst snd]. lia.
    + specialize (IH n Hs Hj Hr Hi). cbn [fst snd]. cbn in Hg. lia.
  - apply andb_true_iff in Hs as [Hsl Hsr]. apply andb_true_iff in Hr as [Hrl Hrr].
    apply andb_true_iff in Hj as [Hj Hjr]. apply andb_true_iff in Hj as [Hk Hjl].
    inversion Hc as [| | | |? ? ? ? ? a b ? Ha Hb Hm0 Hmx (p & x & y & Hx & Hy & Hp & Hur & Hul & Hm)|]; subst.
    specialize (IHl a Hsl Hjl Hrl Ha). specialize (IHr b Hsr Hjr Hrr Hb). cbn [fst snd].
    pose proof (card_nonneg _ _ Ha) as Ha0. pose proof (card_nonneg _ _ Hb) as Hb0.
    set (A := snd (size_of (skeleton l))) in *. set (B := snd (size_of (skeleton r))) in *.
    split; [lia|].
    destruct (ul || ur) eqn:Eu.
    + (* a unique flag: bound max(A, B) *)
      destruct k; cbn in Hk; destruct ul, ur; cbn in *; try discriminate;
        repeat match goal with H : true = true -> _ |- _ => specialize (H eq_refl) end; try lia.
    + apply orb_false_iff in Eu as [-> ->]. unfold sat_mul. cbn in Hk.
      assert (HAB : a * b <= A * B) by nia.
      destruct k; cbn in Hk.
      * nia.
      * assert (1 <= B) by lia. assert ((a - x) * (b - y) + x <= A * B) by nia. lia.
      * assert (1 <= A) by lia. assert ((a - x) * (b - y) + y <= A * B) by nia. lia.
      * assert (2 <= A /\ 2 <= B) as [HA2 HB2] by lia.
        assert ((a - x) * (b - y) + x + y <= A * B).
        { destruct (Z.eq_dec x a) as [->|Hxa]; [nia|]. destruct (Z.eq_dec y b) as [->|Hyb]; [nia|]. nia. }
        lia.
      * nia.
  - apply andb_true_iff in Hs as [Hsl Hsr]. apply andb_true_iff in Hr as [Hrl Hrr]. apply andb_true_iff in Hj as [Hjl Hjr].
    inversion Hc as [| | | | |? ? ? ? a b ? Ha Hb Hm0 Hmx Hop]; subst.
    specialize (IHl a Hsl Hjl Hrl Ha). specialize (IHr b Hsr Hjr Hrr Hb).
    destruct op; cbn [size_of fst snd]; unfold sat_add; lia.
Qed.

(* Join::size is not sound for an outer join whose key is flagged unique on the preserved... the
   witness of the design: 5 rows with a unique key LEFT-joined... here RIGHT OUTER of a 20-row table
   with a unique key and a 1000-row table (the pinned test expects int[0 1000]; 1019 rows are possible) *)
Theorem join_size_outer_refuted : exists e m,
  sizes_ok e = true /\ reduce_ok e = true /\ card e m /\ snd (size_of (skeleton e)) < m.
Proof.
  exists (EJoin JFull true false (ETable (0, 5)) (ETable (0, 2))), 6.
  split; [reflexivity|]. split; [reflexivity|]. split; [|vm_compute; reflexivity].
  apply (CJoin JFull true false (ETable (0, 5)) (ETable (0, 2)) 5 2 6).
  - constructor; cbn; lia.
  - constructor; cbn; lia.
  - lia.
  - unfold i64_max. lia.
  - (* the two right rows match the same left row: 2 pairs, 4 left rows without a match *)
    exists 2, 4, 0. repeat split; try lia; intros; try discriminate; lia.
Qed.
