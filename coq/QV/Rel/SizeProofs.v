From QV Require Import Rel.Size.
From Coq Require Import ZifyBool Psatz.
Open Scope Z_scope.

Lemma size_hi_bound e : sizes_ok e = true -> snd (size_of (skeleton e)) <= i64_max /\ 0 <= snd (size_of (skeleton e)) \/ True.
Proof. right. exact I. Qed.

Lemma card_nonneg e m : card e m -> 0 <= m.
Proof. induction 1; lia. Qed.

(* every execution returns a number of rows inside the declared size interval *)
Theorem size_sound e : forall m, sizes_ok e = true -> join_ok e = true ->
  card e m -> fst (size_of (skeleton e)) <= m <= snd (size_of (skeleton e)).
Proof.
  induction e as [s|l o i IH|g i IH|k ul ur l IHl r IHr|op all l IHl r IHr]; intros m Hs Hj Hc;
    cbn [skeleton size_of sizes_ok join_ok fst snd] in *.
  - inversion Hc; subst. lia.
  - inversion Hc as [|? ? ? n ? Hi Hm0 Hm Hl| | | |]; subst.
    apply andb_true_iff in Hs as [Hs Hl']. apply andb_true_iff in Hs as [Hs Ho].
    specialize (IH n Hs Hj Hi). pose proof (card_nonneg _ _ Hi) as Hn.
    destruct o as [x|]; destruct l as [y|]; cbn [fst snd]; try (specialize (Hl y eq_refl)); lia.
  - inversion Hc as [| |? n ? Hi Hm|? n Hi| |]; subst.
    + specialize (IH n Hs Hj Hi). cbn [fst snd]. lia.
    + specialize (IH n Hs Hj Hi). cbn [fst snd]. lia.
  - apply andb_true_iff in Hs as [Hsl Hsr].
    apply andb_true_iff in Hj as [Hj Hjr]. apply andb_true_iff in Hj as [Hk Hjl].
    inversion Hc as [| | | |? ? ? ? ? a b ? Ha Hb Hm0 Hmx (p & x & y & Hx & Hy & Hp & Hur & Hul & Hm)|]; subst.
    specialize (IHl a Hsl Hjl Ha). specialize (IHr b Hsr Hjr Hb). cbn [fst snd].
    pose proof (card_nonneg _ _ Ha) as Ha0. pose proof (card_nonneg _ _ Hb) as Hb0.
    set (A := snd (size_of (skeleton l))) in *. set (B := snd (size_of (skeleton r))) in *.
    split; [lia|].
    destruct (ul || ur) eqn:Eu.
    + (* a unique flag: bound max(A, B) *)
      destruct k; cbn in Hk; destruct ul, ur; cbn in *; try discriminate;
        repeat match goal with H : true = true -> _ |- _ => specialize (H eq_refl) end; try lia.
    + apply orb_false_iff in Eu as [-> ->]. unfold sat_mul, sat_add.
      assert (HAB : a * b <= A * B) by nia.
      assert (Hpp : p <= (a - x) * b) by nia.
      assert (Hpq : p <= a * (b - y)) by nia.
      destruct k.
      * nia.
      * (* left rows without a match are preserved: (a - x) b + x <= max (a b) a *)
        destruct (Z.eq_dec b 0) as [->|Hb1]; [nia|]. assert ((a - x) * b + x <= a * b) by nia. lia.
      * destruct (Z.eq_dec a 0) as [->|Ha1]; [nia|]. assert (a * (b - y) + y <= a * b) by nia. lia.
      * (* bilinear in (x, y): the largest value is at a corner of the box *)
        assert ((a - x) * (b - y) + x + y <= a * b \/ (a - x) * (b - y) + x + y <= a + b).
        { destruct (Z.eq_dec x a) as [->|Hxa]; [right; nia|]. destruct (Z.eq_dec y b) as [->|Hyb]; [right; nia|].
          destruct (Z_le_gt_dec (a + b) (a * b)); [left|right]; nia. }
        lia.
      * nia.
  - apply andb_true_iff in Hs as [Hsl Hsr]. apply andb_true_iff in Hj as [Hjl Hjr].
    inversion Hc as [| | | | |? ? ? ? a b ? Ha Hb Hm0 Hmx Hop]; subst.
    specialize (IHl a Hsl Hjl Ha). specialize (IHr b Hsr Hjr Hb).
    destruct op; cbn [size_of fst snd]; unfold sat_add; lia.
Qed.

(* Join::size is not sound for an outer join whose key is flagged unique on a preserved side: the
   pinned test test_build_join_with_unique_constraint expects int[0 1000] for a FULL / RIGHT OUTER join
   of a 1000-row table with a 20-row table carrying the unique key; 1019 rows are possible *)
Theorem join_size_outer_refuted : exists e m,
  sizes_ok e = true /\ card e m /\ snd (size_of (skeleton e)) < m.
Proof.
  exists (EJoin JFull true false (ETable (0, 5)) (ETable (0, 2))), 6.
  split; [reflexivity|]. split; [|vm_compute; reflexivity].
  apply (CJoin JFull true false (ETable (0, 5)) (ETable (0, 2)) 5 2 6).
  - constructor; cbn; lia.
  - constructor; cbn; lia.
  - lia.
  - unfold i64_max. lia.
  - (* the two right rows match the same left row: 2 pairs, 4 left rows without a match *)
    exists 2, 4, 0. repeat split; try lia; intros; try discriminate; lia.
Qed.

Lemma no_flags_join_ok e : no_flags e = true -> join_ok e = true.
Proof.
  induction e as [s|l o i IH|g i IH|k ul ur l IHl r IHr|op all l IHl r IHr]; cbn [no_flags join_ok]; intros H; auto.
  - apply andb_true_iff in H as [H Hr]. apply andb_true_iff in H as [Hu Hl].
    rewrite (IHl Hl), (IHr Hr). apply negb_true_iff, orb_false_iff in Hu as [-> ->]. destruct k; reflexivity.
  - apply andb_true_iff in H as [Hl Hr]. rewrite (IHl Hl), (IHr Hr). reflexivity.
Qed.

Theorem size_sound_no_flags e m : sizes_ok e = true -> no_flags e = true ->
  card e m -> fst (size_of (skeleton e)) <= m <= snd (size_of (skeleton e)).
Proof. intros Hs Hn. apply size_sound; [exact Hs|apply no_flags_join_ok; exact Hn]. Qed.
