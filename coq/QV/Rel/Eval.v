(* C07 — a row-level evaluator of relational expressions over concrete tables: the number of rows it
   returns meets the abstract cardinality semantics [card] of Rel/Size.v, so the size theorem holds
   of executions, not of a definition. *)
From QV Require Export Rel.Rows.
Open Scope Z_scope.

Definition row_dec : forall a b : list (option Z), {a = b} + {a <> b}.
Proof. decide equality. decide equality. apply Z.eq_dec. Defined.
Definition memb (r : row) (l : list row) : bool := if in_dec row_dec r l then true else false.

Fixpoint remove_one (r : row) (l : list row) : list row :=
  match l with [] => [] | x :: l' => if row_dec r x then l' else x :: remove_one r l' end.
(* multiset difference and intersection (EXCEPT ALL, INTERSECT ALL) *)
Definition except_all (L R : list row) : list row := fold_left (fun acc r => remove_one r acc) R L.
Fixpoint intersect_all (L R : list row) : list row :=
  match L with
  | [] => []
  | l :: L' => if memb l R then l :: intersect_all L' (remove_one l R) else intersect_all L' R
  end.

Definition set_rows (op : setop) (all : bool) (L R : list row) : list row :=
  match op, all with
  | SUnion, true => L ++ R
  | SUnion, false => nodup row_dec (L ++ R)
  | SExcept, true => except_all L R
  | SExcept, false => nodup row_dec (filter (fun x => negb (memb x R)) L)
  | SIntersect, true => intersect_all L R
  | SIntersect, false => nodup row_dec (filter (fun x => memb x R) L)
  end.

(* relational expressions with their data and the meaning of their expressions as functions *)
Inductive rexp :=
| XTable (size : Z * Z) (rows : list row)
| XMap (flt : row -> bool) (proj : row -> row) (limit offset : option Z) (input : rexp)
| XReduce (key : option (row -> row)) (agg : list row -> row) (input : rexp)      (* None: no GROUP BY *)
| XJoin (k : jkind) (uleft uright : bool) (on : row -> row -> bool) (nl nr : nat) (left right : rexp)
| XSet (op : setop) (all : bool) (left right : rexp).

Definition opt_nat (o : option Z) (d : nat) : nat := match o with Some x => Z.to_nat x | None => d end.

Fixpoint rows_of (e : rexp) : list row :=
  match e with
  | XTable _ rows => rows
  | XMap f p lim off i =>
      (* ORDER BY only permutes the rows before the window is cut *)
      let rows := map p (filter f (rows_of i)) in
      let rows := skipn (opt_nat off 0) rows in
      match lim with Some x => firstn (Z.to_nat x) rows | None => rows end
  | XReduce None agg i => [agg (rows_of i)]
  | XReduce (Some key) agg i =>
      let rows := rows_of i in
      map (fun k => k ++ agg (filter (fun r => if row_dec (key r) k then true else false) rows)) (nodup row_dec (map key rows))
  | XJoin k _ _ P nl nr l r => join_rows P k nl nr (rows_of l) (rows_of r)
  | XSet op all l r => set_rows op all (rows_of l) (rows_of r)
  end.

Fixpoint erase (e : rexp) : erel :=
  match e with
  | XTable s _ => ETable s
  | XMap _ _ lim off i => EMap lim off (erase i)
  | XReduce key _ i => EReduce (match key with Some _ => true | None => false end) (erase i)
  | XJoin k ul ur _ _ _ l r => EJoin k ul ur (erase l) (erase r)
  | XSet op all l r => ESet op all (erase l) (erase r)
  end.

(* conforming data, windows given as non-negative numbers (they are usize), unique flags that mean what
   they say, row counts that fit in an i64 *)
Fixpoint wf (e : rexp) : Prop :=
  match e with
  | XTable s rows => fst s <= Z.of_nat (length rows) <= snd s
  | XMap _ _ lim off i => wf i /\ (forall x, lim = Some x -> 0 <= x) /\ (forall x, off = Some x -> 0 <= x)
  | XReduce _ _ i => wf i
  | XJoin k ul ur P nl nr l r =>
      wf l /\ wf r /\
      (ur = true -> forall x, In x (rows_of l) -> (length (filter (P x) (rows_of r)) <= 1)%nat) /\
      (ul = true -> forall y, In y (rows_of r) -> (length (filter (fun x => P x y) (rows_of l)) <= 1)%nat) /\
      Z.of_nat (length (join_rows P k nl nr (rows_of l) (rows_of r))) <= i64_max
  | XSet op all l r => wf l /\ wf r /\ Z.of_nat (length (set_rows op all (rows_of l) (rows_of r))) <= i64_max
  end.
