(* C07 — model of the size intervals computed by Map::size, Reduce::size, Join::size, Set::size
   (src/relation/mod.rs) and a cardinality semantics of the relational operators. *)
From Coq Require Export List ZArith Bool Lia.
Export ListNotations.
Open Scope Z_scope.

Definition i64_max : Z := 2 ^ 63 - 1.
Definition sat_add (x y : Z) : Z := Z.min i64_max (x + y).
Definition sat_mul (x y : Z) : Z := Z.min i64_max (x * y).   (* on non-negative sizes *)

Inductive setop := SUnion | SExcept | SIntersect.

Inductive jkind := JInner | JLeft | JRight | JFull | JCross.

Inductive rel :=
| RTable (size : Z * Z)
| RMap (limit offset : option Z) (input : rel)
| RReduce (grouped : bool) (input : rel)            (* has grouping keys *)
| RJoin (k : jkind) (uleft uright : bool) (left right : rel)   (* the join key carries a unique flag on that side *)
| RSet (op : setop) (left right : rel).

Fixpoint size_of (r : rel) : Z * Z :=
  match r with
  | RTable s => s
  | RMap limit offset i =>
      let mx := snd (size_of i) in
      let mx := match offset with Some o => Z.max 0 (mx - o) | None => mx end in
      (0, match limit with Some l => Z.min l mx | None => mx end)
  | RReduce g i => (0, if g then snd (size_of i) else Z.max 1 (snd (size_of i)))
  | RJoin k ul ur l r =>
      let a := snd (size_of l) in let b := snd (size_of r) in
      (* a unique flag: max of the two sides; otherwise the product, or the rows an outer join
         preserves when they have no match *)
      (0, if ul || ur then Z.max a b
          else Z.max (sat_mul a b)
                 match k with JLeft => a | JRight => b | JFull => sat_add a b | JInner | JCross => 0 end)
  | RSet SUnion l r => (0, sat_add (snd (size_of l)) (snd (size_of r)))
  | RSet SExcept l r => (0, snd (size_of l))
  | RSet SIntersect l r => (0, Z.min (snd (size_of l)) (snd (size_of r)))
  end.

(* every node, in the order the harness walks the relation (node, then inputs) *)
Fixpoint sizes (r : rel) : list (Z * Z) :=
  size_of r :: match r with
               | RTable _ => []
               | RMap _ _ i | RReduce _ i => sizes i
               | RJoin _ _ _ l r' | RSet _ l r' => sizes l ++ sizes r'
               end.

(* ---------- what executions can return ---------- *)
(* a relation with the facts the cardinality depends on: join kind and on which side the join key is
   unique, whether a reduce has grouping keys *)
Inductive erel :=
| ETable (size : Z * Z)
| EMap (limit offset : option Z) (input : erel)
| EReduce (grouped : bool) (input : erel)
| EJoin (k : jkind) (uleft uright : bool) (left right : erel)
| ESet (op : setop) (all : bool) (left right : erel).

Fixpoint skeleton (e : erel) : rel :=
  match e with
  | ETable s => RTable s
  | EMap l o i => RMap l o (skeleton i)
  | EReduce g i => RReduce g (skeleton i)
  | EJoin k ul ur l r => RJoin k ul ur (skeleton l) (skeleton r)
  | ESet op _ l r => RSet op (skeleton l) (skeleton r)
  end.

(* the possible numbers of rows, by the bag semantics of SQL (every count fits in an i64) *)
Inductive card : erel -> Z -> Prop :=
| CTable s n : fst s <= n <= snd s -> 0 <= n -> card (ETable s) n
| CMap l o i n m : card i n -> 0 <= m ->
    m <= Z.max 0 (n - match o with Some x => x | None => 0 end) ->
    (forall x, l = Some x -> m <= x) -> card (EMap l o i) m
| CReduceG i n m : card i n -> 0 <= m <= n -> card (EReduce true i) m     (* at most one row per input row *)
| CReduceU i n : card i n -> card (EReduce false i) 1                     (* no GROUP BY: exactly one row *)
| CJoin k ul ur l r a b m : card l a -> card r b -> 0 <= m -> m <= i64_max ->
    (* x, y: left / right rows without a match; p: matched pairs (between the a - x matched left rows and
       the b - y matched right rows; one pair per row of a side whose key is unique on the other side) *)
    (exists p x y, 0 <= x <= a /\ 0 <= y <= b /\ 0 <= p <= (a - x) * (b - y) /\
       (ur = true -> p <= a - x) /\ (ul = true -> p <= b - y) /\
       m = p + match k with JLeft | JFull => x | _ => 0 end
             + match k with JRight | JFull => y | _ => 0 end) ->
    card (EJoin k ul ur l r) m
| CSet op all l r a b m : card l a -> card r b -> 0 <= m -> m <= i64_max ->
    match op with SUnion => m <= a + b | SExcept => m <= a | SIntersect => m <= a /\ m <= b end ->
    card (ESet op all l r) m.

(* the shapes for which Join::size is sound: on an outer join a unique flag helps only when every
   preserved row has at most one match, i.e. when it sits on the side the join does not preserve
   (the pinned test test_build_join_with_unique_constraint fixes max(left, right) for the others) *)
Fixpoint join_ok (e : erel) : bool :=
  match e with
  | ETable _ => true
  | EMap _ _ i | EReduce _ i => join_ok i
  | EJoin k ul ur l r =>
      match k with
      | JInner | JCross => true
      | JLeft => ur || negb ul
      | JRight => ul || negb ur
      | JFull => negb (ul || ur)
      end && join_ok l && join_ok r
  | ESet _ _ l r => join_ok l && join_ok r
  end.

Fixpoint sizes_ok (e : erel) : bool :=
  match e with
  | ETable s => (0 <=? fst s) && (snd s <=? i64_max)
  | EMap l o i => sizes_ok i && match o with Some x => 0 <=? x | None => true end && match l with Some x => 0 <=? x | None => true end
  | EReduce _ i => sizes_ok i
  | EJoin _ _ _ l r | ESet _ _ l r => sizes_ok l && sizes_ok r
  end.

(* no join key carries a unique flag *)
Fixpoint no_flags (e : erel) : bool :=
  match e with
  | ETable _ => true
  | EMap _ _ i | EReduce _ i => no_flags i
  | EJoin _ ul ur l r => negb (ul || ur) && no_flags l && no_flags r
  | ESet _ _ l r => no_flags l && no_flags r
  end.
