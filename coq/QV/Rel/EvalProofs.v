From QV Require Import Rel.Eval Rel.RowsProofs Rel.SizeProofs.
Open Scope Z_scope.

Lemma nodup_len {A} (d : forall a b : A, {a = b} + {a <> b}) l : (length (nodup d l) <= length l)%nat.
Proof. apply NoDup_incl_length; [apply NoDup_nodup|]. intros x Hx. apply nodup_In in Hx. exact Hx. Qed.

Lemma filter_len {A} (f : A -> bool) l : (length (filter f l) <= length l)%nat.
Proof. induction l as [|x l IH]; cbn; [lia|]. destruct (f x); cbn; lia. Qed.

Lemma remove_one_len r l : (length (remove_one r l) <= length l)%nat.
Proof. induction l as [|x l IH]; cbn; [lia|]. destruct (row_dec r x); cbn; lia. Qed.

Lemma remove_one_in r l : In r l -> S (length (remove_one r l)) = length l.
Proof.
  induction l as [|x l IH]; cbn; [tauto|]. intros H. destruct (row_dec r x) as [->|Hn]; [reflexivity|].
  cbn. f_equal. apply IH. destruct H as [->|H]; [congruence|exact H].
Qed.

Lemma except_all_len L R : (length (except_all L R) <= length L)%nat.
Proof.
  unfold except_all. revert L. induction R as [|r R IH]; intros L; cbn; [lia|].
  etransitivity; [apply IH|apply remove_one_len].
Qed.

Lemma memb_in r l : memb r l = true <-> In r l.
Proof. unfold memb. destruct (in_dec row_dec r l); split; auto; discriminate. Qed.

Lemma intersect_all_len L R : (length (intersect_all L R) <= length L)%nat /\ (length (intersect_all L R) <= length R)%nat.
Proof.
  revert R. induction L as [|l L IH]; intros R; cbn; [lia|].
  destruct (memb l R) eqn:E.
  - apply memb_in in E. pose proof (remove_one_in l R E). destruct (IH (remove_one l R)). cbn. lia.
  - destruct (IH R). lia.
Qed.

Lemma set_rows_len op all L R :
  let m := length (set_rows op all L R) in
  match op with
  | SUnion => (m <= length L + length R)%nat
  | SExcept => (m <= length L)%nat
  | SIntersect => (m <= length L)%nat /\ (m <= length R)%nat
  end.
Proof.
  destruct op, all; cbn.
  - rewrite app_length. lia.
  - etransitivity; [apply nodup_len|]. rewrite app_length. lia.
  - apply except_all_len.
  - etransitivity; [apply nodup_len|apply filter_len].
  - apply intersect_all_len.
  - split; [etransitivity; [apply nodup_len|apply filter_len]|].
    apply NoDup_incl_length; [apply NoDup_nodup|]. intros x Hx. apply nodup_In in Hx. apply filter_In in Hx as [_ Hx].
    apply memb_in. exact Hx.
Qed.

(* the rows the evaluator returns are counted by the abstract cardinality semantics *)
Theorem eval_card e : wf e -> card (erase e) (Z.of_nat (length (rows_of e))).
Proof.
  induction e as [s rows|f p lim off i IH|key agg i IH|k ul ur P nl nr l IHl r IHr|op all l IHl r IHr]; cbn [wf erase rows_of].
  - intros H. constructor; lia.
  - intros (Hi & Hlim & Hoff). apply (CMap lim off (erase i) _ _ (IH Hi)); [lia| |].
    + (* the window starts after the offset *)
      assert (Hlen : (length (skipn (opt_nat off 0) (map p (filter f (rows_of i)))) <= length (rows_of i) - opt_nat off 0)%nat).
      { rewrite skipn_length, map_length. pose proof (filter_len f (rows_of i)). lia. }
      assert (Hfin : (length (match lim with Some x => firstn (Z.to_nat x) (skipn (opt_nat off 0) (map p (filter f (rows_of i)))) | None => skipn (opt_nat off 0) (map p (filter f (rows_of i))) end)
                      <= length (rows_of i) - opt_nat off 0)%nat).
      { destruct lim; [rewrite firstn_length|]; lia. }
      destruct off as [o|]; cbn [opt_nat] in *; [specialize (Hoff o eq_refl)|]; lia.
    + intros x ->. specialize (Hlim x eq_refl). rewrite firstn_length. lia.
  - intros Hi. destruct key as [key|].
    + apply (CReduceG (erase i) _ _ (IH Hi)). rewrite map_length. split; [lia|].
      pose proof (nodup_len row_dec (map key (rows_of i))). rewrite map_length in H. lia.
    + apply (CReduceU (erase i) _ (IH Hi)).
  - intros (Hl & Hr & Hur & Hul & Hmax). apply join_rows_card; auto.
  - intros (Hl & Hr & Hmax). apply (CSet op all (erase l) (erase r) _ _ _ (IHl Hl) (IHr Hr)); [lia|exact Hmax|].
    pose proof (set_rows_len op all (rows_of l) (rows_of r)) as H. cbn zeta in H. destruct op; lia.
Qed.

(* C07, size half, on executions: the number of rows the evaluator returns lies in the declared interval *)
Theorem eval_size_sound e : wf e -> sizes_ok (erase e) = true -> join_ok (erase e) = true ->
  fst (size_of (skeleton (erase e))) <= Z.of_nat (length (rows_of e)) <= snd (size_of (skeleton (erase e))).
Proof. intros Hw Hs Hj. apply size_sound; [exact Hs|exact Hj|apply eval_card; exact Hw]. Qed.
