(* Model of privacy-unit tracking (src/privacy_unit_tracking/mod.rs: PrivacyUnitTracking::{table, map,
   join, join_left_published, join_right_published, reduce, set}).

   A tracked row is (privacy unit, payload); the unit is [None] for SQL NULL.  A tracked expression
   is built from the operators the rewriting produces; each carries the structural facts the
   harness reads off the rewritten relation (the skeleton): whether a Map has a LIMIT, whether a
   join of two tracked relations equates the units, whether an outer join preserves its public
   side, whether a Reduce groups by the unit.  Payload functions, join conditions and aggregates
   are arbitrary. *)
From Coq Require Export List ZArith Bool Lia.
Export ListNotations.
Open Scope Z_scope.

Notation payload := (list Z) (only parsing).
Notation trow := (option Z * list Z)%type (only parsing).

Definition unit_eqb (a b : option Z) : bool :=
  match a, b with Some x, Some y => x =? y | _, _ => false end.

Fixpoint pay_eqb (a b : payload) : bool :=
  match a, b with
  | [], [] => true
  | x :: a', y :: b' => (x =? y) && pay_eqb a' b'
  | _, _ => false
  end.

Definition trow_eqb (a b : trow) : bool := unit_eqb (fst a) (fst b) && pay_eqb (snd a) (snd b).

Inductive texpr :=
| TSrc (n : nat)
| TMap (f : payload -> payload) (lim : option nat) (e : texpr)
| TFilter (p : payload -> bool) (e : texpr)
| TJoinPub (keep_pub : bool) (pub : list payload) (g : payload -> payload -> option payload) (alone : payload -> payload) (e : texpr)
| TJoin (pu_eq : bool) (g : payload -> payload -> option payload) (e1 e2 : texpr)
| TUnion (e1 e2 : texpr)
| TSetOp (keep : bool) (e1 e2 : texpr)
| TReduce (by_unit : bool) (key : payload -> Z) (agg : list payload -> payload) (e : texpr).

(* group keys in order of first occurrence *)
Definition gkey := (option Z * Z)%type.
Definition ou_eqb (a b : option Z) : bool :=
  match a, b with Some x, Some y => x =? y | None, None => true | _, _ => false end.
Definition gkey_eqb (a b : gkey) : bool := ou_eqb (fst a) (fst b) && (snd a =? snd b).
Fixpoint dedupk (l : list gkey) : list gkey :=
  match l with
  | [] => []
  | k :: t => k :: filter (fun k' => negb (gkey_eqb k k')) (dedupk t)
  end.

Definition gk (by_unit : bool) (key : payload -> Z) (r : trow) : gkey :=
  (if by_unit then fst r else None, key (snd r)).

(* the unit attached to a group: its own when grouped by unit; otherwise the rows of several
   units are aggregated together and the group carries the unit of its first row *)
Definition group_unit (by_unit : bool) (k : gkey) (rows : list trow) : option Z :=
  if by_unit then fst k else match rows with r :: _ => fst r | [] => None end.

Definition reduce (by_unit : bool) (key : payload -> Z) (agg : list payload -> payload) (l : list trow) : list trow :=
  map (fun k => let rows := filter (fun r => gkey_eqb (gk by_unit key r) k) l in
                (group_unit by_unit k rows, agg (map snd rows)))
      (dedupk (map (gk by_unit key) l)).

Definition join_rows (pu_eq : bool) (g : payload -> payload -> option payload) (l1 l2 : list trow) : list trow :=
  flat_map (fun r1 =>
    flat_map (fun r2 =>
      if negb pu_eq || unit_eqb (fst r1) (fst r2)
      then match g (snd r1) (snd r2) with Some o => [(fst r1, o)] | None => [] end
      else []) l2) l1.

Definition join_pub (pub : list payload) (g : payload -> payload -> option payload) (l : list trow) : list trow :=
  flat_map (fun r => flat_map (fun q => match g (snd r) q with Some o => [(fst r, o)] | None => [] end) pub) l.

(* rows of the public side without a partner, kept by an outer join: no unit *)
Definition pub_alone (pub : list payload) (g : payload -> payload -> option payload) (alone : payload -> payload) (l : list trow) : list trow :=
  map (fun q => (None, alone q))
      (filter (fun q => negb (existsb (fun r => match g (snd r) q with Some _ => true | None => false end) l)) pub).

Fixpoint eval (db : nat -> list trow) (e : texpr) : list trow :=
  match e with
  | TSrc n => db n
  | TMap f lim e =>
      let r := map (fun r => (fst r, f (snd r))) (eval db e) in
      match lim with Some k => firstn k r | None => r end
  | TFilter p e => filter (fun r => p (snd r)) (eval db e)
  | TJoinPub keep_pub pub g alone e =>
      join_pub pub g (eval db e) ++ (if keep_pub then pub_alone pub g alone (eval db e) else [])
  | TJoin pu_eq g e1 e2 => join_rows pu_eq g (eval db e1) (eval db e2)
  | TUnion e1 e2 => eval db e1 ++ eval db e2
  | TSetOp keep e1 e2 =>
      filter (fun r => Bool.eqb keep (existsb (trow_eqb r) (eval db e2))) (eval db e1)
  | TReduce by_unit key agg e => reduce by_unit key agg (eval db e)
  end.

(* the rows attributed to unit u; the database with only the protected rows of u *)
Definition restrict (u : Z) (l : list trow) : list trow := filter (fun r => unit_eqb (fst r) (Some u)) l.
Definition restrict_db (u : Z) (db : nat -> list trow) : nat -> list trow := fun n => restrict u (db n).

(* the skeleton: what the harness reads off the rewritten relation *)
Inductive skel :=
| SSrc
| SMap (lim : bool) (s : skel)
| SFilter (s : skel)
| SJoinPub (keep_pub : bool) (s : skel)
| SJoin (pu_eq : bool) (s1 s2 : skel)
| SUnion (s1 s2 : skel)
| SSetOp (s1 s2 : skel)
| SReduce (by_unit : bool) (s : skel)
| SBad.                              (* a shape outside the operators above *)

Fixpoint skel_of (e : texpr) : skel :=
  match e with
  | TSrc _ => SSrc
  | TMap _ lim e => SMap (match lim with Some _ => true | None => false end) (skel_of e)
  | TFilter _ e => SFilter (skel_of e)
  | TJoinPub k _ _ _ e => SJoinPub k (skel_of e)
  | TJoin q _ e1 e2 => SJoin q (skel_of e1) (skel_of e2)
  | TUnion e1 e2 => SUnion (skel_of e1) (skel_of e2)
  | TSetOp _ e1 e2 => SSetOp (skel_of e1) (skel_of e2)
  | TReduce b _ _ e => SReduce b (skel_of e)
  end.

Fixpoint skel_ok (s : skel) : bool :=
  match s with
  | SSrc => true
  | SMap lim s => negb lim && skel_ok s
  | SFilter s => skel_ok s
  | SJoinPub keep_pub s => negb keep_pub && skel_ok s
  | SJoin pu_eq s1 s2 => pu_eq && skel_ok s1 && skel_ok s2
  | SUnion s1 s2 => skel_ok s1 && skel_ok s2
  | SSetOp s1 s2 => skel_ok s1 && skel_ok s2
  | SReduce by_unit s => by_unit && skel_ok s
  | SBad => false
  end.
