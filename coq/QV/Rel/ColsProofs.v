From QV Require Import Rel.Cols Rel.RowsProofs Rel.EvalProofs Rel.SizeProofs.
Open Scope Z_scope.

(* ---------- sub-sequences ---------- *)
Lemma sub_filter {A} (f : A -> bool) l : sub (filter f l) l.
Proof. induction l as [|x l IH]; cbn; [apply sub_nil|]. destruct (f x); [apply sub_keep|apply sub_skip]; exact IH. Qed.
Lemma sub_firstn {A} n (l : list A) : sub (firstn n l) l.
Proof. revert n; induction l as [|x l IH]; intros [|n]; cbn; try apply sub_nil; [apply sub_nil_l|apply sub_keep; apply IH]. Qed.
Lemma sub_skipn {A} n (l : list A) : sub (skipn n l) l.
Proof. revert n; induction l as [|x l IH]; intros [|n]; cbn; try apply sub_nil; [apply sub_refl|apply sub_skip; apply IH]. Qed.
Lemma sub_trans {A} (a b c : list A) : sub a b -> sub b c -> sub a c.
Proof.
  intros Hab Hbc. revert a Hab. induction Hbc as [|x b c Hbc IH|x b c Hbc IH]; intros a Hab.
  - exact Hab.
  - apply sub_skip. auto.
  - inversion Hab; subst; [apply sub_skip; auto|apply sub_keep; auto].
Qed.
Lemma sub_flat_map {A B} (g : A -> list B) a b : sub a b -> sub (flat_map g a) (flat_map g b).
Proof.
  induction 1 as [|x a b Hs IH|x a b Hs IH]; cbn; [apply sub_nil| |].
  - rewrite <- (app_nil_l (flat_map g a)). apply sub_app; [apply sub_nil_l|exact IH].
  - apply sub_app; [apply sub_refl|exact IH].
Qed.
Lemma sub_colvals i a b : sub a b -> sub (colvals i a) (colvals i b).
Proof. apply sub_flat_map. Qed.
Lemma sub_map {A B} (g : A -> B) a b : sub a b -> sub (map g a) (map g b).
Proof. induction 1; cbn; [apply sub_nil|apply sub_skip|apply sub_keep]; assumption. Qed.

(* ---------- rows have the arity of their expression ---------- *)
Lemma in_join_rows P k nl nr L R x : In x (join_rows P k nl nr L R) ->
  (exists l r, In l L /\ In r R /\ x = l ++ r) \/ (exists l, In l L /\ x = l ++ nulls nr) \/ (exists r, In r R /\ x = nulls nl ++ r).
Proof.
  assert (Hin : In x (inner P L R) -> exists l r, In l L /\ In r R /\ x = l ++ r).
  { intros H. apply in_inner in H as (l & r & Hl & Hr & _ & ->). eauto. }
  assert (Hl : In x (map (fun l => l ++ nulls nr) (unmatched_left P L R)) -> exists l, In l L /\ x = l ++ nulls nr).
  { intros H. apply in_map_iff in H as (l & <- & H). apply filter_In in H as [H _]. eauto. }
  assert (Hr : In x (map (fun r => nulls nl ++ r) (unmatched_right P L R)) -> exists r, In r R /\ x = nulls nl ++ r).
  { intros H. apply in_map_iff in H as (r & <- & H). apply filter_In in H as [H _]. eauto. }
  destruct k; cbn [join_rows]; rewrite ?in_app_iff; intuition.
Qed.

Lemma remove_one_incl r l x : In x (remove_one r l) -> In x l.
Proof. induction l as [|y l IH]; cbn; [tauto|]. destruct (row_dec r y); cbn; intuition. Qed.
Lemma except_all_incl L R x : In x (except_all L R) -> In x L.
Proof.
  unfold except_all. revert L. induction R as [|r R IH]; intros L; cbn; [tauto|].
  intros H. apply IH in H. eapply remove_one_incl; eauto.
Qed.
Lemma intersect_all_incl L R x : In x (intersect_all L R) -> In x L.
Proof.
  revert R. induction L as [|l L IH]; intros R; cbn; [tauto|].
  destruct (memb l R); cbn; intros H; [destruct H; eauto|eauto].
Qed.
Lemma set_rows_incl op all L R x : In x (set_rows op all L R) -> In x L \/ In x R.
Proof.
  destruct op, all; cbn; intros H.
  - apply in_app_or. exact H.
  - apply nodup_In in H. apply in_app_or. exact H.
  - left. eapply except_all_incl; eauto.
  - left. apply nodup_In in H. apply filter_In in H. tauto.
  - left. eapply intersect_all_incl; eauto.
  - left. apply nodup_In in H. apply filter_In in H. tauto.
Qed.

Lemma nulls_length n : length (nulls n) = n.
Proof. apply repeat_length. Qed.

Lemma rows_len e : wfu e -> forall r, In r (rows_c e) -> length r = arity e.
Proof.
  unfold rows_c. induction e as [s u rows|f cols lim off i IH|key i IH|i IH|k li rj extra l IHl r IHr|op all l IHl r IHr];
    cbn [wfu to_rexp rows_of arity]; intros Hw x Hx.
  - apply Hw. exact Hx.
  - assert (Hin : In x (map (fun r => map (fun c => ncol c r) cols) (filter f (rows_of (to_rexp i))))).
    { destruct lim; [apply (sub_in _ _ _ (sub_firstn _ _)) in Hx|]; apply (sub_in _ _ _ (sub_skipn _ _)) in Hx; exact Hx. }
    apply in_map_iff in Hin as (r & <- & _). apply map_length.
  - apply in_map_iff in Hx as (kk & <- & Hk). apply nodup_In in Hk. apply in_map_iff in Hk as (r & <- & _). reflexivity.
  - destruct Hx as [<-|[]]. reflexivity.
  - destruct Hw as (Hl & Hr & _ & _).
    apply in_join_rows in Hx as [(a & b & Ha & Hb & ->)|[(a & Ha & ->)|(b & Hb & ->)]];
      rewrite app_length, ?nulls_length, ?(IHl Hl _ Ha), ?(IHr Hr _ Hb); reflexivity.
  - destruct Hw as (Hl & Hr & Ea). apply set_rows_incl in Hx as [Hx|Hx]; [apply (IHl Hl _ Hx)|rewrite Ea; apply (IHr Hr _ Hx)].
Qed.

(* ---------- a unique key gives at most one match ---------- *)
Lemma NoDup_app_r {A} (a b : list A) : NoDup (a ++ b) -> NoDup b.
Proof. induction a as [|x a IH]; cbn; intros H; [exact H|]. inversion H; auto. Qed.

Lemma colvals_in j R r z : In r R -> nth j r None = Some z -> In z (colvals j R).
Proof. intros Hr Hz. unfold colvals. apply in_flat_map. exists r. split; [exact Hr|]. rewrite Hz. left. reflexivity. Qed.

Lemma key_unique_match (P : list (option Z) -> list (option Z) -> bool) j R (kof : list (option Z) -> option Z) :
  NoDup (colvals j R) ->
  (forall l r, P l r = true -> exists z, kof l = Some z /\ nth j r None = Some z) ->
  forall l, (length (filter (P l) R) <= 1)%nat.
Proof.
  intros Hnd HP l. induction R as [|r R IH]; cbn; [lia|].
  assert (Hnd' : NoDup (colvals j R)).
  { unfold colvals in *. cbn [flat_map] in Hnd. apply NoDup_app_r in Hnd. exact Hnd. }
  specialize (IH Hnd'). destruct (P l r) eqn:Ep; [|exact IH]. cbn.
  destruct (HP l r Ep) as (z & Hk & Hz).
  (* no other row of R carries the key z *)
  assert (Hnone : filter (P l) R = []).
  { destruct (filter (P l) R) as [|r' ms] eqn:Ef; [reflexivity|exfalso].
    assert (Hr' : In r' (filter (P l) R)) by (rewrite Ef; left; reflexivity). apply filter_In in Hr' as [Hr' Hp'].
    destruct (HP l r' Hp') as (z' & Hk' & Hz'). rewrite Hk in Hk'. injection Hk' as <-.
    unfold colvals in Hnd. cbn [flat_map] in Hnd. rewrite Hz in Hnd. cbn in Hnd. inversion Hnd as [|? ? Hni _]. apply Hni.
    eapply colvals_in; eauto. }
  rewrite Hnone. cbn. lia.
Qed.

(* the ON condition of an equi-join matches rows on equal non-null keys *)
Lemma on_of_key k li rj extra l r : k <> JCross -> on_of k li rj extra l r = true ->
  exists z, ncol li l = Some z /\ ncol rj r = Some z.
Proof.
  intros Hk. unfold on_of. destruct k; try congruence; intros H; apply andb_true_iff in H as [H _];
    unfold keq in H; destruct (ncol li l) as [x|], (ncol rj r) as [y|]; try discriminate; apply Z.eqb_eq in H; subst; eauto.
Qed.

Lemma uflags_length e : length (uflags e) = arity e.
Proof.
  induction e as [s u rows|f cols lim off inp IH|key inp IH|inp IH|k li rj extra l IHl r IHr|op all l IHl r IHr]; cbn [uflags arity];
    rewrite ?map_length, ?app_length, ?map_length, ?repeat_length; auto.
Qed.

(* ---------- C14 on the fragment: a flagged column holds distinct non-null values ---------- *)
Lemma singleton_keys_nodup (K : list (list (option Z))) :
  NoDup K -> (forall k, In k K -> exists v, k = [v]) -> NoDup (colvals 0 K).
Proof.
  induction 1 as [|k K Hni Hnd IH]; intros Hs; [constructor|].
  unfold colvals. cbn [flat_map]. fold (colvals 0 K).
  destruct (Hs k (or_introl eq_refl)) as (v & ->). cbn [nth].
  assert (IH' := IH (fun k' Hk' => Hs k' (or_intror Hk'))).
  destruct v as [z|]; cbn [app]; [|exact IH']. constructor; [|exact IH'].
  intros Hin. unfold colvals in Hin. apply in_flat_map in Hin as (k' & Hk' & Hz).
  destruct (Hs k' (or_intror Hk')) as (v' & ->). cbn [nth] in Hz. destruct v' as [z'|]; [|destruct Hz].
  destruct Hz as [->|[]]. apply Hni. exact Hk'.
Qed.

Theorem unique_sound e : wfu e -> forall i, nth i (uflags e) false = true -> NoDup (colvals i (rows_c e)).
Proof.
  induction e as [s u rows|f cols lim off inp IH|key inp IH|inp IH|k li rj extra l IHl r IHr|op all l IHl r IHr];
    cbn [wfu uflags]; intros Hw i Hi.
  - apply Hw. exact Hi.
  - (* filter, column selection, window *)
    destruct Hw as (Hw & Hc).
    assert (Hlt : (i < length cols)%nat).
    { destruct (Nat.lt_ge_cases i (length cols)) as [H|H]; [exact H|]. rewrite nth_overflow in Hi by (rewrite map_length; exact H). discriminate. }
    rewrite (nth_indep _ false (nth 0%nat (uflags inp) false)) in Hi by (rewrite map_length; exact Hlt).
    rewrite (map_nth (fun c => nth c (uflags inp) false) cols 0%nat i) in Hi.
    specialize (IH Hw _ Hi). unfold rows_c in *. cbn [to_rexp rows_of].
    set (X := rows_of (to_rexp inp)) in *.
    assert (Hsub : sub (colvals i (match lim with Some x => firstn (Z.to_nat x) (skipn (opt_nat off 0) (map (fun r => map (fun c => ncol c r) cols) (filter f X)))
                                   | None => skipn (opt_nat off 0) (map (fun r => map (fun c => ncol c r) cols) (filter f X)) end))
                        (colvals i (map (fun r => map (fun c => ncol c r) cols) (filter f X)))).
    { apply sub_colvals. destruct lim; [eapply sub_trans; [apply sub_firstn|]|]; apply sub_skipn. }
    eapply sub_NoDup; [exact Hsub|].
    rewrite (colvals_map_shift i (nth i cols 0%nat)).
    + eapply sub_NoDup; [apply sub_colvals; apply sub_filter|exact IH].
    + intros r _. rewrite (nth_indep _ None (ncol 0%nat r)) by (rewrite map_length; exact Hlt).
      rewrite (map_nth (fun c => ncol c r) cols 0%nat i). reflexivity.
  - (* one row per distinct key *)
    destruct i as [|[|i]]; cbn in Hi; try discriminate; [|destruct i; discriminate].
    unfold rows_c. cbn [to_rexp rows_of].
    rewrite (colvals_map_shift 0 0).
    + apply singleton_keys_nodup; [apply NoDup_nodup|]. intros kk Hk. apply nodup_In in Hk. apply in_map_iff in Hk as (r & <- & _). eauto.
    + intros kk Hk. apply nodup_In in Hk. apply in_map_iff in Hk as (r & <- & _). reflexivity.
  - destruct i as [|i]; cbn in Hi; [discriminate|destruct i; discriminate].
  - (* joins *)
    destruct Hw as (Hwl & Hwr & Hli & Hrj).
    assert (Hlenl := rows_len l Hwl). assert (Hlenr := rows_len r Hwr).
    assert (Hal := conj (uflags_length l) (uflags_length r)).
    destruct Hal as [Hal Har].
    unfold rows_c in *. cbn [to_rexp rows_of].
    destruct (Nat.lt_ge_cases i (arity l)) as [Hil|Hil].
    + (* a left column: the right key is unique *)
      rewrite app_nth1 in Hi by (rewrite map_length, Hal; exact Hil).
      rewrite (nth_indep _ false (andb (match k with JCross => false | _ => nth rj (uflags r) false end) false)) in Hi by (rewrite map_length, Hal; exact Hil).
      rewrite map_nth in Hi. apply andb_true_iff in Hi as [Hur Hfl].
      assert (Hk : k <> JCross) by (intros ->; discriminate).
      assert (Hur' : nth rj (uflags r) false = true) by (destruct k; try exact Hur; congruence).
      apply join_left_unique; [exact Hlenl|exact Hil| |exact (IHl Hwl _ Hfl)].
      intros x _. apply (key_unique_match _ rj _ (ncol li)); [exact (IHr Hwr _ Hur')|].
      intros a b Hab. apply (on_of_key k li rj extra a b Hk Hab).
    + (* a right column *)
      rewrite app_nth2 in Hi by (rewrite map_length, Hal; exact Hil). rewrite map_length, Hal in Hi.
      assert (Hir : (i - arity l < arity r)%nat).
      { destruct (Nat.lt_ge_cases (i - arity l) (arity r)) as [H|H]; [exact H|]. rewrite nth_overflow in Hi by (rewrite map_length, Har; exact H). discriminate. }
      rewrite (nth_indep _ false (andb (match k with JCross => false | _ => nth li (uflags l) false end) false)) in Hi by (rewrite map_length, Har; exact Hir).
      rewrite map_nth in Hi. apply andb_true_iff in Hi as [Hul Hfr].
      assert (Hk : k <> JCross) by (intros ->; discriminate).
      assert (Hul' : nth li (uflags l) false = true) by (destruct k; try exact Hul; congruence).
      replace i with (arity l + (i - arity l))%nat by lia.
      apply join_right_unique; [exact Hlenl|exact Hlenr| |exact (IHr Hwr _ Hfr)].
      intros y _.
      apply (key_unique_match (fun b a => on_of k li rj extra a b) li _ (ncol rj)); [exact (IHl Hwl _ Hul')|].
      intros b a Hab. destruct (on_of_key k li rj extra a b Hk Hab) as (z & H1 & H2). eauto.
  - (* no flag survives a set operation *)
    exfalso. clear - Hi. revert i Hi. induction (arity l) as [|n IHn]; intros [|i]; cbn; try discriminate. apply IHn.
Qed.

(* ---------- C07 on the fragment: the hypotheses are on the base data only ---------- *)
(* tables conform to their sizes, windows are non-negative, counts fit in an i64 *)
Fixpoint wfs (e : cexp) : Prop :=
  match e with
  | QTable s _ rows => fst s <= Z.of_nat (length rows) <= snd s
  | QSel _ _ lim off i => wfs i /\ (forall x, lim = Some x -> 0 <= x) /\ (forall x, off = Some x -> 0 <= x)
  | QGroup _ i | QCount i => wfs i
  | QJoin _ _ _ _ l r => wfs l /\ wfs r /\ Z.of_nat (length (rows_c e)) <= i64_max
  | QSet _ _ l r => wfs l /\ wfs r /\ Z.of_nat (length (rows_c e)) <= i64_max
  end.

Lemma wf_to_rexp e : wfu e -> wfs e -> wf (to_rexp e).
Proof.
  induction e as [s u rows|f cols lim off inp IH|key inp IH|inp IH|k li rj extra l IHl r IHr|op all l IHl r IHr];
    cbn [wfu wfs to_rexp wf]; intros Hu Hs.
  - exact Hs.
  - destruct Hu as (Hu & _). destruct Hs as (Hs & Hl & Ho). auto.
  - destruct Hu as (Hu & _). auto.
  - auto.
  - destruct Hu as (Hul & Hur & Hli & Hrj). destruct Hs as (Hsl & Hsr & Hmax).
    split; [auto|]. split; [auto|]. split; [|split].
    + intros E x _. assert (Hk : k <> JCross) by (intros ->; discriminate).
      assert (E' : nth rj (uflags r) false = true) by (destruct k; try exact E; congruence).
      apply (key_unique_match _ rj _ (ncol li)); [exact (unique_sound r Hur _ E')|].
      intros a b Hab. apply (on_of_key k li rj extra a b Hk Hab).
    + intros E y _. assert (Hk : k <> JCross) by (intros ->; discriminate).
      assert (E' : nth li (uflags l) false = true) by (destruct k; try exact E; congruence).
      apply (key_unique_match (fun b a => on_of k li rj extra a b) li _ (ncol rj)); [exact (unique_sound l Hul _ E')|].
      intros b a Hab. destruct (on_of_key k li rj extra a b Hk Hab) as (z & H1 & H2). eauto.
    + exact Hmax.
  - destruct Hu as (Hul & Hur & _). destruct Hs as (Hsl & Hsr & Hmax). auto.
Qed.

Theorem cexp_size_sound e : wfu e -> wfs e ->
  sizes_ok (erase (to_rexp e)) = true -> join_ok (erase (to_rexp e)) = true ->
  fst (size_of (skeleton (erase (to_rexp e)))) <= Z.of_nat (length (rows_c e)) <= snd (size_of (skeleton (erase (to_rexp e)))).
Proof. intros Hu Hs. apply eval_size_sound. apply wf_to_rexp; assumption. Qed.
