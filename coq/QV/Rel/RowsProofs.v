From QV Require Import Rel.Rows.
Open Scope Z_scope.

(* ---------- typing ---------- *)
Lemma row_in_app l r s1 s2 : row_in l s1 = true -> row_in r s2 = true -> row_in (l ++ r) (s1 ++ s2) = true.
Proof.
  revert s1; induction l as [|v l IH]; intros [|t s1]; cbn; try discriminate; auto.
  intros H Hr. apply andb_true_iff in H as [Hv Hl]. rewrite Hv, (IH s1 Hl Hr). reflexivity.
Qed.

Lemma row_in_length r s : row_in r s = true -> length r = length s.
Proof.
  revert s; induction r as [|v r IH]; intros [|t s]; cbn; try discriminate; auto.
  intros H. apply andb_true_iff in H as [_ H]. f_equal. auto.
Qed.

Lemma val_in_optional v t : val_in v t = true -> val_in v (optional t) = true.
Proof. destruct v; cbn; auto. Qed.

Lemma row_in_optional r s : row_in r s = true -> row_in r (map optional s) = true.
Proof.
  revert s; induction r as [|v r IH]; intros [|t s]; cbn; try discriminate; auto.
  intros H. apply andb_true_iff in H as [Hv H]. rewrite (val_in_optional _ _ Hv), (IH s H). reflexivity.
Qed.

Lemma nulls_in s : row_in (nulls (length s)) (map optional s) = true.
Proof. induction s as [|t s IH]; cbn; auto. Qed.

Lemma in_inner P L R x :
  In x (inner P L R) <-> exists l r, In l L /\ In r R /\ P l r = true /\ x = l ++ r.
Proof.
  unfold inner. rewrite in_flat_map. split.
  - intros (l & Hl & Hx). apply in_map_iff in Hx as (r & <- & Hr). apply filter_In in Hr as [Hr Hp]. eauto 8.
  - intros (l & r & Hl & Hr & Hp & ->). exists l. split; [exact Hl|]. apply in_map_iff. exists r. split; [reflexivity|].
    apply filter_In. auto.
Qed.

Theorem join_rows_typed k P sl sr fl fr L R :
  Forall (fun l => row_in l sl = true) L -> Forall (fun r => row_in r sr = true) R ->
  (forall l r, In l L -> In r R -> P l r = true -> row_in l fl = true /\ row_in r fr = true) ->
  length fl = length sl -> length fr = length sr ->
  Forall (fun x => row_in x (join_schema k sl sr fl fr) = true) (join_rows P k (length sl) (length sr) L R).
Proof.
  intros HL HR HP Hfl Hfr. rewrite Forall_forall in HL, HR. apply Forall_forall. intros x Hx.
  assert (Hin : In x (inner P L R) -> exists l r, In l L /\ In r R /\ P l r = true /\ x = l ++ r) by (apply in_inner).
  assert (Hul : forall l, In l (unmatched_left P L R) -> In l L) by (intros l Hl; apply filter_In in Hl; tauto).
  assert (Hur : forall r, In r (unmatched_right P L R) -> In r R) by (intros r Hr; apply filter_In in Hr; tauto).
  destruct k; cbn [join_rows join_schema] in *.
  - destruct (Hin Hx) as (l & r & Hl & Hr & Hp & ->). destruct (HP l r Hl Hr Hp). apply row_in_app; assumption.
  - apply in_app_or in Hx as [Hx|Hx].
    + destruct (Hin Hx) as (l & r & Hl & Hr & Hp & ->). destruct (HP l r Hl Hr Hp).
      apply row_in_app; [auto|apply row_in_optional; assumption].
    + apply in_map_iff in Hx as (l & <- & Hl). apply row_in_app; [auto|]. rewrite <- Hfr. apply nulls_in.
  - apply in_app_or in Hx as [Hx|Hx].
    + destruct (Hin Hx) as (l & r & Hl & Hr & Hp & ->). destruct (HP l r Hl Hr Hp).
      apply row_in_app; [apply row_in_optional; assumption|auto].
    + apply in_map_iff in Hx as (r & <- & Hr). apply row_in_app; [|auto]. rewrite <- Hfl. apply nulls_in.
  - apply in_app_or in Hx as [Hx|Hx]; [|apply in_app_or in Hx as [Hx|Hx]].
    + destruct (Hin Hx) as (l & r & Hl & Hr & Hp & ->). apply row_in_app; apply row_in_optional; auto.
    + apply in_map_iff in Hx as (l & <- & Hl). apply row_in_app; [apply row_in_optional; auto|apply nulls_in].
    + apply in_map_iff in Hx as (r & <- & Hr). apply row_in_app; [apply nulls_in|apply row_in_optional; auto].
  - destruct (Hin Hx) as (l & r & Hl & Hr & Hp & ->). apply row_in_app; auto.
Qed.

(* ---------- counting: the row-level joins satisfy the premises of [card] ---------- *)
Section Count.
Context {A B : Type}.
Fixpoint cnt (Q : A -> B -> bool) (L : list A) (R : list B) : nat :=
  match L with [] => 0%nat | l :: L' => (length (filter (Q l) R) + cnt Q L' R)%nat end.
End Count.

Lemma inner_length P L R : length (inner P L R) = cnt P L R.
Proof. unfold inner. induction L as [|l L IH]; cbn [flat_map cnt]; [reflexivity|]. rewrite app_length, map_length. f_equal. exact IH. Qed.

Lemma cnt_cons_right {A B} (Q : A -> B -> bool) L r R :
  (cnt Q L (r :: R) = length (filter (fun l => Q l r) L) + cnt Q L R)%nat.
Proof. induction L as [|l L IH]; cbn; [reflexivity|]. rewrite IH. destruct (Q l r); cbn; lia. Qed.

(* double counting *)
Lemma cnt_swap {A B} (Q : A -> B -> bool) L R : cnt Q L R = cnt (fun r l => Q l r) R L.
Proof.
  induction R as [|r R IH]; cbn.
  - induction L as [|l L IHL]; cbn; auto.
  - rewrite cnt_cons_right, IH. reflexivity.
Qed.

Lemma filter_length_le {A} (f g : A -> bool) l :
  (forall x, In x l -> f x = true -> g x = true) -> (length (filter f l) <= length (filter g l))%nat.
Proof.
  induction l as [|x l IH]; cbn; intros H; [lia|].
  assert (IH' := IH (fun y Hy => H y (or_intror Hy))).
  destruct (f x) eqn:Ef; [rewrite (H x (or_introl eq_refl) Ef); cbn; lia|destruct (g x); cbn; lia].
Qed.

Lemma filter_split_length {A} (f : A -> bool) l :
  (length (filter f l) + length (filter (fun x => negb (f x)) l) = length l)%nat.
Proof. induction l as [|x l IH]; cbn; [reflexivity|]. destruct (f x); cbn; lia. Qed.

Lemma filter_nil_of_existsb {A} (f : A -> bool) l : existsb f l = false -> filter f l = [].
Proof. induction l as [|x l IH]; cbn; [reflexivity|]. destruct (f x); cbn; [discriminate|auto]. Qed.

(* pairs only join matched rows: at most (matched left) x (bound on the matches of one row) *)
Lemma cnt_bound {A B} (Q : A -> B -> bool) L R c :
  (forall l, In l L -> (length (filter (Q l) R) <= c)%nat) ->
  (cnt Q L R <= length (filter (fun l => existsb (Q l) R) L) * c)%nat.
Proof.
  induction L as [|l L IH]; cbn; intros H; [lia|].
  assert (IH' := IH (fun y Hy => H y (or_intror Hy))). assert (Hl := H l (or_introl eq_refl)).
  destruct (existsb (Q l) R) eqn:E; cbn.
  - lia.
  - rewrite (filter_nil_of_existsb _ _ E). cbn. lia.
Qed.

Theorem join_rows_count k P nl nr L R (ul ur : bool) :
  (ur = true -> forall l, In l L -> (length (filter (P l) R) <= 1)%nat) ->
  (ul = true -> forall r, In r R -> (length (filter (fun l => P l r) L) <= 1)%nat) ->
  let a := Z.of_nat (length L) in let b := Z.of_nat (length R) in
  let m := Z.of_nat (length (join_rows P k nl nr L R)) in
  exists p x y, 0 <= x <= a /\ 0 <= y <= b /\ 0 <= p <= (a - x) * (b - y) /\
     (ur = true -> p <= a - x) /\ (ul = true -> p <= b - y) /\
     m = p + match k with JLeft | JFull => x | _ => 0 end + match k with JRight | JFull => y | _ => 0 end.
Proof.
  intros Hur Hul a b m.
  set (ML := filter (fun l => existsb (P l) R) L). set (MR := filter (fun r => existsb (fun l => P l r) L) R).
  assert (HxL : (length ML + length (unmatched_left P L R) = length L)%nat) by apply filter_split_length.
  assert (HyR : (length MR + length (unmatched_right P L R) = length R)%nat) by apply filter_split_length.
  exists (Z.of_nat (cnt P L R)), (Z.of_nat (length (unmatched_left P L R))), (Z.of_nat (length (unmatched_right P L R))).
  (* every right row matched by l is a matched right row *)
  assert (Hp1 : (cnt P L R <= length ML * length MR)%nat).
  { apply cnt_bound. intros l Hl. apply filter_length_le. intros r Hr Hp. apply existsb_exists. eauto. }
  split; [subst a; lia|]. split; [subst b; lia|]. split; [|split; [|split]].
  - subst a b. split; [lia|]. nia.
  - intros E. assert (H1 := cnt_bound P L R 1%nat (Hur E)).
    change (cnt P L R <= length ML * 1)%nat in H1. subst a. lia.
  - intros E. rewrite cnt_swap.
    assert (H1 := cnt_bound (fun r l => P l r) R L 1%nat (Hul E)).
    change (cnt (fun r l => P l r) R L <= length MR * 1)%nat in H1. subst b. lia.
  - subst m. pose proof (inner_length P L R) as Hi. destruct k; cbn [join_rows]; rewrite ?app_length, ?map_length, ?Nat2Z.inj_add; rewrite Hi; lia.
Qed.

(* ---------- the pairs enumerated from the left or from the right: the same bag ---------- *)
Lemma flat_map_app_perm {A B} (f g : A -> list B) l :
  Permutation (flat_map (fun x => f x ++ g x) l) (flat_map f l ++ flat_map g l).
Proof.
  induction l as [|x l IH]; cbn; [constructor|].
  rewrite <- !app_assoc. apply Permutation_app_head.
  rewrite IH. apply Permutation_app_swap_app.
Qed.

Lemma inner'_cons P l L R :
  Permutation (inner' P (l :: L) R) (map (fun r => l ++ r) (filter (P l) R) ++ inner' P L R).
Proof.
  unfold inner'.
  rewrite (flat_map_ext _ (fun r => (if P l r then [l ++ r] else []) ++ map (fun l' => l' ++ r) (filter (fun l' => P l' r) L))).
  2:{ intros r. cbn [filter]. destruct (P l r); reflexivity. }
  rewrite flat_map_app_perm. apply Permutation_app_tail.
  induction R as [|r R IH]; cbn; [constructor|]. destruct (P l r); cbn; [constructor|]; exact IH.
Qed.

Lemma inner'_nil P R : inner' P [] R = [].
Proof. unfold inner'. induction R as [|r R IH]; cbn; auto. Qed.

Theorem inner_perm P L R : Permutation (inner P L R) (inner' P L R).
Proof.
  induction L as [|l L IH].
  - rewrite inner'_nil. constructor.
  - rewrite inner'_cons. unfold inner at 1. cbn [flat_map]. apply Permutation_app_head. exact IH.
Qed.

(* ---------- uniqueness kept by joins ---------- *)
Lemma colvals_app i a b : colvals i (a ++ b) = colvals i a ++ colvals i b.
Proof. unfold colvals. apply flat_map_app. Qed.

Lemma colvals_perm i a b : Permutation a b -> Permutation (colvals i a) (colvals i b).
Proof. unfold colvals. apply Permutation_flat_map. Qed.

Lemma colvals_map_shift i j (f : row -> row) l :
  (forall r, In r l -> nth i (f r) None = nth j r None) -> colvals i (map f l) = colvals j l.
Proof.
  unfold colvals. induction l as [|r l IH]; cbn [map flat_map]; intros H; [reflexivity|].
  rewrite (H r (or_introl eq_refl)). f_equal. apply IH. intros r' Hr'. apply H. right. exact Hr'.
Qed.

Lemma colvals_map_none i (f : row -> row) l :
  (forall r, In r l -> nth i (f r) None = None) -> colvals i (map f l) = [].
Proof.
  unfold colvals. induction l as [|r l IH]; cbn [map flat_map]; intros H; [reflexivity|].
  rewrite (H r (or_introl eq_refl)). cbn [app]. apply IH. intros r' Hr'. apply H. right. exact Hr'.
Qed.

Lemma nth_nulls i n : nth i (nulls n) None = None.
Proof. unfold nulls. revert i; induction n as [|n IH]; intros [|i]; cbn; auto. Qed.

(* the matched rows and the unmatched rows of the left side share out its column values *)
Lemma left_vals_perm P nl L R i :
  (forall l, In l L -> length l = nl) -> (i < nl)%nat ->
  (forall l, In l L -> (length (filter (P l) R) <= 1)%nat) ->
  Permutation (colvals i (inner P L R) ++ colvals i (unmatched_left P L R)) (colvals i L).
Proof.
  intros Hlen Hi H1. induction L as [|l L IH]; [constructor|].
  assert (IH' := IH (fun y Hy => Hlen y (or_intror Hy)) (fun y Hy => H1 y (or_intror Hy))).
  assert (Hl := Hlen l (or_introl eq_refl)). assert (Hm := H1 l (or_introl eq_refl)).
  unfold inner. cbn [flat_map unmatched_left filter]. fold (inner P L R). fold (unmatched_left P L R).
  rewrite colvals_app.
  assert (Hsame : forall ms, colvals i (map (fun r => l ++ r) ms) = colvals i (map (fun _ => l) ms)).
  { intros ms. induction ms as [|r ms IHm]; cbn; [reflexivity|]. rewrite app_nth1 by lia. f_equal. exact IHm. }
  rewrite Hsame.
  destruct (filter (P l) R) as [|r [|r' ms]] eqn:Ef.
  - (* no match: l is among the unmatched rows *)
    assert (E : existsb (P l) R = false).
    { destruct (existsb (P l) R) eqn:E; [|reflexivity]. apply existsb_exists in E as (r & Hr & Hp).
      assert (In r (filter (P l) R)) by (apply filter_In; auto). rewrite Ef in H. destruct H. }
    rewrite E. cbn [negb map colvals flat_map app].
    change (flat_map _ (inner P L R)) with (colvals i (inner P L R)).
    change (flat_map _ (unmatched_left P L R)) with (colvals i (unmatched_left P L R)).
    change (flat_map _ L) with (colvals i L).
    rewrite <- IH'. rewrite app_assoc. rewrite app_assoc. apply Permutation_app_tail. apply Permutation_app_comm.
  - (* one match *)
    assert (E : existsb (P l) R = true).
    { apply existsb_exists. exists r. assert (In r (filter (P l) R)) by (rewrite Ef; left; reflexivity).
      apply filter_In in H. exact H. }
    rewrite E. cbn [negb map colvals flat_map app]. rewrite app_nil_r.
    change (flat_map _ (inner P L R)) with (colvals i (inner P L R)).
    change (flat_map _ (unmatched_left P L R)) with (colvals i (unmatched_left P L R)).
    change (flat_map _ L) with (colvals i L).
    rewrite <- app_assoc. apply Permutation_app_head. exact IH'.
  - cbn in Hm. lia.
Qed.

Lemma right_vals_perm P nl L R j :
  (forall l, In l L -> length l = nl) ->
  (forall r, In r R -> (length (filter (fun l => P l r) L) <= 1)%nat) ->
  Permutation (colvals (nl + j) (inner' P L R) ++ colvals j (unmatched_right P L R)) (colvals j R).
Proof.
  intros Hlen H1. induction R as [|r R IH]; [constructor|].
  assert (IH' := IH (fun y Hy => H1 y (or_intror Hy))). assert (Hm := H1 r (or_introl eq_refl)).
  unfold inner'. cbn [flat_map unmatched_right filter]. fold (inner' P L R). fold (unmatched_right P L R).
  rewrite colvals_app.
  assert (Hsame : forall ms, (forall l, In l ms -> In l L) ->
            colvals (nl + j) (map (fun l => l ++ r) ms) = colvals j (map (fun _ => r) ms)).
  { intros ms. unfold colvals. induction ms as [|l ms IHm]; cbn [map flat_map]; intros Hin; [reflexivity|].
    assert (El := Hlen l (Hin l (or_introl eq_refl))).
    replace (nth (nl + j) (l ++ r) None) with (nth j r None) by (rewrite <- El; symmetry; apply app_nth2_plus).
    f_equal. apply IHm. intros l' Hl'. apply Hin. right. exact Hl'. }
  rewrite Hsame by (intros l Hl; apply filter_In in Hl; tauto).
  destruct (filter (fun l => P l r) L) as [|l [|l' ms]] eqn:Ef.
  - assert (E : existsb (fun l => P l r) L = false).
    { destruct (existsb (fun l => P l r) L) eqn:E; [|reflexivity]. apply existsb_exists in E as (l & Hl & Hp).
      assert (In l (filter (fun l => P l r) L)) by (apply filter_In; auto). rewrite Ef in H. destruct H. }
    rewrite E. cbn [negb map colvals flat_map app].
    change (flat_map _ (inner' P L R)) with (colvals (nl + j) (inner' P L R)).
    change (flat_map _ (unmatched_right P L R)) with (colvals j (unmatched_right P L R)).
    change (flat_map _ R) with (colvals j R).
    rewrite <- IH'. rewrite app_assoc. rewrite app_assoc. apply Permutation_app_tail. apply Permutation_app_comm.
  - assert (E : existsb (fun l => P l r) L = true).
    { apply existsb_exists. exists l. assert (In l (filter (fun l => P l r) L)) by (rewrite Ef; left; reflexivity).
      apply filter_In in H. exact H. }
    rewrite E. cbn [negb map colvals flat_map app]. rewrite app_nil_r.
    change (flat_map _ (inner' P L R)) with (colvals (nl + j) (inner' P L R)).
    change (flat_map _ (unmatched_right P L R)) with (colvals j (unmatched_right P L R)).
    change (flat_map _ R) with (colvals j R).
    rewrite <- app_assoc. apply Permutation_app_head. exact IH'.
  - cbn in Hm. lia.
Qed.

Lemma NoDup_app_l {A} (a b : list A) : NoDup (a ++ b) -> NoDup a.
Proof. induction a as [|x a IH]; cbn; intros H; [constructor|]. inversion H; subst. constructor; [|auto]. intros Hin. apply H2. apply in_or_app. auto. Qed.

(* a column of the left input that holds distinct non-null values keeps them distinct in every join
   whose condition matches each left row with at most one right row (Join::schema keeps its flag
   when the right key is unique) *)
Theorem join_left_unique k P nl nr L R i :
  (forall l, In l L -> length l = nl) -> (i < nl)%nat ->
  (forall l, In l L -> (length (filter (P l) R) <= 1)%nat) ->
  NoDup (colvals i L) -> NoDup (colvals i (join_rows P k nl nr L R)).
Proof.
  intros Hlen Hi H1 Hnd.
  assert (Hperm := left_vals_perm P nl L R i Hlen Hi H1).
  assert (Hall : NoDup (colvals i (inner P L R) ++ colvals i (unmatched_left P L R)))
    by (eapply Permutation_NoDup; [apply Permutation_sym; exact Hperm|exact Hnd]).
  assert (Hin := NoDup_app_l _ _ Hall).
  assert (Hpadl : colvals i (map (fun l => l ++ nulls nr) (unmatched_left P L R)) = colvals i (unmatched_left P L R)).
  { apply colvals_map_shift. intros l Hl. apply filter_In in Hl as [Hl _]. rewrite app_nth1; [reflexivity|]. rewrite (Hlen l Hl). exact Hi. }
  assert (Hpadr : colvals i (map (fun r => nulls nl ++ r) (unmatched_right P L R)) = []).
  { apply colvals_map_none. intros r _. rewrite app_nth1; [apply nth_nulls|]. unfold nulls. rewrite repeat_length. exact Hi. }
  destruct k; cbn [join_rows]; rewrite ?colvals_app, ?Hpadl, ?Hpadr, ?app_nil_r; assumption.
Qed.

(* symmetrically for a column of the right input when each right row has at most one match *)
Theorem join_right_unique k P nl nr L R j :
  (forall l, In l L -> length l = nl) -> (forall r, In r R -> length r = nr) ->
  (forall r, In r R -> (length (filter (fun l => P l r) L) <= 1)%nat) ->
  NoDup (colvals j R) -> NoDup (colvals (nl + j) (join_rows P k nl nr L R)).
Proof.
  intros Hlen Hlenr H1 Hnd.
  assert (Hperm := right_vals_perm P nl L R j Hlen H1).
  assert (Hall : NoDup (colvals (nl + j) (inner P L R) ++ colvals j (unmatched_right P L R))).
  { eapply Permutation_NoDup; [|exact Hnd]. apply Permutation_sym. rewrite <- Hperm.
    apply Permutation_app_tail. apply colvals_perm. apply inner_perm. }
  assert (Hin := NoDup_app_l _ _ Hall).
  assert (Hpadl : colvals (nl + j) (map (fun l => l ++ nulls nr) (unmatched_left P L R)) = []).
  { apply colvals_map_none. intros l Hl. apply filter_In in Hl as [Hl _]. rewrite <- (Hlen l Hl), app_nth2_plus. apply nth_nulls. }
  assert (Hpadr : colvals (nl + j) (map (fun r => nulls nl ++ r) (unmatched_right P L R)) = colvals j (unmatched_right P L R)).
  { apply colvals_map_shift. intros r _. replace nl with (length (nulls nl)) at 1 by (unfold nulls; apply repeat_length). apply app_nth2_plus. }
  destruct k; cbn [join_rows]; rewrite ?colvals_app, ?Hpadl, ?Hpadr, ?app_nil_r; assumption.
Qed.

(* the hypothesis cannot be dropped: with two matches per left row the values repeat *)
Theorem join_left_unique_needs_unique_key : exists P L R,
  NoDup (colvals 0 L) /\ ~ NoDup (colvals 0 (join_rows P JInner 1 1 L R)).
Proof.
  exists (fun _ _ => true), [[Some 1]], [[Some 5]; [Some 6]]. split; [cbn; repeat constructor; cbn; tauto|].
  cbn. intros H. inversion H as [|? ? Hn _]. apply Hn. left. reflexivity.
Qed.

(* ---------- set operations, grouping, literal lists ---------- *)
(* UNION removes duplicate rows, not duplicate values of one column: no flag survives a set operation *)
Theorem union_unique_refuted : exists L R,
  NoDup (colvals 0 L) /\ NoDup (colvals 0 R) /\ ~ NoDup (colvals 0 (union_rows false L R)).
Proof.
  exists [[Some 1; Some 0]], [[Some 1; Some 7]]. split; [cbn; repeat constructor; cbn; tauto|].
  split; [cbn; repeat constructor; cbn; tauto|].
  cbn. intros H. inversion H as [|? ? Hn _]. apply Hn. left. reflexivity.
Qed.

Lemma zdedup_incl l x : In x (zdedup l) -> In x l.
Proof.
  induction l as [|y l IH]; cbn; [tauto|]. destruct (existsb (Z.eqb y) l); cbn; intros H; [auto|].
  destruct H; auto.
Qed.

(* one row per distinct key: the key column of a GROUP BY on a single key is unique *)
Theorem group_key_unique l : NoDup (zdedup l).
Proof.
  induction l as [|x l IH]; cbn; [constructor|].
  destruct (existsb (Z.eqb x) l) eqn:E; [exact IH|]. constructor; [|exact IH].
  intros Hin. apply zdedup_incl in Hin.
  assert (existsb (Z.eqb x) l = true) by (apply existsb_exists; exists x; split; [exact Hin|apply Z.eqb_refl]). congruence.
Qed.

(* sub-sequences *)
Inductive sub {A} : list A -> list A -> Prop :=
| sub_nil : sub [] []
| sub_skip x a b : sub a b -> sub a (x :: b)
| sub_keep x a b : sub a b -> sub (x :: a) (x :: b).

Lemma sub_in {A} (a b : list A) x : sub a b -> In x a -> In x b.
Proof. induction 1; cbn; intros; tauto. Qed.
Lemma sub_NoDup {A} (a b : list A) : sub a b -> NoDup b -> NoDup a.
Proof.
  induction 1 as [|x a b Hs IH|x a b Hs IH]; intros Hn; [constructor|inversion Hn; auto|].
  inversion Hn; subst. constructor; [|auto]. intros Hin. eauto using sub_in.
Qed.
Lemma sub_refl {A} (a : list A) : sub a a.
Proof. induction a; [apply sub_nil|apply sub_keep; auto]. Qed.
Lemma sub_app {A} (a a' b b' : list A) : sub a a' -> sub b b' -> sub (a ++ b) (a' ++ b').
Proof. induction 1; cbn; intros; [assumption|apply sub_skip; auto|apply sub_keep; auto]. Qed.
Lemma sub_nil_l {A} (a : list A) : sub [] a.
Proof. induction a; [apply sub_nil|apply sub_skip; auto]. Qed.

(* FIRST of a column whose values are distinct in the input: one row out of each group *)
Definition firsts (G : list (list row)) : list row := flat_map (fun g => match g with [] => [] | r :: _ => [r] end) G.
Theorem first_of_unique_column i (G : list (list row)) :
  NoDup (colvals i (concat G)) -> NoDup (colvals i (firsts G)).
Proof.
  apply sub_NoDup. unfold firsts. induction G as [|g G IH]; cbn [concat flat_map]; [apply sub_nil|].
  rewrite !colvals_app. apply sub_app; [|exact IH].
  destruct g as [|r g]; [apply sub_nil|].
  unfold colvals. cbn [flat_map]. rewrite app_nil_r.
  rewrite <- (app_nil_r (match nth i r None with Some z => [z] | None => [] end)) at 1.
  apply sub_app; [apply sub_refl|apply sub_nil_l].
Qed.

(* ---------- the abstract cardinality semantics of Rel/Size.v, derived for joins ---------- *)
(* a unique flag on the right (left) key means: every left (right) row has at most one match *)
Theorem join_rows_card k (ul ur : bool) el er P nl nr L R :
  card el (Z.of_nat (length L)) -> card er (Z.of_nat (length R)) ->
  (ur = true -> forall l, In l L -> (length (filter (P l) R) <= 1)%nat) ->
  (ul = true -> forall r, In r R -> (length (filter (fun l => P l r) L) <= 1)%nat) ->
  Z.of_nat (length (join_rows P k nl nr L R)) <= i64_max ->
  card (EJoin k ul ur el er) (Z.of_nat (length (join_rows P k nl nr L R))).
Proof.
  intros Ha Hb Hur Hul Hmax.
  apply (CJoin k ul ur el er _ _ _ Ha Hb); [lia|exact Hmax|].
  exact (join_rows_count k P nl nr L R ul ur Hur Hul).
Qed.
