(* C14 / C07 — the column-level fragment of the relational expressions: filters are arbitrary, projections
   select columns, joins are equi-joins on one column of each side (with any further condition), grouping
   has one key.  For this fragment the unique flags are computed by the rules of Map::schema_exprs,
   Join::schema, Set::schema and Reduce::schema_aggregate, and every expression is a [rexp]. *)
From QV Require Export Rel.Eval.
Open Scope Z_scope.

Definition ncol (i : nat) (r : list (option Z)) : option Z := nth i r None.
(* SQL equality: never true on NULL *)
Definition keq (a b : option Z) : bool := match a, b with Some x, Some y => x =? y | _, _ => false end.
Definition count_of (rows : list (list (option Z))) : list (option Z) := [Some (Z.of_nat (length rows))].

Inductive cexp :=
| QTable (size : Z * Z) (uniq : list bool) (rows : list (list (option Z)))
| QSel (flt : list (option Z) -> bool) (cols : list nat) (lim off : option Z) (input : cexp)
| QGroup (key : nat) (input : cexp)                 (* SELECT key, COUNT( * ) ... GROUP BY key *)
| QCount (input : cexp)                             (* SELECT COUNT( * ) *)
| QJoin (k : jkind) (li rj : nat) (extra : list (option Z) -> list (option Z) -> bool) (left right : cexp)
| QSet (op : setop) (all : bool) (left right : cexp).

Fixpoint arity (e : cexp) : nat :=
  match e with
  | QTable _ u _ => length u
  | QSel _ cols _ _ _ => length cols
  | QGroup _ _ => 2
  | QCount _ => 1
  | QJoin _ _ _ _ l r => arity l + arity r
  | QSet _ _ l _ => arity l
  end.

(* the unique flag of every output column *)
Fixpoint uflags (e : cexp) : list bool :=
  match e with
  | QTable _ u _ => u
  | QSel _ cols _ _ i => map (fun c => nth c (uflags i) false) cols
  | QGroup _ _ => [true; false]
  | QCount _ => [false]
  | QJoin k li rj _ l r =>
      let ul := match k with JCross => false | _ => nth li (uflags l) false end in
      let ur := match k with JCross => false | _ => nth rj (uflags r) false end in
      map (andb ur) (uflags l) ++ map (andb ul) (uflags r)
  | QSet _ _ l _ => repeat false (arity l)
  end.

Definition on_of (k : jkind) (li rj : nat) (extra : list (option Z) -> list (option Z) -> bool) :=
  fun l r : list (option Z) => match k with JCross => true | _ => keq (ncol li l) (ncol rj r) && extra l r end.

Fixpoint to_rexp (e : cexp) : rexp :=
  match e with
  | QTable s _ rows => XTable s rows
  | QSel f cols lim off i => XMap f (fun r => map (fun c => ncol c r) cols) lim off (to_rexp i)
  | QGroup key i => XReduce (Some (fun r => [ncol key r])) count_of (to_rexp i)
  | QCount i => XReduce None count_of (to_rexp i)
  | QJoin k li rj extra l r =>
      let ul := match k with JCross => false | _ => nth li (uflags l) false end in
      let ur := match k with JCross => false | _ => nth rj (uflags r) false end in
      XJoin k ul ur (on_of k li rj extra) (arity l) (arity r) (to_rexp l) (to_rexp r)
  | QSet op all l r => XSet op all (to_rexp l) (to_rexp r)
  end.

Definition rows_c (e : cexp) : list (list (option Z)) := rows_of (to_rexp e).

(* base tables honour their constraints, column indices exist *)
Fixpoint wfu (e : cexp) : Prop :=
  match e with
  | QTable _ u rows =>
      (forall r, In r rows -> length r = length u) /\
      (forall i, nth i u false = true -> NoDup (colvals i rows))
  | QSel _ cols _ _ i => wfu i /\ (forall c, In c cols -> (c < arity i)%nat)
  | QGroup key i => wfu i /\ (key < arity i)%nat
  | QCount i => wfu i
  | QJoin _ li rj _ l r => wfu l /\ wfu r /\ (li < arity l)%nat /\ (rj < arity r)%nat
  | QSet _ _ l r => wfu l /\ wfu r /\ arity l = arity r
  end.
