(* C07 / C14 — a row-level model of the join kinds, set operations, grouping and literal lists:
   rows are lists of nullable integers, relations are bags (lists) of rows.  It gives the abstract
   cardinality semantics [card] of Rel/Size.v a row-level meaning for joins, the optional wrapping of
   Join::schema its justification, and the uniqueness flags Join::schema / Reduce::schema_aggregate
   keep their proof. *)
From Coq Require Export List ZArith Bool Lia Permutation.
From QV Require Export Rel.Size.
Export ListNotations.
Open Scope Z_scope.

Notation value := (option Z) (only parsing).          (* None = NULL *)
Notation row := (list (option Z)) (only parsing).

(* ---------- column types: a set of integer intervals, NULL allowed or not ---------- *)
Record ctype := { copt : bool; crng : list (Z * Z) }.
Definition zmem (z : Z) (l : list (Z * Z)) : bool := existsb (fun p => (fst p <=? z) && (z <=? snd p)) l.
Definition val_in (v : value) (t : ctype) : bool :=
  match v with None => copt t | Some z => zmem z (crng t) end.
Fixpoint row_in (r : row) (s : list ctype) : bool :=
  match r, s with
  | [], [] => true
  | v :: r', t :: s' => val_in v t && row_in r' s'
  | _, _ => false
  end.
Definition optional (t : ctype) : ctype := {| copt := true; crng := crng t |}.
Definition nulls (n : nat) : row := repeat None n.

(* ---------- joins ---------- *)
Section Join.
Variable P : row -> row -> bool.       (* the ON condition on a pair of rows *)

Definition inner (L R : list row) : list row :=
  flat_map (fun l => map (fun r => l ++ r) (filter (P l) R)) L.
(* the same pairs, enumerated from the right-hand rows *)
Definition inner' (L R : list row) : list row :=
  flat_map (fun r => map (fun l => l ++ r) (filter (fun l => P l r) L)) R.
Definition unmatched_left (L R : list row) : list row := filter (fun l => negb (existsb (P l) R)) L.
Definition unmatched_right (L R : list row) : list row := filter (fun r => negb (existsb (fun l => P l r) L)) R.

Definition join_rows (k : jkind) (nl nr : nat) (L R : list row) : list row :=
  match k with
  | JInner | JCross => inner L R
  | JLeft => inner L R ++ map (fun l => l ++ nulls nr) (unmatched_left L R)
  | JRight => inner L R ++ map (fun r => nulls nl ++ r) (unmatched_right L R)
  | JFull => inner L R ++ map (fun l => l ++ nulls nr) (unmatched_left L R)
                       ++ map (fun r => nulls nl ++ r) (unmatched_right L R)
  end.
End Join.

(* Join::schema: the side an outer join may pad with NULLs becomes optional; the side it does not
   preserve (both sides of an inner join) is narrowed by the ON condition (fl, fr) *)
Definition join_schema (k : jkind) (sl sr fl fr : list ctype) : list ctype :=
  match k with
  | JInner => fl ++ fr
  | JCross => sl ++ sr
  | JLeft => sl ++ map optional fr
  | JRight => map optional fl ++ sr
  | JFull => map optional sl ++ map optional sr
  end.

(* the non-null values of a column *)
Definition colvals (i : nat) (rows : list row) : list Z :=
  flat_map (fun r => match nth i r None with Some z => [z] | None => [] end) rows.

(* Join::schema: a left column keeps its unique flag when the right key is unique, and conversely *)
Definition join_keeps_left (ul ur : bool) : bool := ur.
Definition join_keeps_right (ul ur : bool) : bool := ul.

(* ---------- set operations, grouping, literal lists ---------- *)
Definition row_eqb (a b : row) : bool :=
  (length a =? length b)%nat &&
  forallb (fun p => match p with (Some x, Some y) => x =? y | (None, None) => true | _ => false end) (combine a b).
Fixpoint dedup (l : list row) : list row :=
  match l with [] => [] | r :: l' => if existsb (row_eqb r) l' then dedup l' else r :: dedup l' end.
Definition union_rows (all : bool) (L R : list row) : list row := if all then L ++ R else dedup (L ++ R).

(* one output row per distinct key: FIRST of the key column, over the non-null keys *)
Fixpoint zdedup (l : list Z) : list Z :=
  match l with [] => [] | x :: l' => if existsb (Z.eqb x) l' then zdedup l' else x :: zdedup l' end.
