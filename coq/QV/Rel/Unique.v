(* C14 — uniqueness propagation through projections: model of Expr::reduce_modulo_bijection /
   into_column_modulo_bijection (src/expr/bijection.rs) and of the constraint a Map gives a
   projected column (Map::schema_exprs), generic in the meaning of the functions. *)
From Coq Require Export String List Bool.
Export ListNotations.
Open Scope string_scope.

Inductive uexpr := UCol (n : nat) | UFun (f : string) (args : list uexpr) | UOther.

Section U.
Variable is_bij : string -> bool.     (* Function::is_bijection, from the generated FnMeta.v *)

(* reduce_modulo_bijection: strip bijections applied to their first argument *)
Fixpoint reduce (e : uexpr) : uexpr :=
  match e with
  | UFun f (a :: _) => if is_bij f then reduce a else e
  | _ => e
  end.

Definition into_column (e : uexpr) : option nat :=
  match reduce e with UCol n => Some n | _ => None end.

(* the unary functions stripped on the way to the column, outermost first *)
Fixpoint chain (e : uexpr) : list string :=
  match e with
  | UFun f (a :: _) => if is_bij f then f :: chain a else []
  | _ => []
  end.
End U.

(* functions whose value loses information (not injective on their domain) *)
Definition lossy (f : string) : bool :=
  existsb (String.eqb f)
    ["CastAsInteger"; "CastAsBoolean"; "CastAsDate"; "CastAsTime"; "CastAsDateTime"; "CastAsFloat";
     "Abs"; "Ceil"; "Floor"; "Round"; "Trunc"; "Sign"; "Lower"; "Upper"; "CharLength"; "Sin"; "Cos";
     "Quarter"; "Dayname"; "ExtractYear"; "ExtractMonth"; "ExtractDay"; "ExtractHour"; "ExtractMinute";
     "ExtractSecond"; "ExtractDow"; "ExtractWeek"; "Date"; "IsNull"; "IsBool"; "Not2"].

(* injective over the reals but not on floats (rounding, underflow): known finding *)
(* the functions that keep distinct values distinct on their domain, the only ones a unique flag may be carried through:
   sign change, negation, the increasing real functions (up to float rounding: [rounding] below), a collision-free digest,
   the decimal / hexadecimal writings.  Trimming, case folding, substrings, casts to narrower types merge values. *)
Definition value_preserving (f : string) : bool :=
  existsb (String.eqb f) ["Opposite"; "Not"; "Exp"; "Ln"; "Log"; "Sqrt"; "Md5"; "CastAsText"; "Unhex"].

(* the functions SQL evaluates anew for each row: a column computed by one of them alone holds distinct values (up to
   collisions of the generator); the clock functions CURRENT_DATE / CURRENT_TIME / CURRENT_TIMESTAMP and the constant PI
   are evaluated once per statement and repeat their value on every row *)
Definition fresh_per_row (f : string) : bool := existsb (String.eqb f) ["Random"; "Newid"].

Definition rounding (f : string) : bool := existsb (String.eqb f) ["Exp"; "Ln"; "Log"; "Sqrt"].
