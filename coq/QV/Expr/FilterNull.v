(* C10 on nullable columns: rows hold NULLs, a predicate narrows the input type on the rows where it is
   TRUE (three-valued logic: a comparison with a NULL operand is not true).  The ranges are narrowed by the
   same function [narrow] as for non-null rows; [nflags] says which columns may stop being optional. *)
From QV Require Import Intervals.Model Intervals.Proofs Fn.IntExpr Fn.IntExprProofs Expr.Filter Expr.FilterProofs.
From Coq Require Import ZifyBool.
Open Scope Z_scope.

Fixpoint evalO (env : list (option Z)) (e : expr) : option Z :=
  match e with
  | EVar n => match nth_error env n with Some (Some z) => Some z | _ => None end
  | EConst z => Some z
  | EBin op l r => obind (evalO env l) (fun x => obind (evalO env r) (fun y => Some (bin_value op x y)))
  end.

(* TRUE, as opposed to FALSE or NULL *)
Fixpoint pevalO (env : list (option Z)) (p : pred) : bool :=
  match p with
  | PCmp c l r => match evalO env l, evalO env r with Some x, Some y => cmp_eval c x y | _, _ => false end
  | PAnd p q => pevalO env p && pevalO env q
  | POr p q => pevalO env p || pevalO env q
  | PInList col vs => match nth_error env col with Some (Some x) => existsb (Z.eqb x) vs | _ => false end
  | PConst b => b
  | PBoolCol col => match nth_error env col with Some (Some x) => x =? 1 | _ => false end
  | POther e => match evalO env e with Some x => negb (x =? 0) | None => false end
  end.

(* the columns that cannot be NULL on a row where the predicate is TRUE *)
Fixpoint vars (e : expr) : list nat :=
  match e with EVar n => [n] | EConst _ => [] | EBin _ l r => vars l ++ vars r end.
Definition drop (ns : list nat) (f : list bool) : list bool := fold_right (fun n g => replace_nth n false g) f ns.
Fixpoint zip_or (a b : list bool) : list bool :=
  match a, b with x :: a', y :: b' => (x || y) :: zip_or a' b' | _, _ => [] end.
Fixpoint nflags (f : list bool) (p : pred) : list bool :=
  match p with
  | PCmp _ l r => drop (vars l ++ vars r) f
  | PAnd p q => nflags (nflags f q) p
  | POr p q => zip_or (nflags f p) (nflags f q)
  | PInList col _ | PBoolCol col => drop [col] f
  | PConst _ | POther _ => f
  end.

Section Sound.
Variable cap : nat.
Hypothesis cap_gt2 : (2 < cap)%nat.
Let cap_gt1 : (1 < cap)%nat. Proof. lia. Qed.

Definition col_okO (v : option Z) (S0 : list (Z * Z)) : Prop :=
  WF cap S0 /\ forall z, v = Some z -> mem z S0 = true /\ in_i64 z.
Definition typedO (env : list (option Z)) (t : tenv) : Prop := Forall2 col_okO env t.
Lemma typedO_wf env t : typedO env t -> wf_tenv cap t.
Proof. induction 1 as [|v S0 e t' [W _] _ IH]; constructor; auto. Qed.

Lemma nth_typedO env t n z : typedO env t -> nth_error env n = Some (Some z) ->
  exists S0, nth_error t n = Some S0 /\ WF cap S0 /\ mem z S0 = true /\ in_i64 z.
Proof.
  intros Ht. revert n. induction Ht as [|v S1 env' t' [W H] Hrest IH]; intros [|n]; cbn; try discriminate.
  - intros [= ->]. destruct (H z eq_refl). eauto.
  - apply IH.
Qed.

Lemma replace_nth_typedO env t n S0 v :
  typedO env t -> nth_error env n = Some (Some v) -> WF cap S0 -> mem v S0 = true -> typedO env (replace_nth n S0 t).
Proof.
  intros Ht. revert n. induction Ht as [|x S1 env' t' Hc Hrest IH]; intros [|n] Hn HW Hm; cbn in *; try discriminate.
  - injection Hn as ->. constructor; [|exact Hrest]. split; [exact HW|]. intros z [= <-]. destruct Hc as [_ H]. destruct (H v eq_refl). auto.
  - constructor; [exact Hc|]. apply IH; auto.
Qed.

(* range propagation on a row with NULLs: whatever evaluates lies in the image *)
Lemma expr_soundO e : forall env t y, typedO env t -> consts_ok e -> evalO env e = Some y ->
  exists T, image cap t e = Some T /\ WF cap T /\ mem y T = true /\ in_i64 y.
Proof.
  induction e as [n|z|op l IHl r IHr]; intros env t y Ht Hc He; cbn [evalO image] in *.
  - destruct (nth_error env n) as [[z|]|] eqn:En; try discriminate. injection He as <-.
    destruct (nth_typedO env t n z Ht En) as (S0 & E & W & M & I). eauto.
  - injection He as <-. exists [(z, z)]. split; [reflexivity|]. split; [apply WF_single; lia|].
    split; [cbn; unfold in_itv; cbn; lia|exact Hc].
  - destruct Hc as [Hcl Hcr].
    destruct (evalO env l) as [x|] eqn:El; [|discriminate]. destruct (evalO env r) as [y'|] eqn:Er; [|discriminate].
    cbn [obind] in He. injection He as <-.
    destruct (IHl env t x Ht Hcl El) as (A & EA & WA & MA & IA).
    destruct (IHr env t y' Ht Hcr Er) as (B & EB & WB & MB & IB).
    rewrite EA, EB. cbn [obind].
    destruct (arg_set_ok cap cap_gt2 l A WA) as [WA' MA']. destruct (arg_set_ok cap cap_gt2 r B WB) as [WB' MB'].
    rewrite <- (MA' x) in MA. rewrite <- (MB' y') in MB.
    destruct (bin_image_sound cap cap_gt2 op (arg_set l A) (arg_set r B) x y' WA' WB' MA MB IA IB) as (T & ET & WT & MT).
    exists T. split; [exact ET|]. split; [exact WT|]. split; [exact MT|]. now apply (bin_value_in_i64 cap cap_gt2).
Qed.

Lemma evalO_var env n x : evalO env (EVar n) = Some x -> nth_error env n = Some (Some x).
Proof. cbn. destruct (nth_error env n) as [[z|]|]; congruence. Qed.

Lemma narrow_ge_soundO env t l r x y : typedO env t -> consts_ok l -> consts_ok r ->
  evalO env l = Some x -> evalO env r = Some y -> y <= x -> typedO env (narrow_ge cap t l r).
Proof.
  intros Ht Hl Hr El Er Hxy. unfold narrow_ge.
  destruct (expr_soundO l env t x Ht Hl El) as (A & EA & WA & MA & IA).
  destruct (expr_soundO r env t y Ht Hr Er) as (B & EB & WB & MB & IB).
  rewrite EA, EB.
  assert (H1 : typedO env (match col_of l with
                | Some n => match obind (bin_image cap Greatest A B) (fun G => intersection cap G A) with
                            | Some S0 => replace_nth n S0 t | None => t end
                | None => t end)).
  { destruct (col_of l) as [n|] eqn:Ec; auto. apply col_of_some in Ec. subst l. apply evalO_var in El.
    destruct (bin_image_sound cap cap_gt2 Greatest A B x y WA WB MA MB IA IB) as (G & EG & WG & MG).
    rewrite EG. cbn [obind]. cbn [bin_value] in MG. replace (Z.max x y) with x in MG by lia.
    destruct (intersection_sound cap cap_gt1 G A WG WA) as (S0 & ES & WS & MS). rewrite ES.
    eapply replace_nth_typedO; eauto. apply MS. now rewrite MG, MA. }
  destruct (col_of r) as [n|] eqn:Ec; auto. apply col_of_some in Ec. subst r. apply evalO_var in Er.
  destruct (bin_image_sound cap cap_gt2 Least A B x y WA WB MA MB IA IB) as (L & EL & WL & ML).
  rewrite EL. cbn [obind]. cbn [bin_value] in ML. replace (Z.min x y) with y in ML by lia.
  destruct (intersection_sound cap cap_gt1 L B WL WB) as (S0 & ES & WS & MS). rewrite ES.
  eapply replace_nth_typedO; eauto. apply MS. now rewrite ML, MB.
Qed.

Lemma narrow_eq_soundO env t l r x : typedO env t -> consts_ok l -> consts_ok r ->
  evalO env l = Some x -> evalO env r = Some x -> typedO env (narrow_eq cap t l r).
Proof.
  intros Ht Hl Hr El Er. unfold narrow_eq.
  destruct (expr_soundO l env t x Ht Hl El) as (A & EA & WA & MA & IA).
  destruct (expr_soundO r env t x Ht Hr Er) as (B & EB & WB & MB & IB).
  rewrite EA, EB.
  destruct (intersection_sound cap cap_gt1 A B WA WB) as (S0 & ES & WS & MS). rewrite ES.
  assert (Mx : mem x S0 = true) by (apply MS; now rewrite MA, MB).
  assert (H1 : typedO env (match col_of l with Some n => replace_nth n S0 t | None => t end)).
  { destruct (col_of l) as [n|] eqn:Ec; auto. apply col_of_some in Ec. subst l. apply evalO_var in El.
    eapply replace_nth_typedO; eauto. }
  destruct (col_of r) as [n|] eqn:Ec; auto. apply col_of_some in Ec. subst r. apply evalO_var in Er.
  eapply replace_nth_typedO; eauto.
Qed.

Lemma map2_inter_typedO env : forall x y z, typedO env x -> typedO env y ->
  map2_opt (intersection cap) x y = Some z -> typedO env z.
Proof.
  induction env as [|v env IH]; intros x y z Hx Hy.
  - inversion Hx; inversion Hy; subst. cbn. intros [= <-]. constructor.
  - inversion Hx as [|? a ? x' Ha Hx']; inversion Hy as [|? b ? y' Hb Hy']; subst. cbn [map2_opt].
    destruct Ha as (Wa & Ma). destruct Hb as (Wb & Mb).
    destruct (intersection_sound cap cap_gt1 a b Wa Wb) as (c & Ec & Wc & Mc). rewrite Ec. cbn [obind].
    destruct (map2_opt (intersection cap) x' y') as [t|] eqn:E; [|discriminate]. cbn [obind]. intros [= <-].
    constructor; [|exact (IH x' y' t Hx' Hy' E)].
    split; [exact Wc|]. intros w Hw. destruct (Ma w Hw) as [M1 I1]. destruct (Mb w Hw) as [M2 _].
    split; [|exact I1]. apply Mc. now rewrite M1, M2.
Qed.

Lemma map2_union_typedO env : forall x y z, (typedO env x /\ wf_tenv cap y) \/ (wf_tenv cap x /\ typedO env y) ->
  length x = length y -> map2_opt (union cap) x y = Some z -> typedO env z.
Proof.
  induction env as [|v env IH]; intros x y z Hor Hlen.
  - destruct Hor as [[Hx Hy]|[Hx Hy]].
    + inversion Hx; subst. destruct y; [|discriminate]. cbn. intros [= <-]. constructor.
    + inversion Hy; subst. destruct x; [|discriminate]. cbn. intros [= <-]. constructor.
  - destruct x as [|a x], y as [|b y]; try (destruct Hor as [[H _]|[_ H]]; inversion H; fail); try discriminate.
    cbn [map2_opt].
    assert (Wa : WF cap a) by (destruct Hor as [[H _]|[H _]]; inversion H; subst; auto; match goal with H : col_okO _ _ |- _ => apply H end).
    assert (Wb : WF cap b) by (destruct Hor as [[_ H]|[_ H]]; inversion H; subst; auto; match goal with H : col_okO _ _ |- _ => apply H end).
    destruct (union_sound cap cap_gt1 a b Wa Wb) as (c & Ec & Wc & Mc). rewrite Ec. cbn [obind].
    destruct (map2_opt (union cap) x y) as [t|] eqn:E; [|discriminate]. cbn [obind]. intros [= <-].
    constructor.
    + split; [exact Wc|]. intros w Hw.
      destruct Hor as [[H _]|[_ H]]; inversion H; subst;
      match goal with H : col_okO _ _ |- _ => destruct H as (_ & M) end; destruct (M w eq_refl) as [M1 I1]; split; auto; apply Mc; rewrite M1; auto using orb_true_r.
    + apply (IH x y t); [|cbn in Hlen; lia|exact E].
      destruct Hor as [[Hx Hy]|[Hx Hy]]; [left|right]; inversion Hx; inversion Hy; subst; auto.
Qed.

(* C10 on nullable columns, ranges: a row on which the predicate is TRUE belongs to the narrowed ranges *)
Theorem narrow_soundO p : forall env t, typedO env t -> pred_ok p -> pevalO env p = true ->
  typedO env (narrow cap t p).
Proof.
  induction p as [c l r|p IHp q IHq|p IHp q IHq|col vs|b|bc|e]; intros env t Ht Hp He; cbn [narrow pevalO pred_ok] in *.
  - destruct Hp as [Hl Hr].
    destruct (evalO env l) as [x|] eqn:El; [|discriminate]. destruct (evalO env r) as [y|] eqn:Er; [|discriminate].
    destruct c; cbn [cmp_eval] in He.
    + eapply narrow_ge_soundO; eauto; lia.
    + eapply narrow_ge_soundO; eauto; lia.
    + eapply narrow_ge_soundO; eauto; lia.
    + eapply narrow_ge_soundO; eauto; lia.
    + assert (x = y) by lia. subst. eapply narrow_eq_soundO; eauto.
  - destruct Hp as [Hp Hq]. apply andb_true_iff in He as [He1 He2].
    assert (T1 : typedO env (narrow cap (narrow cap t q) p)) by auto.
    assert (T2 : typedO env (narrow cap (narrow cap t p) q)) by auto.
    destruct (map2_opt (intersection cap) _ _) as [z|] eqn:E; cbn [or_else]; auto.
    exact (map2_inter_typedO env _ _ z T1 T2 E).
  - destruct Hp as [Hp Hq].
    destruct (map2_opt (union cap) (narrow cap t q) (narrow cap t p)) as [z|] eqn:E; cbn [or_else]; auto.
    pose proof (typedO_wf env t Ht) as Wt.
    apply (map2_union_typedO env (narrow cap t q) (narrow cap t p) z); [|rewrite (narrow_length cap cap_gt2 q t), (narrow_length cap cap_gt2 p t); reflexivity|exact E].
    apply orb_true_iff in He as [He|He].
    + right. split; [apply (narrow_wf cap cap_gt2); auto|auto].
    + left. split; [auto|apply (narrow_wf cap cap_gt2); auto].
  - destruct (nth_error env col) as [[x|]|] eqn:Ex; try discriminate.
    destruct (nth_typedO env t col x Ht Ex) as (S0 & En & WS & MS & IS).
    rewrite En.
    destruct (from_intervals_sound cap cap_gt1 _ (values_wf cap cap_gt2 vs)) as (V & EV & WV & MV). rewrite EV. cbn [obind].
    destruct (intersection_sound cap cap_gt1 V S0 WV WS) as (S1 & ES & WS1 & MS1). rewrite ES.
    eapply replace_nth_typedO; eauto. apply MS1. rewrite MS, andb_true_r. apply MV.
    apply existsb_exists in He as (w & Hw & Hx). apply existsb_exists. exists (w, w). split; [apply (in_map (fun v0 => (v0, v0)) vs w Hw)|].
    unfold in_itv; cbn. lia.
  - destruct b; [exact Ht|discriminate].
  - destruct (nth_error env bc) as [[x|]|] eqn:Ex; try discriminate.
    destruct (nth_typedO env t bc x Ht Ex) as (S0 & En & WS & MS & IS).
    rewrite En. destruct S0 as [|[[|?|?] [|?|?]] [|? ?]]; try exact Ht.
    exfalso. cbn in MS. unfold in_itv in MS. cbn in MS. lia.
  - exact Ht.
Qed.
End Sound.

(* ---------- the optional flags ---------- *)
Definition flags_ok (env : list (option Z)) (f : list bool) : Prop := Forall2 (fun v b => v = None -> b = true) env f.

Lemma evalO_vars env e x : evalO env e = Some x -> forall n, In n (vars e) -> exists z, nth_error env n = Some (Some z).
Proof.
  revert x. induction e as [m|z|op l IHl r IHr]; intros x He n Hn; cbn [evalO vars] in *.
  - destruct Hn as [<-|[]]. destruct (nth_error env m) as [[z|]|]; try discriminate. eauto.
  - destruct Hn.
  - destruct (evalO env l) as [a|] eqn:El; [|discriminate]. destruct (evalO env r) as [b|] eqn:Er; [|discriminate].
    apply in_app_or in Hn as [Hn|Hn]; eauto.
Qed.

Lemma replace_flag_ok env f n z : flags_ok env f -> nth_error env n = Some (Some z) -> flags_ok env (replace_nth n false f).
Proof.
  intros Hf. revert n. induction Hf as [|v b env' f' Hv Hrest IH]; intros [|n] Hn; cbn in *; try discriminate.
  - injection Hn as ->. constructor; [discriminate|exact Hrest].
  - constructor; [exact Hv|]. apply IH. exact Hn.
Qed.

Lemma drop_ok env f ns : flags_ok env f -> (forall n, In n ns -> exists z, nth_error env n = Some (Some z)) -> flags_ok env (drop ns f).
Proof.
  intros Hf. induction ns as [|n ns IH]; intros H; cbn [drop fold_right]; [exact Hf|].
  destruct (H n (or_introl eq_refl)) as (z & Hz). eapply replace_flag_ok; [|exact Hz].
  apply IH. intros m Hm. apply H. right. exact Hm.
Qed.

Lemma drop_length ns f : length (drop ns f) = length f.
Proof. induction ns as [|n ns IH]; cbn [drop fold_right]; [reflexivity|]. fold (drop ns f). rewrite replace_nth_length. exact IH. Qed.

Lemma zip_or_length a b : length a = length b -> length (zip_or a b) = length a.
Proof. revert b; induction a as [|x a IH]; intros [|y b]; cbn; try discriminate; auto. Qed.

Lemma nflags_length p : forall f, length (nflags f p) = length f.
Proof.
  induction p as [c l r|p IHp q IHq|p IHp q IHq|col vs|b|bc|e]; intros f; cbn [nflags]; rewrite ?drop_length; auto.
  - rewrite IHp. apply IHq.
  - rewrite zip_or_length; [apply IHp|rewrite IHp, IHq; reflexivity].
Qed.

Lemma zip_or_ok_l env a b : flags_ok env a -> length b = length a -> flags_ok env (zip_or a b).
Proof.
  intros Ha. revert b. induction Ha as [|v x env' a' Hv Hrest IH]; intros [|y b] Hl; cbn in *; try discriminate; constructor.
  - intros E. rewrite (Hv E). reflexivity.
  - apply IH. lia.
Qed.
Lemma zip_or_ok_r env a b : flags_ok env b -> length a = length b -> flags_ok env (zip_or a b).
Proof.
  intros Hb. revert a. induction Hb as [|v y env' b' Hv Hrest IH]; intros [|x a] Hl; cbn in *; try discriminate; constructor.
  - intros E. rewrite (Hv E). apply orb_true_r.
  - apply IH. lia.
Qed.

(* on a row where the predicate is TRUE, a column whose flag is dropped does not hold NULL *)
Theorem nflags_sound p : forall env f, flags_ok env f -> pevalO env p = true -> flags_ok env (nflags f p).
Proof.
  induction p as [c l r|p IHp q IHq|p IHp q IHq|col vs|b|bc|e]; intros env f Hf He; cbn [nflags pevalO] in *.
  - destruct (evalO env l) as [x|] eqn:El; [|discriminate]. destruct (evalO env r) as [y|] eqn:Er; [|discriminate].
    apply drop_ok; [exact Hf|]. intros n Hn. apply in_app_or in Hn as [Hn|Hn].
    + exact (evalO_vars env l x El n Hn).
    + exact (evalO_vars env r y Er n Hn).
  - apply andb_true_iff in He as [H1 H2]. auto.
  - apply orb_true_iff in He as [He|He].
    + apply zip_or_ok_l; [auto|rewrite !nflags_length; reflexivity].
    + apply zip_or_ok_r; [auto|rewrite !nflags_length; reflexivity].
  - destruct (nth_error env col) as [[x|]|] eqn:Ex; try discriminate.
    apply drop_ok; [exact Hf|]. intros n [<-|[]]. eauto.
  - exact Hf.
  - destruct (nth_error env bc) as [[x|]|] eqn:Ex; try discriminate.
    apply drop_ok; [exact Hf|]. intros n [<-|[]]. eauto.
  - exact Hf.
Qed.

