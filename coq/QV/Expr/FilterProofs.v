From QV Require Import Intervals.Model Intervals.Proofs Fn.IntExpr Fn.IntExprProofs Expr.Filter.
From Coq Require Import ZifyBool.
Open Scope Z_scope.

Section Sound.
Variable cap : nat.
Hypothesis cap_gt2 : (2 < cap)%nat.
Let cap_gt1 : (1 < cap)%nat. Proof. lia. Qed.

Definition col_ok (v : Z) (S0 : list (Z * Z)) : Prop := WF cap S0 /\ mem v S0 = true /\ in_i64 v.
Definition typed (env : list Z) (t : tenv) : Prop := Forall2 col_ok env t.
Definition wf_tenv (t : tenv) : Prop := Forall (WF cap) t.

Lemma typed_wf env t : typed env t -> wf_tenv t.
Proof. induction 1 as [|v S0 e t' [W _] _ IH]; constructor; auto. Qed.

Lemma replace_nth_length {A} n (x : A) l : length (replace_nth n x l) = length l.
Proof. revert n; induction l as [|y t IH]; intros [|n]; cbn; auto. Qed.

Lemma replace_nth_wf n S0 t : wf_tenv t -> WF cap S0 -> wf_tenv (replace_nth n S0 t).
Proof.
  intros Ht HS. revert n. induction Ht as [|y t Hy Ht IH]; intros [|n]; cbn; constructor; auto; apply IH.
Qed.

Lemma replace_nth_typed env t n S0 v :
  typed env t -> nth_error env n = Some v -> WF cap S0 -> mem v S0 = true -> typed env (replace_nth n S0 t).
Proof.
  intros Ht. revert n. induction Ht as [|x S1 env' t' Hc Hrest IH]; intros [|n] Hn HW Hm; cbn in *; try discriminate.
  - injection Hn as ->. constructor; [|exact Hrest]. destruct Hc as (_ & _ & I). split; [exact HW|]. split; [exact Hm|exact I].
  - constructor; [exact Hc|]. apply IH; auto.
Qed.

Lemma eval_var env n : eval env (EVar n) = nth_error env n.
Proof. reflexivity. Qed.

Lemma col_of_some e n : col_of e = Some n -> e = EVar n.
Proof. destruct e; cbn; congruence. Qed.

Lemma typed_env_hyp env t : typed env t ->
  Forall2 (fun v S0 => WF cap S0 /\ mem v S0 = true /\ in_i64 v) env t.
Proof. auto. Qed.

(* the narrowing never produces an ill-formed column, whatever the row *)
Lemma inter_some_wf A B : WF cap A -> WF cap B -> exists S0, intersection cap A B = Some S0 /\ WF cap S0.
Proof. intros HA HB. destruct (intersection_sound cap cap_gt1 A B HA HB) as (S0 & E & W & _). eauto. Qed.

Lemma bin_image_wf op A B T : WF cap A -> WF cap B -> bin_image cap op A B = Some T -> WF cap T.
Proof.
  intros HA HB. unfold bin_image.
  destruct (all_boxes_spec cap cap_gt2 op A B HA HB (pieces op) (fun p H => H)) as (l & El & Fl & _).
  rewrite El. cbn [obind]. intros E.
  destruct (from_intervals_sound cap cap_gt1 l Fl) as (T' & ET & WT & _). congruence.
Qed.

Lemma image_wf e : forall t T, wf_tenv t -> consts_ok e -> image cap t e = Some T -> WF cap T.
Proof.
  induction e as [n|z|op l IHl r IHr]; intros t T Ht Hc; cbn [image].
  - clear Hc. revert n. induction Ht as [|y t' Hy Ht' IH]; intros [|n]; cbn; try discriminate.
    + intros [= <-]. exact Hy.
    + apply IH.
  - intros [= <-]. split; [cbn; lia|cbn; lia].
  - destruct Hc as [Hl Hr]. destruct (image cap t l) as [A|] eqn:EA; [|discriminate].
    destruct (image cap t r) as [B|] eqn:EB; [|discriminate]. cbn [obind].
    apply bin_image_wf.
    + apply (arg_set_ok cap cap_gt2). eapply IHl; eauto.
    + apply (arg_set_ok cap cap_gt2). eapply IHr; eauto.
Qed.

Lemma narrow_ge_wf t l r : wf_tenv t -> consts_ok l -> consts_ok r -> wf_tenv (narrow_ge cap t l r).
Proof.
  intros Ht Hl Hr. unfold narrow_ge.
  destruct (image cap t l) as [A|] eqn:EA; auto. destruct (image cap t r) as [B|] eqn:EB; auto.
  pose proof (image_wf l t A Ht Hl EA) as WA. pose proof (image_wf r t B Ht Hr EB) as WB.
  assert (H1 : wf_tenv (match col_of l with
                | Some n => match obind (bin_image cap Greatest A B) (fun G => intersection cap G A) with
                            | Some S0 => replace_nth n S0 t | None => t end
                | None => t end)).
  { destruct (col_of l); auto. destruct (bin_image cap Greatest A B) as [G|] eqn:EG; cbn [obind]; auto.
    pose proof (bin_image_wf _ _ _ _ WA WB EG) as WG.
    destruct (inter_some_wf G A WG WA) as (S0 & -> & W). now apply replace_nth_wf. }
  destruct (col_of r); auto. destruct (bin_image cap Least A B) as [L|] eqn:EL; cbn [obind]; auto.
  pose proof (bin_image_wf _ _ _ _ WA WB EL) as WL.
  destruct (inter_some_wf L B WL WB) as (S0 & -> & W). now apply replace_nth_wf.
Qed.

Lemma narrow_eq_wf t l r : wf_tenv t -> consts_ok l -> consts_ok r -> wf_tenv (narrow_eq cap t l r).
Proof.
  intros Ht Hl Hr. unfold narrow_eq.
  destruct (image cap t l) as [A|] eqn:EA; auto. destruct (image cap t r) as [B|] eqn:EB; auto.
  pose proof (image_wf l t A Ht Hl EA) as WA. pose proof (image_wf r t B Ht Hr EB) as WB.
  destruct (inter_some_wf A B WA WB) as (S0 & -> & W).
  destruct (col_of l), (col_of r); auto using replace_nth_wf.
Qed.

Lemma map2_wf (f : list (Z * Z) -> list (Z * Z) -> option (list (Z * Z))) :
  (forall a b c, WF cap a -> WF cap b -> f a b = Some c -> WF cap c) ->
  forall x y z, wf_tenv x -> wf_tenv y -> map2_opt f x y = Some z -> wf_tenv z.
Proof.
  intros Hf x. induction x as [|a x IH]; intros [|b y] z Hx Hy; cbn; try discriminate.
  - intros [= <-]. constructor.
  - inversion Hx; inversion Hy; subst.
    destruct (f a b) as [c|] eqn:E; [|discriminate]. cbn [obind].
    destruct (map2_opt f x y) as [t|] eqn:E2; [|discriminate]. cbn [obind]. intros [= <-].
    constructor; [eapply (Hf a b c); eauto|eapply (IH y t); eauto].
Qed.

Lemma inter_wf_out a b c : WF cap a -> WF cap b -> intersection cap a b = Some c -> WF cap c.
Proof. intros Ha Hb E. destruct (intersection_sound cap cap_gt1 a b Ha Hb) as (r & Er & W & _). congruence. Qed.
Lemma union_wf_out a b c : WF cap a -> WF cap b -> union cap a b = Some c -> WF cap c.
Proof. intros Ha Hb E. destruct (union_sound cap cap_gt1 a b Ha Hb) as (r & Er & W & _). congruence. Qed.

Fixpoint pred_ok (p : pred) : Prop :=
  match p with
  | PCmp _ l r => consts_ok l /\ consts_ok r
  | PAnd p q | POr p q => pred_ok p /\ pred_ok q
  | PInList _ vs => Forall in_i64 vs
  | PConst _ => True
  | PBoolCol _ => True
  | POther e => consts_ok e
  end.

Lemma values_wf vs : Forall (fun i : Z * Z => fst i <= snd i) (map (fun v => (v, v)) vs).
Proof. induction vs; cbn; constructor; cbn; auto; lia. Qed.

Lemma narrow_wf p : forall t, wf_tenv t -> pred_ok p -> wf_tenv (narrow cap t p).
Proof.
  induction p as [c l r|p IHp q IHq|p IHp q IHq|col vs|b|bc|e]; intros t Ht Hp; cbn [narrow pred_ok] in *.
  - destruct Hp as [Hl Hr]. destruct c; auto using narrow_ge_wf, narrow_eq_wf.
  - destruct Hp as [Hp Hq].
    destruct (map2_opt (intersection cap) (narrow cap (narrow cap t q) p) (narrow cap (narrow cap t p) q)) as [z|] eqn:E; cbn [or_else]; auto.
    eapply (map2_wf (intersection cap) inter_wf_out); [| |exact E]; auto.
  - destruct Hp as [Hp Hq].
    destruct (map2_opt (union cap) (narrow cap t q) (narrow cap t p)) as [z|] eqn:E; cbn [or_else]; auto.
    eapply (map2_wf (union cap) union_wf_out); [| |exact E]; auto.
  - destruct (nth_error t col) as [S0|] eqn:En; auto.
    destruct (from_intervals_sound cap cap_gt1 _ (values_wf vs)) as (V & EV & WV & _). rewrite EV. cbn [obind].
    assert (WS : WF cap S0).
    { clear -Ht En. revert col En. induction Ht as [|y t' Hy Ht' IH]; intros [|n]; cbn; try discriminate.
      - intros [= <-]; auto.
      - apply IH. }
    destruct (inter_some_wf V S0 WV WS) as (S1 & -> & W). now apply replace_nth_wf.
  - destruct b; auto. clear Ht. induction t; cbn; constructor; auto. apply (WF_nil cap cap_gt1).
  - assert (E : wf_tenv (map (fun _ : list (Z * Z) => @nil (Z * Z)) t)).
    { clear Ht. induction t; cbn; constructor; auto. apply (WF_nil cap cap_gt1). }
    destruct (nth_error t bc) as [[|[[|?|?] [|?|?]] [|? ?]]|]; auto.
  - exact Ht.
Qed.

Lemma narrow_length p : forall t, length (narrow cap t p) = length t.
Proof.
  assert (M : forall f x y z, length x = length y -> @map2_opt (list (Z * Z)) f x y = Some z -> length z = length x).
  { intros f x. induction x as [|a x IH]; intros [|b y] z; cbn; try discriminate.
    - intros _ [= <-]. reflexivity.
    - intros Hl. destruct (f a b); [|discriminate]. cbn [obind]. destruct (map2_opt f x y) eqn:E; [|discriminate].
      cbn [obind]. intros [= <-]. cbn. f_equal. eapply IH; [|exact E]. lia. }
  induction p as [c l r|p IHp q IHq|p IHp q IHq|col vs|b|bc|e]; intros t; cbn [narrow].
  - assert (G : forall l r, length (narrow_ge cap t l r) = length t).
    { intros l0 r0. unfold narrow_ge. destruct (image cap t l0) as [A|]; auto. destruct (image cap t r0) as [B|]; auto.
      set (t1 := match col_of l0 with
                 | Some n => match obind (bin_image cap Greatest A B) (fun G => intersection cap G A) with
                             | Some S0 => replace_nth n S0 t | None => t end
                 | None => t end).
      assert (L1 : length t1 = length t).
      { unfold t1. destruct (col_of l0); auto. destruct (obind _ _); auto. apply replace_nth_length. }
      destruct (col_of r0) as [n|]; [|exact L1]. destruct (obind (bin_image cap Least A B) _) as [S1|]; [|exact L1].
      rewrite replace_nth_length. exact L1. }
    destruct c; auto. unfold narrow_eq. destruct (image cap t l) as [A|]; auto. destruct (image cap t r) as [B|]; auto.
    destruct (intersection cap A B); auto. destruct (col_of l), (col_of r); rewrite ?replace_nth_length; auto.
  - destruct (map2_opt (intersection cap) (narrow cap (narrow cap t q) p) (narrow cap (narrow cap t p) q)) as [z|] eqn:E; cbn [or_else]; auto.
    assert (L : length (narrow cap (narrow cap t q) p) = length (narrow cap (narrow cap t p) q)) by (rewrite (IHp (narrow cap t q)), (IHq t), (IHq (narrow cap t p)), (IHp t); reflexivity).
    rewrite (M _ _ _ _ L E). now rewrite (IHp (narrow cap t q)), (IHq t).
  - destruct (map2_opt (union cap) (narrow cap t q) (narrow cap t p)) as [z|] eqn:E; cbn [or_else]; auto.
    assert (L : length (narrow cap t q) = length (narrow cap t p)) by (rewrite (IHq t), (IHp t); reflexivity).
    rewrite (M _ _ _ _ L E). apply IHq.
  - destruct (nth_error t col); auto. destruct (obind _ _); auto. apply replace_nth_length.
  - destruct b; auto. apply map_length.
  - destruct (nth_error t bc) as [[|[[|?|?] [|?|?]] [|? ?]]|]; auto. apply map_length.
  - reflexivity.
Qed.

(* ---------- soundness ---------- *)

Lemma narrow_ge_sound env t l r x y : typed env t -> consts_ok l -> consts_ok r ->
  eval env l = Some x -> eval env r = Some y -> y <= x -> typed env (narrow_ge cap t l r).
Proof.
  intros Ht Hl Hr El Er Hxy. unfold narrow_ge.
  destruct (expr_sound cap cap_gt2 l env t x Ht Hl El) as (A & EA & WA & MA & IA).
  destruct (expr_sound cap cap_gt2 r env t y Ht Hr Er) as (B & EB & WB & MB & IB).
  rewrite EA, EB.
  assert (H1 : typed env (match col_of l with
                | Some n => match obind (bin_image cap Greatest A B) (fun G => intersection cap G A) with
                            | Some S0 => replace_nth n S0 t | None => t end
                | None => t end)).
  { destruct (col_of l) as [n|] eqn:Ec; auto. apply col_of_some in Ec. subst l. cbn [eval] in El.
    destruct (bin_image_sound cap cap_gt2 Greatest A B x y WA WB MA MB IA IB) as (G & EG & WG & MG).
    rewrite EG. cbn [obind]. cbn [bin_value] in MG. replace (Z.max x y) with x in MG by lia.
    destruct (intersection_sound cap cap_gt1 G A WG WA) as (S0 & ES & WS & MS). rewrite ES.
    eapply replace_nth_typed; eauto. apply MS. now rewrite MG, MA. }
  destruct (col_of r) as [n|] eqn:Ec; auto. apply col_of_some in Ec. subst r. cbn [eval] in Er.
  destruct (bin_image_sound cap cap_gt2 Least A B x y WA WB MA MB IA IB) as (L & EL & WL & ML).
  rewrite EL. cbn [obind]. cbn [bin_value] in ML. replace (Z.min x y) with y in ML by lia.
  destruct (intersection_sound cap cap_gt1 L B WL WB) as (S0 & ES & WS & MS). rewrite ES.
  eapply replace_nth_typed; eauto. apply MS. now rewrite ML, MB.
Qed.

Lemma narrow_eq_sound env t l r x : typed env t -> consts_ok l -> consts_ok r ->
  eval env l = Some x -> eval env r = Some x -> typed env (narrow_eq cap t l r).
Proof.
  intros Ht Hl Hr El Er. unfold narrow_eq.
  destruct (expr_sound cap cap_gt2 l env t x Ht Hl El) as (A & EA & WA & MA & IA).
  destruct (expr_sound cap cap_gt2 r env t x Ht Hr Er) as (B & EB & WB & MB & IB).
  rewrite EA, EB.
  destruct (intersection_sound cap cap_gt1 A B WA WB) as (S0 & ES & WS & MS). rewrite ES.
  assert (Mx : mem x S0 = true) by (apply MS; now rewrite MA, MB).
  assert (H1 : typed env (match col_of l with Some n => replace_nth n S0 t | None => t end)).
  { destruct (col_of l) as [n|] eqn:Ec; auto. apply col_of_some in Ec. subst l. cbn [eval] in El.
    eapply replace_nth_typed; eauto. }
  destruct (col_of r) as [n|] eqn:Ec; auto. apply col_of_some in Ec. subst r. cbn [eval] in Er.
  eapply replace_nth_typed; eauto.
Qed.

Lemma map2_inter_typed env : forall x y z, typed env x -> typed env y ->
  map2_opt (intersection cap) x y = Some z -> typed env z.
Proof.
  induction env as [|v env IH]; intros x y z Hx Hy.
  - inversion Hx; inversion Hy; subst. cbn. intros [= <-]. constructor.
  - inversion Hx as [|? a ? x' Ha Hx']; inversion Hy as [|? b ? y' Hb Hy']; subst. cbn [map2_opt].
    destruct Ha as (Wa & Ma & Iv). destruct Hb as (Wb & Mb & _).
    destruct (intersection_sound cap cap_gt1 a b Wa Wb) as (c & Ec & Wc & Mc). rewrite Ec. cbn [obind].
    destruct (map2_opt (intersection cap) x' y') as [t|] eqn:E; [|discriminate]. cbn [obind]. intros [= <-].
    constructor; [|exact (IH x' y' t Hx' Hy' E)].
    split; [exact Wc|]. split; [|exact Iv]. apply Mc. now rewrite Ma, Mb.
Qed.

Lemma map2_union_typed env : forall x y z, (typed env x /\ wf_tenv y) \/ (wf_tenv x /\ typed env y) ->
  length x = length y -> map2_opt (union cap) x y = Some z -> typed env z.
Proof.
  induction env as [|v env IH]; intros x y z Hor Hlen.
  - destruct Hor as [[Hx Hy]|[Hx Hy]].
    + inversion Hx; subst. destruct y; [|discriminate]. cbn. intros [= <-]. constructor.
    + inversion Hy; subst. destruct x; [|discriminate]. cbn. intros [= <-]. constructor.
  - destruct x as [|a x], y as [|b y]; try (destruct Hor as [[H _]|[_ H]]; inversion H; fail); try discriminate.
    cbn [map2_opt].
    assert (Wa : WF cap a) by (destruct Hor as [[H _]|[H _]]; inversion H; subst; auto; match goal with H : col_ok _ _ |- _ => apply H end).
    assert (Wb : WF cap b) by (destruct Hor as [[_ H]|[_ H]]; inversion H; subst; auto; match goal with H : col_ok _ _ |- _ => apply H end).
    destruct (union_sound cap cap_gt1 a b Wa Wb) as (c & Ec & Wc & Mc). rewrite Ec. cbn [obind].
    destruct (map2_opt (union cap) x y) as [t|] eqn:E; [|discriminate]. cbn [obind]. intros [= <-].
    constructor.
    + destruct Hor as [[H _]|[_ H]]; inversion H; subst;
      match goal with H : col_ok _ _ |- _ => destruct H as (_ & M & I) end; split; auto; split; auto; apply Mc; rewrite M; auto using orb_true_r.
    + apply (IH x y t); [|cbn in Hlen; lia|exact E].
      destruct Hor as [[Hx Hy]|[Hx Hy]]; [left|right]; inversion Hx; inversion Hy; subst; auto.
Qed.

(* C10: a row of the input type on which the predicate is true belongs to the narrowed type *)
Theorem narrow_sound p : forall env t, typed env t -> pred_ok p -> peval env p = true ->
  typed env (narrow cap t p).
Proof.
  induction p as [c l r|p IHp q IHq|p IHp q IHq|col vs|b|bc|e]; intros env t Ht Hp He; cbn [narrow peval pred_ok] in *.
  - destruct Hp as [Hl Hr].
    destruct (eval env l) as [x|] eqn:El; [|discriminate]. destruct (eval env r) as [y|] eqn:Er; [|discriminate].
    destruct c; cbn [cmp_eval] in He.
    + eapply narrow_ge_sound; eauto; lia.
    + eapply narrow_ge_sound; eauto; lia.
    + eapply narrow_ge_sound; eauto; lia.
    + eapply narrow_ge_sound; eauto; lia.
    + assert (x = y) by lia. subst. eapply narrow_eq_sound; eauto.
  - destruct Hp as [Hp Hq]. apply andb_true_iff in He as [He1 He2].
    assert (T1 : typed env (narrow cap (narrow cap t q) p)) by auto.
    assert (T2 : typed env (narrow cap (narrow cap t p) q)) by auto.
    destruct (map2_opt (intersection cap) _ _) as [z|] eqn:E; cbn [or_else]; auto.
    exact (map2_inter_typed env _ _ z T1 T2 E).
  - destruct Hp as [Hp Hq].
    destruct (map2_opt (union cap) (narrow cap t q) (narrow cap t p)) as [z|] eqn:E; cbn [or_else]; auto.
    pose proof (typed_wf env t Ht) as Wt.
    apply (map2_union_typed env (narrow cap t q) (narrow cap t p) z); [|rewrite (narrow_length q t), (narrow_length p t); reflexivity|exact E].
    apply orb_true_iff in He as [He|He].
    + right. split; [apply narrow_wf; auto|auto].
    + left. split; [auto|apply narrow_wf; auto].
  - destruct (nth_error env col) as [x|] eqn:Ex; [|discriminate].
    assert (exists S0, nth_error t col = Some S0 /\ col_ok x S0) as (S0 & En & (WS & MS & IS)).
    { clear -Ht Ex. revert col Ex. induction Ht as [|v S1 env' t' Hc Hrest IH]; intros [|n]; cbn; try discriminate.
      - intros [= <-]; eauto.
      - apply IH. }
    rewrite En.
    destruct (from_intervals_sound cap cap_gt1 _ (values_wf vs)) as (V & EV & WV & MV). rewrite EV. cbn [obind].
    destruct (intersection_sound cap cap_gt1 V S0 WV WS) as (S1 & ES & WS1 & MS1). rewrite ES.
    eapply replace_nth_typed; eauto. apply MS1. rewrite MS, andb_true_r. apply MV.
    apply existsb_exists in He as (w & Hw & Hx). apply existsb_exists. exists (w, w). split; [apply (in_map (fun v0 => (v0, v0)) vs w Hw)|].
    unfold in_itv; cbn. lia.
  - destruct b; [exact Ht|discriminate].
  - destruct (nth_error env bc) as [x|] eqn:Ex; [|discriminate].
    assert (exists S0, nth_error t bc = Some S0 /\ col_ok x S0) as (S0 & En & (WS & MS & IS)).
    { clear -Ht Ex. revert bc Ex. induction Ht as [|v S1 env' t' Hc Hrest IH]; intros [|n]; cbn; try discriminate.
      - intros [= <-]; eauto.
      - apply IH. }
    rewrite En. destruct S0 as [|[[|?|?] [|?|?]] [|? ?]]; try exact Ht.
    (* the type is the single value false, the row has true there: impossible *)
    exfalso. cbn in MS. unfold in_itv in MS. cbn in MS. lia.
  - exact Ht.
Qed.
End Sound.
