(* C10 — model of DataType::filter (src/expr/mod.rs: filter, filter_by_value, filter_by_function,
   replace) for struct types whose columns are integer interval sets, with the predicates built
   from the integer expression language of QV/Fn/IntExpr.v. *)
From QV Require Import Intervals.Model Fn.IntExpr.
Open Scope Z_scope.

Inductive cmp := CGt | CGtEq | CLt | CLtEq | CEq.

Inductive pred :=
| PCmp (c : cmp) (l r : expr)
| PAnd (p q : pred)
| POr (p q : pred)
| PInList (col : nat) (vs : list Z)
| PConst (b : bool)
| PBoolCol (col : nat)        (* a bare boolean column as predicate; booleans are 0 / 1 *)
| POther (e : expr).          (* any other predicate: NOT, <>, functions ...: no narrowing *)

Definition cmp_eval (c : cmp) (x y : Z) : bool :=
  match c with
  | CGt => y <? x | CGtEq => y <=? x | CLt => x <? y | CLtEq => x <=? y | CEq => x =? y
  end.

(* two-valued on non-null integer rows; an expression that does not evaluate makes the predicate not true *)
Fixpoint peval (env : list Z) (p : pred) : bool :=
  match p with
  | PCmp c l r => match eval env l, eval env r with Some x, Some y => cmp_eval c x y | _, _ => false end
  | PAnd p q => peval env p && peval env q
  | POr p q => peval env p || peval env q
  | PInList col vs => match nth_error env col with Some x => existsb (Z.eqb x) vs | None => false end
  | PConst b => b
  | PBoolCol col => match nth_error env col with Some x => x =? 1 | None => false end
  | POther e => match eval env e with Some x => negb (x =? 0) | None => false end
  end.

Definition tenv := list (list (Z * Z)).

Fixpoint replace_nth {A} (n : nat) (x : A) (l : list A) : list A :=
  match n, l with
  | O, _ :: t => x :: t
  | S n', y :: t => y :: replace_nth n' x t
  | _, [] => []
  end.

(* Struct::super_intersection / super_union: field by field *)
Fixpoint map2_opt {A} (f : A -> A -> option A) (x y : list A) : option (list A) :=
  match x, y with
  | [], [] => Some []
  | a :: x', b :: y' => obind (f a b) (fun c => obind (map2_opt f x' y') (fun t => Some (c :: t)))
  | _, _ => None
  end.

Definition col_of (e : expr) : option nat := match e with EVar n => Some n | _ => None end.

Definition or_else {A} (x : option A) (d : A) : A := match x with Some a => a | None => d end.

Section F.
Variable cap : nat.

(* Gt / GtEq (left, right)  — Lt / LtEq arrive with the operands swapped *)
Definition narrow_ge (t : tenv) (l r : expr) : tenv :=
  match image cap t l, image cap t r with
  | Some A, Some B =>
      let t1 := match col_of l with
                | Some n => match obind (bin_image cap Greatest A B) (fun G => intersection cap G A) with
                            | Some S0 => replace_nth n S0 t
                            | None => t
                            end
                | None => t
                end in
      match col_of r with
      | Some n => match obind (bin_image cap Least A B) (fun L => intersection cap L B) with
                  | Some S0 => replace_nth n S0 t1
                  | None => t1
                  end
      | None => t1
      end
  | _, _ => t
  end.

Definition narrow_eq (t : tenv) (l r : expr) : tenv :=
  match image cap t l, image cap t r with
  | Some A, Some B =>
      match intersection cap A B with
      | Some S0 =>
          let t1 := match col_of l with Some n => replace_nth n S0 t | None => t end in
          match col_of r with Some n => replace_nth n S0 t1 | None => t1 end
      | None => t
      end
  | _, _ => t
  end.

Fixpoint narrow (t : tenv) (p : pred) : tenv :=
  match p with
  | PCmp CGt l r | PCmp CGtEq l r => narrow_ge t l r
  | PCmp CLt l r | PCmp CLtEq l r => narrow_ge t r l
  | PCmp CEq l r => narrow_eq t l r
  | PAnd p q =>
      let dt1 := narrow (narrow t q) p in
      let dt2 := narrow (narrow t p) q in
      or_else (map2_opt (intersection cap) dt1 dt2) t
  | POr p q =>
      let dt1 := narrow t q in
      let dt2 := narrow t p in
      or_else (map2_opt (union cap) dt1 dt2) t
  | PInList col vs =>
      match nth_error t col with
      | Some S0 =>
          match obind (from_intervals cap (map (fun v => (v, v)) vs)) (fun V => intersection cap V S0) with
          | Some S1 => replace_nth col S1 t
          | None => t
          end
      | None => t
      end
  | PConst false => map (fun _ => []) t       (* try_empty *)
  | PConst true => t
  (* filter_by_column: only a column whose type is the single value false empties the type *)
  | PBoolCol col =>
      match nth_error t col with
      | Some [(0, 0)] => map (fun _ => []) t
      | _ => t
      end
  | POther _ => t
  end.
End F.
