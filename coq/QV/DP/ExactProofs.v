From QV Require Import DP.Exact.
From Coq Require Import Lia Lqa Qfield.
Open Scope Q_scope.

Lemma qlen_cons x l : qlen (x :: l) == 1 + qlen l.
Proof.
  unfold qlen. cbn [length]. rewrite Nat2Z.inj_succ. unfold Z.succ. rewrite inject_Z_plus. ring.
Qed.

Lemma qlen_nonneg l : 0 <= qlen l.
Proof. unfold qlen. change 0 with (inject_Z 0). rewrite <- Zle_Qle. lia. Qed.

Lemma qlen_pos x l : 0 < qlen (x :: l).
Proof. rewrite qlen_cons. pose proof (qlen_nonneg l). lra. Qed.

Lemma qlen_ge1 x l : 1 <= qlen (x :: l).
Proof. rewrite qlen_cons. pose proof (qlen_nonneg l). lra. Qed.

(* sum of squared deviations from any m *)
Lemma dev_expand m l :
  qsum (map (fun x => (x - m) * (x - m)) l) == qsumsq l - 2 * m * qsum l + qlen l * m * m.
Proof.
  induction l as [|x t IH].
  - unfold qsumsq, qlen. cbn. ring.
  - unfold qsumsq in *. cbn [map qsum]. rewrite IH, qlen_cons. ring.
Qed.

Lemma Qmax_1_len x l : Qmax 1 (qlen (x :: l)) == qlen (x :: l).
Proof. apply Q.max_r. apply qlen_ge1. Qed.

(* population variance = E[x^2] - E[x]^2 *)
Lemma variance_moments l : l <> [] ->
  variance l == qsumsq l / qlen l - (qsum l / qlen l) * (qsum l / qlen l).
Proof.
  destruct l as [|x t]; [congruence|]. intros _.
  unfold variance. rewrite dev_expand. unfold mean.
  pose proof (qlen_pos x t) as Hp.
  field. intros H. rewrite H in Hp. apply (Qlt_irrefl _ Hp).
Qed.

Lemma variance_nonneg l : l <> [] -> 0 <= variance l.
Proof.
  destruct l as [|x t]; [congruence|]. intros _. unfold variance.
  apply Qle_shift_div_l; [apply qlen_pos|]. rewrite Qmult_0_l.
  generalize (mean (x :: t)). intros m. generalize (x :: t). intros l.
  induction l as [|y l IH]; cbn [map qsum]; [apply Qle_refl|].
  assert (0 <= (y - m) * (y - m)) by (destruct (Qlt_le_dec (y - m) 0); nra).
  lra.
Qed.

Section Exact.
  Variable l : list (option Q).
  Hypothesis nonempty : nonnull l <> [].

  Lemma count_pos : Qmax 1 (s_count l) == s_count l.
  Proof. unfold s_count. destruct (nonnull l) as [|x t]; [congruence|]. apply Qmax_1_len. Qed.

  (* AVG reassembled from the sums is the mean of the non-null values *)
  Lemma dp_avg_exact : dp_avg l == mean (nonnull l).
  Proof. unfold dp_avg. rewrite count_pos. reflexivity. Qed.

  (* VAR reassembled from the sums is the population variance of the non-null values *)
  Lemma dp_var_exact : dp_var l == variance (nonnull l).
  Proof.
    unfold dp_var. rewrite count_pos. unfold s_square, s_sum, s_count.
    rewrite <- (variance_moments _ nonempty). apply Q.max_r. apply variance_nonneg, nonempty.
  Qed.
End Exact.

(* the expression before the repair is not the variance *)
Lemma dp_var_old_refuted : exists l, nonnull l <> [] /\ ~ dp_var_old l == variance (nonnull l).
Proof.
  exists [Some 2; Some 4]. split; [discriminate|]. vm_compute. discriminate.
Qed.

(* empty groups (public keys without data): count and sum are zero, the mean is 0 / 1 *)
Lemma empty_group l : nonnull l = [] -> dp_count l == 0 /\ dp_sum l == 0 /\ dp_avg l == 0 /\ dp_var l == 0.
Proof.
  intros H. unfold dp_count, dp_sum, dp_avg, dp_var, s_count, s_sum, s_square. rewrite H. vm_compute. tauto.
Qed.

(* DISTINCT: when no value is shared between two units the per-unit de-duplication is the
   de-duplication of the values *)
Lemma oq_eqb_refl a : oq_eqb a a = true.
Proof. destruct a; cbn; [apply Qeq_bool_iff; reflexivity|reflexivity]. Qed.

Lemma ddedup_unshared rows :
  shared rows = false -> map snd (ddedup rows) = vdedup (map snd rows).
Proof.
  induction rows as [|r t IH]; intros Hs; [reflexivity|].
  cbn [ddedup map vdedup].
  assert (Ht : shared t = false).
  { apply not_true_is_false. intros H. apply not_true_iff_false in Hs. apply Hs.
    unfold shared in *. apply existsb_exists in H. destruct H as [a [Ha H]].
    apply existsb_exists in H. destruct H as [b [Hb H]].
    apply existsb_exists. exists a. split; [right; exact Ha|].
    apply existsb_exists. exists b. split; [right; exact Hb|exact H]. }
  assert (Heq : existsb (drow_eqb r) t = existsb (oq_eqb (snd r)) (map snd t)).
  { destruct (existsb (oq_eqb (snd r)) (map snd t)) eqn:He.
    - apply existsb_exists in He. destruct He as [v [Hv He]]. apply in_map_iff in Hv.
      destruct Hv as [r' [<- Hr']]. apply existsb_exists. exists r'. split; [exact Hr'|].
      unfold drow_eqb. rewrite He, andb_true_r.
      destruct (fst r =? fst r')%Z eqn:Hu; [reflexivity|]. exfalso.
      apply not_true_iff_false in Hs. apply Hs. unfold shared.
      apply existsb_exists. exists r. split; [left; reflexivity|].
      apply existsb_exists. exists r'. split; [right; exact Hr'|]. rewrite Hu, He. reflexivity.
    - apply not_true_is_false. intros H. apply existsb_exists in H. destruct H as [r' [Hr' H]].
      unfold drow_eqb in H. apply andb_true_iff in H. destruct H as [_ H].
      apply not_true_iff_false in He. apply He. apply existsb_exists. exists (snd r').
      split; [apply in_map, Hr'|exact H]. }
  rewrite Heq. destruct (existsb (oq_eqb (snd r)) (map snd t)); cbn [map]; rewrite (IH Ht); reflexivity.
Qed.

Lemma dp_distinct_exact a rows :
  shared rows = false -> dp_value a true rows = eval_agg a (vdedup (map snd rows)).
Proof. intros H. unfold dp_value. rewrite (ddedup_unshared _ H). reflexivity. Qed.

(* a value held by two units is counted once per unit: the DP value differs from the DISTINCT one *)
Lemma dp_distinct_shared_refuted :
  exists rows, shared rows = true /\ ~ dp_value ACount true rows == eval_agg ACount (vdedup (map snd rows)).
Proof. exists [(1%Z, Some 5); (2%Z, Some 5)]. split; [reflexivity|]. vm_compute. discriminate. Qed.

Lemma In_firstn : forall (A : Type) n (l : list A) x, In x (firstn n l) -> In x l.
Proof. intros A n. induction n as [|n IH]; intros [|y l] x H; cbn [firstn] in H; try contradiction.
  destruct H as [H|H]; [left; exact H|right; apply IH; exact H]. Qed.
Lemma In_skipn : forall (A : Type) n (l : list A) x, In x (skipn n l) -> In x l.
Proof. intros A n. induction n as [|n IH]; intros [|y l] x H; cbn [skipn] in H; try exact H.
  right. apply IH. exact H. Qed.

Lemma window_map : forall (A B : Type) (f : A -> B) lim off (l : list A),
  window lim off (map f l) = map f (window lim off l).
Proof. intros A B f lim off l. unfold window. rewrite skipn_map, firstn_map. reflexivity. Qed.

(* if the rewritten aggregates of every group are the exact ones, so are those of every window of the groups *)
Lemma window_exact : forall (G R : Type) (dp ex : G -> R) (eqR : R -> R -> Prop) lim off (groups : list G),
  (forall g, In g groups -> eqR (dp g) (ex g)) ->
  Forall2 eqR (window lim off (map dp groups)) (window lim off (map ex groups)).
Proof.
  intros G R dp ex eqR lim off groups H. rewrite !window_map.
  assert (Hin : forall g, In g (window lim off groups) -> In g groups).
  { intros g Hg. unfold window in Hg. apply In_firstn in Hg. apply In_skipn in Hg. exact Hg. }
  induction (window lim off groups) as [|g gs IH]; cbn [map]; constructor.
  - apply H, Hin. left. reflexivity.
  - apply IH. intros g' Hg'. apply Hin. right. exact Hg'.
Qed.
