From QV Require Import DP.Clip.
From Coq Require Import Lra Lia.
Open Scope R_scope.

Lemma sumsq_nonneg v : 0 <= sumsq v.
Proof. induction v as [|x t IH]; cbn [sumsq]; [lra|]. pose proof (Rle_0_sqr x) as H. unfold Rsqr in H. lra. Qed.

Lemma sumsq_scale s v : sumsq (map (Rmult s) v) = s * s * sumsq v.
Proof. induction v as [|x t IH]; cbn [map sumsq]; [ring|]. rewrite IH. ring. Qed.

Lemma norm_nonneg v : 0 <= norm v.
Proof. apply sqrt_pos. Qed.

Lemma norm_sq v : norm v * norm v = sumsq v.
Proof. apply sqrt_sqrt, sumsq_nonneg. Qed.

Lemma factor_bounds C v : 0 < C -> 0 < factor C v <= 1.
Proof.
  intros HC. unfold factor. assert (H1 : 1 <= Rmax 1 (norm v / C)) by apply Rmax_l.
  split.
  - apply Rdiv_lt_0_compat; lra.
  - unfold Rdiv. rewrite Rmult_1_l. rewrite <- Rinv_1 at 2. apply Rinv_le_contravar; lra.
Qed.

(* the clipped vector has norm at most C *)
Lemma clip_sumsq C v : 0 < C -> sumsq (clip C v) <= C * C.
Proof.
  intros HC. unfold clip. rewrite sumsq_scale. rewrite <- norm_sq.
  set (n := norm v). set (m := Rmax 1 (n / C)).
  assert (Hn : 0 <= n) by apply norm_nonneg.
  assert (Hm1 : 1 <= m) by apply Rmax_l.
  assert (Hm2 : n / C <= m) by apply Rmax_r.
  assert (Hnm : n <= m * C).
  { apply (Rmult_le_compat_r C) in Hm2; [|lra]. unfold Rdiv in Hm2. rewrite Rmult_assoc, Rinv_l, Rmult_1_r in Hm2; lra. }
  unfold factor. fold n. fold m.
  assert (Hq : 0 <= 1 / m * n <= C).
  { split.
    - apply Rmult_le_pos; [|exact Hn]. apply Rlt_le, Rdiv_lt_0_compat; lra.
    - apply (Rmult_le_reg_l m); [lra|]. replace (m * (1 / m * n)) with n by (field; lra). lra. }
  replace (1 / m * (1 / m) * (n * n)) with ((1 / m * n) * (1 / m * n)) by ring.
  apply Rmult_le_compat; lra.
Qed.

Lemma clip_norm C v : 0 < C -> norm (clip C v) <= C.
Proof.
  intros HC. unfold norm. apply Rle_trans with (sqrt (C * C)); [apply sqrt_le_1_alt, clip_sumsq, HC|].
  rewrite sqrt_square; lra.
Qed.

(* a unit within the bound is left untouched *)
Lemma clip_inactive C v : 0 < C -> sumsq v <= C * C -> clip C v = v.
Proof.
  intros HC Hle. unfold clip.
  assert (Hn : norm v <= C).
  { unfold norm. apply Rle_trans with (sqrt (C * C)); [apply sqrt_le_1_alt, Hle|]. rewrite sqrt_square; lra. }
  assert (Hf : factor C v = 1).
  { unfold factor. rewrite Rmax_left; [field|].
    apply (Rmult_le_reg_r C); [lra|]. unfold Rdiv. rewrite Rmult_assoc, Rinv_l, Rmult_1_r; lra. }
  rewrite Hf. induction v as [|x t IH]; cbn [map]; [reflexivity|].
  rewrite Rmult_1_l. f_equal.
  clear -t. induction t as [|y t IH]; cbn [map]; [reflexivity|]. rewrite Rmult_1_l, IH. reflexivity.
Qed.

(* above the bound the vector is rescaled onto the sphere of radius C *)
Lemma clip_active C v : 0 < C -> C * C < sumsq v ->
  clip C v = map (Rmult (C / norm v)) v /\ sumsq (clip C v) = C * C.
Proof.
  intros HC Hgt.
  assert (Hn : C < norm v).
  { unfold norm. apply Rle_lt_trans with (sqrt (C * C)); [rewrite sqrt_square; lra|].
    apply sqrt_lt_1_alt. split; [nra|exact Hgt]. }
  assert (Hf : factor C v = C / norm v).
  { unfold factor. rewrite Rmax_right.
    - field. split; lra.
    - apply (Rmult_le_reg_r C); [lra|]. unfold Rdiv. rewrite Rmult_assoc, Rinv_l, Rmult_1_r; lra. }
  unfold clip. rewrite Hf. split; [reflexivity|].
  rewrite sumsq_scale, <- norm_sq. field. lra.
Qed.

Lemma map_nth_seq_from (w pre : list R) :
  map (fun g => nth g (pre ++ w) 0) (seq (length pre) (length w)) = w.
Proof.
  revert pre. induction w as [|x t IH]; intros pre; cbn [length seq map]; [reflexivity|].
  f_equal.
  - rewrite app_nth2 by lia. rewrite Nat.sub_diag. reflexivity.
  - specialize (IH (pre ++ [x])). rewrite app_length in IH. cbn [length] in IH.
    rewrite Nat.add_1_r in IH. rewrite <- app_assoc in IH. exact IH.
Qed.

Lemma map_nth_seq (w : list R) : map (fun g => nth g w 0) (seq 0 (length w)) = w.
Proof. exact (map_nth_seq_from w []). Qed.

Lemma total_app C D1 D2 g : total C (D1 ++ D2) g = total C D1 g + total C D2 g.
Proof. induction D1 as [|u t IH]; cbn [app total]; [ring|]. rewrite IH. ring. Qed.

Lemma clip_length C v : length (clip C v) = length v.
Proof. unfold clip. apply map_length. Qed.

(* neighbouring databases: the rows of one privacy unit added anywhere.  The released vector moves
   by exactly the clipped contribution of that unit ... *)
Lemma change_is_clip C D1 D2 u :
  change C (D1 ++ D2) (D1 ++ u :: D2) (length u) = clip C u.
Proof.
  unfold change. rewrite <- (clip_length C u) at 1. rewrite <- (map_nth_seq (clip C u)) at 2.
  apply map_ext. intros g. rewrite !total_app. cbn [total]. ring.
Qed.

(* ... hence by at most C in Euclidean norm *)
Lemma sensitivity C D1 D2 u :
  0 < C -> norm (change C (D1 ++ D2) (D1 ++ u :: D2) (length u)) <= C.
Proof. intros HC. rewrite change_is_clip. apply clip_norm, HC. Qed.

(* without the clipping the change is the raw contribution, which no constant bounds *)
Lemma unclipped_refuted : forall C, 0 < C -> exists v, C * C < sumsq v.
Proof. intros C HC. exists [C + 1]. cbn [sumsq]. nra. Qed.
