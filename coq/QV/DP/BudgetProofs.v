(* C03 theorems, over the reals. *)
From Coq Require Import Reals Lra Lia List Bool Psatz.
From QV Require Import DP.Budget.
Import ListNotations.
Open Scope R_scope.

(* ---------- event composition (any number type) ---------- *)
Section Ev.
Variable T : Type.
Variable tzero : T -> bool.
Notation event := (event T).
Notation is_no_op := (is_no_op T tzero).
Notation leaves := (leaves T tzero).
Notation compose := (compose T tzero).

Fixpoint event_ind' (P : event -> Prop)
  (H0 : P NoOp) (H1 : forall m, P (Gaussian m)) (H2 : forall e d, P (EpsDelta e d))
  (H3 : forall l, Forall P l -> P (Composed l)) (e : event) : P e :=
  match e with
  | NoOp => H0
  | Gaussian m => H1 m
  | EpsDelta e d => H2 e d
  | Composed l => H3 l ((fix go (l : list event) : Forall P l :=
                           match l with
                           | [] => Forall_nil P
                           | x :: t => Forall_cons x (event_ind' P H0 H1 H2 H3 x) (go t)
                           end) l)
  end.

Lemma no_op_leaves e : is_no_op e = true -> leaves e = [].
Proof.
  induction e as [|m|e d|l IH] using event_ind'; cbn; intros H; auto.
  - now rewrite H.
  - now rewrite H.
  - induction l as [|x l IHl]; cbn; auto. cbn in H. apply andb_true_iff in H as [H1 H2].
    inversion IH; subst. rewrite (H3 H1), (IHl H4 H2). reflexivity.
Qed.

(* composition drops nothing but no-ops: the mechanisms accounted for by [compose a b] are
   those of a followed by those of b *)
Theorem compose_keeps a b : leaves (compose a b) = leaves a ++ leaves b.
Proof.
  unfold compose. destruct (is_no_op b) eqn:Eb.
  - rewrite (no_op_leaves b Eb), app_nil_r. reflexivity.
  - destruct (is_no_op a) eqn:Ea.
    + rewrite (no_op_leaves a Ea). reflexivity.
    + destruct a as [|ma|ea da|va]; try discriminate;
      destruct b as [|mb|eb db|vb]; try discriminate;
      cbn [leaves flat_map]; rewrite ?flat_map_app; cbn [flat_map]; rewrite ?app_nil_r; reflexivity.
Qed.

Theorem from_iter_keeps l : leaves (from_iter T tzero l) = flat_map leaves l.
Proof.
  unfold from_iter.
  assert (G : forall acc, leaves (fold_left compose l acc) = leaves acc ++ flat_map leaves l).
  { induction l as [|x l IH]; intros acc; cbn [fold_left flat_map]; [now rewrite app_nil_r|].
    rewrite IH, compose_keeps, app_assoc. reflexivity. }
  rewrite G. reflexivity.
Qed.
End Ev.

(* ---------- budgets over R ---------- *)

Definition planR := plan R Rminus Rmult Rdiv 1 INR.
Definition threshold_budgetR := threshold_budget R Rmult.
Definition agg_shareR := agg_share R Rminus 1.

(* the classical calibration: sigma / C for an (eps, delta) Gaussian mechanism *)
Definition nm (e d : R) : R := sqrt (2 * ln (5 / 4 / d)) / e.

Fixpoint sum_eps (l : list (mech R)) : R := match l with [] => 0 | m :: t => m_eps m + sum_eps t end.
Fixpoint sum_del (l : list (mech R)) : R := match l with [] => 0 | m :: t => m_del m + sum_del t end.

Lemma sum_eps_app l1 l2 : sum_eps (l1 ++ l2) = sum_eps l1 + sum_eps l2.
Proof. induction l1; cbn; lra. Qed.
Lemma sum_del_app l1 l2 : sum_del (l1 ++ l2) = sum_del l1 + sum_del l2.
Proof. induction l1; cbn; lra. Qed.

Lemma sum_eps_repeat m n : sum_eps (repeat m n) = INR n * m_eps m.
Proof. induction n as [|n IH]; [cbn; lra|]. rewrite S_INR. cbn [repeat sum_eps]. rewrite IH. lra. Qed.
Lemma sum_del_repeat m n : sum_del (repeat m n) = INR n * m_del m.
Proof. induction n as [|n IH]; [cbn; lra|]. rewrite S_INR. cbn [repeat sum_del]. rewrite IH. lra. Qed.

Lemma group_sum_eps ej dj n : 0 <= ej ->
  sum_eps (group_mechs R Rdiv INR ej dj n) <= ej.
Proof.
  intros H. unfold group_mechs. rewrite sum_eps_repeat. cbn [m_eps].
  destruct n as [|n]; [cbn; lra|].
  assert (0 < INR (S n)) by (apply lt_0_INR; lia).
  unfold Rdiv. rewrite <- Rmult_assoc, (Rmult_comm (INR (S n))), Rmult_assoc, Rinv_r; lra.
Qed.
Lemma group_sum_del ej dj n : 0 <= dj ->
  sum_del (group_mechs R Rdiv INR ej dj n) <= dj.
Proof.
  intros H. unfold group_mechs. rewrite sum_del_repeat. cbn [m_del].
  destruct n as [|n]; [cbn; lra|].
  assert (0 < INR (S n)) by (apply lt_0_INR; lia).
  unfold Rdiv. rewrite <- Rmult_assoc, (Rmult_comm (INR (S n))), Rmult_assoc, Rinv_r; lra.
Qed.

Lemma flat_sum_eps ej dj groups : 0 <= ej ->
  sum_eps (flat_map (group_mechs R Rdiv INR ej dj) groups) <= INR (length groups) * ej.
Proof.
  intros H. induction groups as [|n g IH]; [cbn; lra|].
  cbn [flat_map length]. rewrite sum_eps_app, S_INR. pose proof (group_sum_eps ej dj n H). lra.
Qed.
Lemma flat_sum_del ej dj groups : 0 <= dj ->
  sum_del (flat_map (group_mechs R Rdiv INR ej dj) groups) <= INR (length groups) * dj.
Proof.
  intros H. induction groups as [|n g IH]; [cbn; lra|].
  cbn [flat_map length]. rewrite sum_del_app, S_INR. pose proof (group_sum_del ej dj n H). lra.
Qed.

Definition params_ok (eps del s : R) : Prop := 0 < eps /\ 0 < del /\ 0 <= s <= 1.

Lemma k_bound (groups : list nat) x : 0 <= x ->
  INR (length groups) * (x / INR (Nat.max (length groups) 1)) <= x.
Proof.
  intros Hx. set (k := Nat.max (length groups) 1).
  assert (Hk : 0 < INR k) by (apply lt_0_INR; unfold k; lia).
  assert (Hle : INR (length groups) <= INR k) by (apply le_INR; unfold k; lia).
  assert (0 <= INR (length groups)) by apply pos_INR.
  unfold Rdiv. rewrite <- Rmult_assoc, (Rmult_comm _ x), Rmult_assoc.
  assert (INR (length groups) * / INR k <= 1).
  { apply Rmult_le_reg_r with (INR k); auto. rewrite Rmult_assoc, Rinv_l; lra. }
  nra.
Qed.

(* the Gaussian mechanisms of one DP aggregation, each calibrated for its own (eps_i, delta_i),
   together with the key release, fit in the (eps, delta) handed to the compiler *)
Theorem budget_fits eps del s th groups : params_ok eps del s ->
  let ms := planR eps del s th groups in
  let t := if th then threshold_budgetR eps del s else (0, 0) in
  sum_eps ms + fst t <= eps /\ sum_del ms + snd t <= del.
Proof.
  intros (He & Hd & Hs) ms t. unfold ms, planR, plan.
  set (a := agg_share R Rminus 1 s th).
  assert (Ha : 0 <= a <= 1) by (unfold a, agg_share; destruct th; lra).
  assert (Hea : 0 <= eps * a) by nra. assert (Hda : 0 <= del * a) by nra.
  set (k := INR (Nat.max (length groups) 1)).
  assert (Hk : 0 < k) by (apply lt_0_INR; lia).
  assert (Hej : 0 <= eps * a / k) by (apply Rmult_le_pos; [lra|left; now apply Rinv_0_lt_compat]).
  assert (Hdj : 0 <= del * a / k) by (apply Rmult_le_pos; [lra|left; now apply Rinv_0_lt_compat]).
  pose proof (flat_sum_eps (eps * a / k) (del * a / k) groups Hej) as S1.
  pose proof (flat_sum_del (eps * a / k) (del * a / k) groups Hdj) as S2.
  pose proof (k_bound groups (eps * a) Hea) as K1. pose proof (k_bound groups (del * a) Hda) as K2.
  fold k in K1, K2.
  unfold t, threshold_budgetR, threshold_budget, a, agg_share in *. destruct th; cbn [fst snd]; split; nra.
Qed.

Lemma nm_antitone e d n : 0 < e -> 0 < d -> 1 <= n ->
  nm e d <= nm (e / n) (d / n).
Proof.
  intros He Hd Hn. unfold nm.
  assert (Hx : 0 < 5 / 4 / d) by (apply Rdiv_lt_0_compat; lra).
  assert (Hmono : 5 / 4 / d <= 5 / 4 / (d / n)).
  { replace (5 / 4 / (d / n)) with (5 / 4 / d * n) by (field; lra). nra. }
  assert (Hln : ln (5 / 4 / d) <= ln (5 / 4 / (d / n))).
  { destruct Hmono as [Hlt|Heq]; [left; apply ln_increasing; lra|right; now rewrite Heq]. }
  assert (Hs : sqrt (2 * ln (5 / 4 / d)) <= sqrt (2 * ln (5 / 4 / (d / n)))) by (apply sqrt_le_1_alt; lra).
  pose proof (sqrt_pos (2 * ln (5 / 4 / d))) as P1.
  replace (sqrt (2 * ln (5 / 4 / (d / n))) / (e / n)) with (sqrt (2 * ln (5 / 4 / (d / n))) / e * n) by (field; lra).
  assert (Hie : 0 < / e) by now apply Rinv_0_lt_compat.
  unfold Rdiv in *.
  set (x := sqrt (2 * ln (5 * / 4 * / d))) in *. set (y := sqrt (2 * ln (5 * / 4 * / (d * / n)))) in *.
  assert (H1 : x * / e <= y * / e) by (apply Rmult_le_compat_r; lra).
  assert (H2 : 0 <= y * / e) by (apply Rmult_le_pos; lra).
  assert (H3 : y * / e * 1 <= y * / e * n) by (apply Rmult_le_compat_l; lra).
  lra.
Qed.

Lemma in_repeat {A} (x y : A) n : In x (repeat y n) -> x = y /\ (1 <= n)%nat.
Proof. induction n as [|n IH]; cbn; [tauto|]. intros [<-|H]; [split; auto; lia|]. destruct (IH H). split; auto; lia. Qed.

(* the recorded noise multiplier never exceeds the calibrated sigma / C actually applied *)
Theorem recorded_le_applied eps del s th groups m : params_ok eps del s -> (th = true -> s < 1) ->
  In m (planR eps del s th groups) -> nm (r_eps m) (r_del m) <= nm (m_eps m) (m_del m).
Proof.
  intros (He & Hd & Hs) Hth Hin. unfold planR, plan in Hin.
  apply in_flat_map in Hin as (n & _ & Hin). unfold group_mechs in Hin.
  apply in_repeat in Hin as [-> Hn]. cbn [m_eps m_del r_eps r_del].
  set (a := agg_share R Rminus 1 s th).
  assert (Ha : 0 < a) by (unfold a, agg_share; destruct th; [specialize (Hth eq_refl)|]; lra).
  set (k := INR (Nat.max (length groups) 1)).
  assert (Hk : 0 < k) by (apply lt_0_INR; lia).
  apply nm_antitone.
  - apply Rdiv_lt_0_compat; nra.
  - apply Rdiv_lt_0_compat; nra.
  - change 1 with (INR 1). apply le_INR. exact Hn.
Qed.

(* the key release records exactly the budget its sigma and tau were computed from *)
Theorem threshold_recorded eps del s : threshold_budgetR eps del s = (eps * s, del * s).
Proof. reflexivity. Qed.
