(* Model of the per-unit L2 clipping of src/relation/rewriting.rs (l2_norms, scale_factor field,
   l2_clipped_sums) over the reals.

   The contribution of a privacy unit to one summed column is the vector, over the groups, of the
   partial sums of its rows.  The code computes  norm = sqrt(sum of squares),
   factor = 1 / greatest(1, norm / C)  and multiplies every row (hence every partial sum) of the
   unit by the factor before the sums over all units are taken. *)
From Coq Require Export List Reals.
Export ListNotations.
Open Scope R_scope.

Fixpoint sumsq (v : list R) : R := match v with [] => 0 | x :: t => x * x + sumsq t end.
Definition norm (v : list R) : R := sqrt (sumsq v).
Definition factor (C : R) (v : list R) : R := 1 / Rmax 1 (norm v / C).
Definition clip (C : R) (v : list R) : list R := map (Rmult (factor C v)) v.

(* the released pre-noise value of group g: the sum over the units of their clipped partial sums *)
Fixpoint total (C : R) (D : list (list R)) (g : nat) : R :=
  match D with
  | [] => 0
  | u :: t => nth g (clip C u) 0 + total C t g
  end.

(* the change of the released vector between two databases, over n groups *)
Definition change (C : R) (D D' : list (list R)) (n : nat) : list R :=
  map (fun g => total C D' g - total C D g) (seq 0 n).
