(* Model of the recombination of aggregates from sums in
   src/differential_privacy/aggregates.rs (PupRelation::differentially_private_aggregates) and of
   the DISTINCT split (Reduce::split_distinct_aggregates / rewrite_distinct), with the noise
   draws at zero and the clipping factor at one.

   A row is (privacy unit, value), the value NULL or a rational.  The _ONE_ column is
   CASE WHEN x IS NULL THEN 0 ELSE 1, SUM ignores NULL, so every helper sum ranges over the
   non-null values. *)
From Coq Require Export List ZArith QArith Qminmax Bool.
Export ListNotations.
Open Scope Q_scope.

Notation drow := (Z * option Q)%type (only parsing).

Fixpoint nonnull (l : list (option Q)) : list Q :=
  match l with
  | [] => []
  | Some x :: t => x :: nonnull t
  | None :: t => nonnull t
  end.

Fixpoint qsum (l : list Q) : Q := match l with [] => 0 | x :: t => x + qsum t end.
Definition qlen (l : list Q) : Q := inject_Z (Z.of_nat (length l)).
Definition qsumsq (l : list Q) : Q := qsum (map (fun x => x * x) l).

(* the three helper sums *)
Definition s_count (l : list (option Q)) : Q := qlen (nonnull l).
Definition s_sum (l : list (option Q)) : Q := qsum (nonnull l).
Definition s_square (l : list (option Q)) : Q := qsumsq (nonnull l).

(* the output expressions *)
Definition dp_count l := s_count l.
Definition dp_sum l := s_sum l.
Definition dp_avg l := s_sum l / Qmax 1 (s_count l).
Definition dp_var l :=
  Qmax 0 (s_square l / Qmax 1 (s_count l) - (s_sum l / Qmax 1 (s_count l)) * (s_sum l / Qmax 1 (s_count l))).
(* the expression as it stood before the repair: the mean is not squared *)
Definition dp_var_old l :=
  Qmax 0 (s_square l / Qmax 1 (s_count l) - s_sum l / Qmax 1 (s_count l)).

(* what the data say *)
Definition mean (l : list Q) : Q := qsum l / qlen l.
Definition variance (l : list Q) : Q := qsum (map (fun x => (x - mean l) * (x - mean l)) l) / qlen l.

(* DISTINCT: the de-duplicating group-by keeps one row per (unit, value) *)
Definition oq_eqb (a b : option Q) : bool :=
  match a, b with
  | Some x, Some y => Qeq_bool x y
  | None, None => true
  | _, _ => false
  end.
Definition drow_eqb (a b : drow) : bool := (fst a =? fst b)%Z && oq_eqb (snd a) (snd b).
Fixpoint ddedup (l : list drow) : list drow :=
  match l with
  | [] => []
  | r :: t => if existsb (drow_eqb r) t then ddedup t else r :: ddedup t
  end.
Fixpoint vdedup (l : list (option Q)) : list (option Q) :=
  match l with
  | [] => []
  | r :: t => if existsb (oq_eqb r) t then vdedup t else r :: vdedup t
  end.

Inductive agg := ACount | ASum | AAvg | AVar.

Definition eval_agg (a : agg) (l : list (option Q)) : Q :=
  match a with ACount => dp_count l | ASum => dp_sum l | AAvg => dp_avg l | AVar => dp_var l end.

(* the DP value of an aggregate over the rows of one group *)
Definition dp_value (a : agg) (distinct : bool) (rows : list drow) : Q :=
  eval_agg a (map snd (if distinct then ddedup rows else rows)).

(* no value is held by two units *)
Definition shared (rows : list drow) : bool :=
  existsb (fun r => existsb (fun r' => negb (fst r =? fst r')%Z && oq_eqb (snd r) (snd r')) rows) rows.

(* ---------- pagination above the aggregation: ORDER BY the keys LIMIT lim OFFSET off ----------
   The rewriting maps the groups one to one (same keys, same order once sorted by the keys); a window of the rewritten
   result is then the rewritten window. *)
Definition window {A : Type} (lim off : nat) (l : list A) : list A := firstn lim (skipn off l).
