(* C04 — limit_col_contributions is exact: when the ranks drawn for the rows of a unit are pairwise different,
   the unit is left in exactly min(cu, its number of groups) groups.  Hence the counts the threshold is
   applied to add up to the sum of these numbers over the units, whatever ranks are drawn (the invariant
   the harness checks on the counting relation). *)
From QV Require Import DP.Tau DP.TauProofs.
From Coq Require Import Permutation.
Open Scope Z_scope.

Definition cntge (x : Z) (l : list Z) : nat := length (filter (fun y => x <=? y) l).

Lemma filter_len_perm {A} (p : A -> bool) l l' : Permutation l l' -> length (filter p l) = length (filter p l').
Proof.
  induction 1 as [|x l l' _ IH|x y l|l l' l'' _ IH1 _ IH2]; cbn [filter].
  - reflexivity.
  - destruct (p x); cbn [length]; lia.
  - destruct (p x), (p y); cbn [length]; lia.
  - lia.
Qed.

Lemma cntge_perm x l l' : Permutation l l' -> cntge x l = cntge x l'.
Proof. apply filter_len_perm. Qed.

Lemma filter_ext_in {A} (p q : A -> bool) l : (forall x, In x l -> p x = q x) -> filter p l = filter q l.
Proof.
  induction l as [|x l IH]; intros H; cbn [filter]; [reflexivity|].
  rewrite (H x (or_introl eq_refl)), IH; [reflexivity|]. intros y Hy. apply H. right. exact Hy.
Qed.

Lemma filter_false {A} (l : list A) : filter (fun _ => false) l = [].
Proof. induction l; cbn; auto. Qed.

(* the largest element of a non-empty list without repetition, and the rest below it *)
Lemma extract_max (xs : list Z) : NoDup xs -> xs <> [] ->
  exists M xs', Permutation xs (M :: xs') /\ forall y, In y xs' -> y < M.
Proof.
  induction xs as [|x xs IH]; intros Hnd Hne; [congruence|].
  inversion Hnd as [|? ? Hx Hnd']; subst.
  destruct xs as [|y ys].
  - exists x, []. split; [reflexivity|]. intros ? [].
  - destruct (IH Hnd') as (M & xs' & HP & Hlt); [congruence|].
    assert (HxM : x <> M).
    { intros ->. apply Hx. apply (Permutation_in M (Permutation_sym HP)). left. reflexivity. }
    destruct (Z_lt_ge_dec x M) as [Hlt'|Hge].
    + exists M, (x :: xs'). split.
      * rewrite HP. apply perm_swap.
      * intros z [<-|Hz]; [exact Hlt'|auto].
    + exists x, (M :: xs'). split.
      * rewrite HP. reflexivity.
      * intros z [<-|Hz]; [lia|]. specialize (Hlt z Hz). lia.
Qed.

(* among pairwise different numbers, exactly min(c, n) have at most c numbers above or equal to them *)
Lemma top_count : forall n xs, length xs = n -> NoDup xs ->
  forall c, length (filter (fun x => (cntge x xs <=? c)%nat) xs) = Nat.min c n.
Proof.
  induction n as [|n IH]; intros xs Hl Hnd c.
  - destruct xs; [|discriminate]. cbn. lia.
  - assert (Hne : xs <> []) by (intros ->; discriminate Hl).
    destruct (extract_max xs Hnd Hne) as (M & xs' & HP & Hlt).
    assert (Hnd' : NoDup (M :: xs')) by (eapply Permutation_NoDup; eauto).
    assert (Hl' : length xs' = n) by (apply Permutation_length in HP; cbn in HP; lia).
    rewrite (filter_ext_in _ (fun x => (cntge x (M :: xs') <=? c)%nat)) by (intros x _; rewrite (cntge_perm x _ _ HP); reflexivity).
    rewrite (filter_len_perm _ _ _ HP).
    (* the maximum has one number above or equal to it: itself *)
    assert (HM : cntge M (M :: xs') = 1%nat).
    { unfold cntge. cbn [filter]. rewrite Z.leb_refl. cbn [length]. f_equal.
      rewrite (filter_ext_in _ (fun _ => false)); [rewrite filter_false; reflexivity|].
      intros y Hy. apply Z.leb_gt. auto. }
    assert (Hx : forall x, In x xs' -> cntge x (M :: xs') = S (cntge x xs')).
    { intros x Hx. unfold cntge. cbn [filter]. replace (x <=? M) with true by (symmetry; apply Z.leb_le; specialize (Hlt x Hx); lia). reflexivity. }
    cbn [filter]. rewrite HM.
    rewrite (filter_ext_in _ (fun x => (S (cntge x xs') <=? c)%nat) xs') by (intros x Hx'; rewrite (Hx x Hx'); reflexivity).
    inversion Hnd' as [|? ? _ Hnd'']; subst.
    destruct c as [|c'].
    + cbn [Nat.leb]. rewrite filter_false. reflexivity.
    + cbn [Nat.leb length]. rewrite (IH xs' eq_refl Hnd'' c'). lia.
Qed.

Lemma filter_map_length {A B} (f : A -> B) (p : B -> bool) l : length (filter p (map f l)) = length (filter (fun x => p (f x)) l).
Proof. induction l as [|x l IH]; cbn; [reflexivity|]. destruct (p (f x)); cbn; lia. Qed.

(* the rank of a row among the rows of its unit *)
Lemma index_of_unit rank l r : index_of rank l r = cntge (rank r) (map rank (groups_of (fst r) l)).
Proof.
  unfold index_of, cntge, groups_of. rewrite filter_map_length, filter_filter. reflexivity.
Qed.

Theorem cap_exact cu rank l u : NoDup (map rank (groups_of u l)) ->
  length (groups_of u (cap cu rank l)) = Nat.min cu (length (groups_of u l)).
Proof.
  intros Hnd. unfold groups_of at 1. unfold cap. rewrite filter_filter.
  rewrite (filter_ext_in _ (fun r => (fst r =? u) && (cntge (rank r) (map rank (groups_of u l)) <=? cu)%nat)).
  2:{ intros r _. rewrite andb_comm. destruct (fst r =? u) eqn:E; [|reflexivity]. apply Z.eqb_eq in E. cbn [andb].
      rewrite index_of_unit, E. reflexivity. }
  rewrite <- filter_filter. fold (groups_of u l).
  rewrite <- (filter_map_length rank (fun x => (cntge x (map rank (groups_of u l)) <=? cu)%nat)).
  rewrite (top_count (length (map rank (groups_of u l))) _ eq_refl Hnd cu). rewrite map_length. reflexivity.
Qed.
