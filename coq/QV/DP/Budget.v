(* C03: budget arithmetic of one differentially-private aggregation
   (Reduce::differentially_private, DpAggregatesParameters::{from_dp_parameters,split},
   Relation::gaussian_mechanisms, dp_event.rs), generic in the number type so that the same
   definitions are run on rationals (correspondence) and reasoned about on reals. *)
From Coq Require Import List Bool Arith Lia.
Import ListNotations.

Section Plan.
Variable T : Type.
Variables (tadd tsub tmul tdiv : T -> T -> T) (tone : T) (tofnat : nat -> T).

(* one Gaussian mechanism: the (eps, delta) its sigma is calibrated with, and the (eps, delta)
   its recorded noise multiplier is computed from *)
Record mech := { m_eps : T; m_del : T; r_eps : T; r_del : T }.

(* gaussian_mechanisms: n sums share (ej, dj) equally; each records gaussian_from_epsilon_delta(ej, dj) *)
Definition group_mechs (ej dj : T) (n : nat) : list mech :=
  repeat {| m_eps := tdiv ej (tofnat n); m_del := tdiv dj (tofnat n); r_eps := ej; r_del := dj |} n.

Definition agg_share (s : T) (th : bool) : T := if th then tsub tone s else tone.

(* th: the key release spent budget (its event is not a no-op); groups: number of sums of each
   reduce obtained by splitting the DISTINCT clauses *)
Definition plan (eps del s : T) (th : bool) (groups : list nat) : list mech :=
  let a := agg_share s th in
  let k := tofnat (Nat.max (length groups) 1) in
  let ej := tdiv (tmul eps a) k in
  let dj := tdiv (tmul del a) k in
  flat_map (group_mechs ej dj) groups.

Definition group_budget (eps del s : T) (th : bool) (groups : list nat) : T * T :=
  let a := agg_share s th in
  let k := tofnat (Nat.max (length groups) 1) in
  (tdiv (tmul eps a) k, tdiv (tmul del a) k).

Definition threshold_budget (eps del s : T) : T * T := (tmul eps s, tmul del s).

(* ---------- DpEvent ---------- *)
Variable tzero : T -> bool.   (* x == 0.0 *)

Inductive event := NoOp | Gaussian (m : T) | EpsDelta (e d : T) | Composed (l : list event).

Fixpoint is_no_op (e : event) : bool :=
  match e with
  | NoOp => true
  | Gaussian m => tzero m
  | EpsDelta e d => tzero e && tzero d
  | Composed l => forallb is_no_op l
  end.

Definition compose (a b : event) : event :=
  if is_no_op b then a
  else if is_no_op a then b
  else match a, b with
       | Composed v1, Composed v2 => Composed (v1 ++ v2)
       | Composed v, o => Composed (v ++ [o])
       | c, Composed v => Composed (c :: v)
       | c, o => Composed [c; o]
       end.

Definition from_iter (l : list event) : event := fold_left compose l NoOp.

(* the mechanisms an event accounts for: its leaves that are not no-ops *)
Fixpoint leaves (e : event) : list event :=
  match e with
  | NoOp => []
  | Gaussian m => if tzero m then [] else [Gaussian m]
  | EpsDelta e d => if tzero e && tzero d then [] else [EpsDelta e d]
  | Composed l => flat_map leaves l
  end.
End Plan.

Arguments NoOp {T}. Arguments Gaussian {T} m. Arguments EpsDelta {T} e d. Arguments Composed {T} l.
Arguments m_eps {T} m. Arguments m_del {T} m. Arguments r_eps {T} m. Arguments r_del {T} m.
