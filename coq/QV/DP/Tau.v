(* Model of the release of grouping keys by tau-thresholding:
   src/differential_privacy/group_by.rs (tau_thresholding_values),
   src/relation/rewriting.rs (limit_col_contributions, distinct),
   src/differential_privacy/dp_event.rs (gaussian_tau).

   A row of the input is (privacy unit, key), keys and units being integers (the
   harness numbers the distinct values).  [rank] stands for the _RANDOM_ column the
   code draws per row; [z] for the standard normal draw the Box-Muller expression
   produces for a key; numbers are rationals so that the model runs. *)
From Coq Require Export List ZArith QArith Bool Lia.
Export ListNotations.
Open Scope Z_scope.

Notation row := (Z * Z)%type (only parsing).

Definition row_eqb (a b : row) : bool := (fst a =? fst b) && (snd a =? snd b).

(* Relation::distinct on (key, unit) *)
Fixpoint dedup (l : list row) : list row :=
  match l with
  | [] => []
  | r :: t => if existsb (row_eqb r) t then dedup t else r :: dedup t
  end.

(* limit_col_contributions: the self join on the unit with rank <= rank', the count
   per left row, and the filter count <= cu *)
Definition index_of (rank : row -> Z) (l : list row) (r : row) : nat :=
  length (filter (fun r' => (fst r' =? fst r) && (rank r <=? rank r')) l).

Definition cap (cu : nat) (rank : row -> Z) (l : list row) : list row :=
  filter (fun r => (index_of rank l r <=? cu)%nat) l.

Fixpoint zdedup (l : list Z) : list Z :=
  match l with
  | [] => []
  | x :: t => if existsb (Z.eqb x) t then zdedup t else x :: zdedup t
  end.

Definition units_of (k : Z) (l : list row) : list Z :=
  zdedup (map fst (filter (fun r => snd r =? k) l)).

(* COUNT(DISTINCT unit) per key *)
Definition count (k : Z) (l : list row) : Z := Z.of_nat (length (units_of k l)).

Definition keys (l : list row) : list Z := zdedup (map snd l).

(* the filter _COUNT_DISTINCT_PID_ + sigma * z > tau; one draw per key *)
Definition above (tau sigma : Q) (n : Z) (z : Q) : bool :=
  if Qlt_le_dec tau (inject_Z n + sigma * z) then true else false.

Definition release (tau sigma : Q) (noise : Z -> Q) (l : list row) : list Z :=
  filter (fun k => above tau sigma (count k l) (noise k)) (keys l).

(* the whole pipeline *)
Definition released (cu : nat) (rank : row -> Z) (tau sigma : Q) (noise : Z -> Q) (l : list row) : list Z :=
  release tau sigma noise (cap cu rank (dedup l)).

(* keys of at most cu groups per unit *)
Definition groups_of (u : Z) (l : list row) : list row := filter (fun r => fst r =? u) l.
