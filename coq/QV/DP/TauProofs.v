From QV Require Import DP.Tau.
From Coq Require Import Reals Lra Permutation.
Open Scope Z_scope.

Lemma filter_length_impl {A} (p q : A -> bool) (l : list A) :
  (forall x, In x l -> p x = true -> q x = true) ->
  (length (filter p l) <= length (filter q l))%nat.
Proof.
  induction l as [|x t IH]; intros H; cbn [filter]; [lia|].
  assert (IH' : (length (filter p t) <= length (filter q t))%nat)
    by (apply IH; intros y Hy; apply H; right; exact Hy).
  destruct (p x) eqn:Hp.
  - rewrite (H x (or_introl eq_refl) Hp). cbn [length]. lia.
  - destruct (q x); cbn [length]; lia.
Qed.

(* a list of rows has an element of least rank *)
Lemma least_rank (rank : row -> Z) (l : list row) :
  l <> [] -> exists m, In m l /\ forall r, In r l -> rank m <= rank r.
Proof.
  induction l as [|x t IH]; intros Hne; [congruence|].
  destruct t as [|y t'].
  - exists x. split; [left; reflexivity|]. intros r [<-|[]]. lia.
  - destruct IH as [m [Hm Hmin]]; [congruence|].
    destruct (Z_le_gt_dec (rank x) (rank m)) as [Hle|Hgt].
    + exists x. split; [left; reflexivity|]. intros r [<-|Hr]; [lia|]. specialize (Hmin r Hr). lia.
    + exists m. split; [right; exact Hm|]. intros r [<-|Hr]; [lia|]. apply Hmin, Hr.
Qed.

Lemma filter_filter {A} (p q : A -> bool) l :
  filter q (filter p l) = filter (fun x => p x && q x) l.
Proof.
  induction l as [|x t IH]; cbn [filter]; [reflexivity|].
  destruct (p x); cbn [filter andb]; [destruct (q x)|]; rewrite IH; reflexivity.
Qed.

(* limit_col_contributions leaves every unit in at most cu groups *)
Lemma cap_bound cu rank l u : (length (groups_of u (cap cu rank l)) <= cu)%nat.
Proof.
  destruct (groups_of u (cap cu rank l)) eqn:Hg; [cbn; lia|].
  rewrite <- Hg.
  destruct (least_rank rank (groups_of u (cap cu rank l))) as [m [Hm Hmin]]; [rewrite Hg; congruence|].
  assert (Hm' := Hm).
  unfold groups_of in Hm. apply filter_In in Hm. destruct Hm as [Hm Hu].
  unfold cap in Hm. apply filter_In in Hm. destruct Hm as [Hml Hidx].
  apply Nat.leb_le in Hidx. apply Z.eqb_eq in Hu.
  eapply Nat.le_trans; [|exact Hidx].
  unfold index_of at 1.
  unfold groups_of at 1. unfold cap at 1. rewrite filter_filter.
  apply filter_length_impl. intros r Hr Hp.
  apply andb_true_iff in Hp. destruct Hp as [Hk Hru].
  assert (Hin : In r (groups_of u (cap cu rank l))).
  { unfold groups_of, cap. apply filter_In. split; [apply filter_In; split; assumption|exact Hru]. }
  apply Z.eqb_eq in Hru. apply andb_true_iff. split.
  - apply Z.eqb_eq. lia.
  - apply Z.leb_le. apply Hmin, Hin.
Qed.

Lemma cap_incl cu rank l r : In r (cap cu rank l) -> In r l.
Proof. unfold cap. intros H. apply filter_In in H. tauto. Qed.

Lemma existsb_eqb_In x l : existsb (Z.eqb x) l = true <-> In x l.
Proof.
  rewrite existsb_exists. split.
  - intros [y [Hy He]]. apply Z.eqb_eq in He. subst. exact Hy.
  - intros H. exists x. split; [exact H|apply Z.eqb_refl].
Qed.

Lemma zdedup_In x l : In x (zdedup l) <-> In x l.
Proof.
  induction l as [|y t IH]; cbn [zdedup]; [tauto|].
  destruct (existsb (Z.eqb y) t) eqn:He.
  - rewrite IH. apply existsb_eqb_In in He. cbn [In]. split; [tauto|]. intros [<-|H]; assumption.
  - cbn [In]. rewrite IH. tauto.
Qed.

Lemma zdedup_NoDup l : NoDup (zdedup l).
Proof.
  induction l as [|y t IH]; cbn [zdedup]; [constructor|].
  destruct (existsb (Z.eqb y) t) eqn:He; [exact IH|].
  constructor; [|exact IH]. rewrite zdedup_In. intros H. apply existsb_eqb_In in H. congruence.
Qed.

(* a released key is a key of the data, and its noisy count of distinct units is above tau *)
Lemma release_spec tau sigma noise l k :
  In k (release tau sigma noise l) <->
  In k (map snd l) /\ (tau < inject_Z (count k l) + sigma * noise k)%Q.
Proof.
  unfold release. rewrite filter_In. unfold keys. rewrite zdedup_In. unfold above.
  destruct (Qlt_le_dec tau (inject_Z (count k l) + sigma * noise k)) as [Hlt|Hle].
  - tauto.
  - split; [intros [_ H]; discriminate|]. intros [_ H]. exfalso. apply (Qlt_not_le _ _ H Hle).
Qed.

(* counting after the cap never counts more units than before it *)
Lemma units_of_incl k l l' : (forall r, In r l' -> In r l) -> incl (units_of k l') (units_of k l).
Proof.
  intros H u Hu. unfold units_of in *. rewrite zdedup_In in *. rewrite in_map_iff in *.
  destruct Hu as [r [<- Hr]]. exists r. split; [reflexivity|].
  apply filter_In in Hr. apply filter_In. split; [apply H; tauto|tauto].
Qed.

Lemma count_mono k l l' : (forall r, In r l' -> In r l) -> count k l' <= count k l.
Proof.
  intros H. unfold count. apply Nat2Z.inj_le.
  apply NoDup_incl_length; [apply zdedup_NoDup|apply units_of_incl, H].
Qed.

Lemma dedup_In r l : In r (dedup l) <-> In r l.
Proof.
  induction l as [|y t IH]; cbn [dedup]; [tauto|].
  destruct (existsb (row_eqb y) t) eqn:He.
  - rewrite IH. cbn [In]. split; [tauto|]. intros [<-|H]; [|exact H].
    apply existsb_exists in He. destruct He as [y' [Hy' He]]. unfold row_eqb in He.
    apply andb_true_iff in He. destruct He as [H1 H2]. apply Z.eqb_eq in H1, H2.
    destruct y, y'; cbn in *; subst. exact Hy'.
  - cbn [In]. rewrite IH. tauto.
Qed.

(* a key held by at most one unit is not released unless the draw is positive *)
Lemma singleton_not_released cu rank tau sigma noise l k :
  (1 <= tau)%Q -> (0 <= sigma)%Q -> (noise k <= 0)%Q -> count k l <= 1 ->
  ~ In k (released cu rank tau sigma noise l).
Proof.
  intros Htau Hs Hz Hc H. unfold released in H. apply release_spec in H. destruct H as [_ H].
  assert (Hc' : count k (cap cu rank (dedup l)) <= 1).
  { eapply Z.le_trans; [|exact Hc]. apply count_mono. intros r Hr. apply cap_incl in Hr. apply dedup_In, Hr. }
  assert (H1 : (inject_Z (count k (cap cu rank (dedup l))) <= 1)%Q).
  { change 1%Q with (inject_Z 1). rewrite <- Zle_Qle. exact Hc'. }
  assert (H2 : (sigma * noise k <= 0)%Q).
  { rewrite Qmult_comm. setoid_replace 0%Q with (0 * sigma)%Q by ring.
    apply Qmult_le_compat_r; assumption. }
  apply (Qlt_not_le _ _ H). eapply Qle_trans; [|exact Htau].
  setoid_replace 1%Q with (1 + 0)%Q by ring. apply Qplus_le_compat; assumption.
Qed.

(* released keys are counted over rows of the data *)
Lemma released_spec cu rank tau sigma noise l k :
  In k (released cu rank tau sigma noise l) ->
  In k (map snd l) /\
  (tau < inject_Z (count k (cap cu rank (dedup l))) + sigma * noise k)%Q /\
  forall u, (length (groups_of u (cap cu rank (dedup l))) <= cu)%nat.
Proof.
  intros H. unfold released in H. apply release_spec in H. destruct H as [Hk Hlt].
  split; [|split; [exact Hlt|intros u; apply cap_bound]].
  apply in_map_iff in Hk. destruct Hk as [r [<- Hr]]. apply in_map. apply cap_incl in Hr. apply dedup_In, Hr.
Qed.

(* gaussian_tau = 1 + scale * max(0, quantile): never below 1 *)
Open Scope R_scope.
Definition tau_of (scale quantile : R) : R := 1 + scale * Rmax 0 quantile.

Lemma tau_ge_one scale quantile : 0 <= scale -> 1 <= tau_of scale quantile.
Proof.
  intros Hs. unfold tau_of. assert (0 <= Rmax 0 quantile) by apply Rmax_l.
  assert (0 <= scale * Rmax 0 quantile) by (apply Rmult_le_pos; assumption). lra.
Qed.

(* the formula before the repair: below 1 as soon as the quantile is negative *)
Lemma tau_unclamped_refuted : exists scale quantile, 0 <= scale /\ 1 + scale * quantile < 1.
Proof. exists 1, (-1). lra. Qed.
