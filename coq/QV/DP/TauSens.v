(* Sensitivity of the per-key count of distinct privacy units after the cap: adding all the rows of
   one new unit changes at most cu counts, each by exactly one.  This is the L2 sensitivity sqrt(cu)
   the noise of the key release is calibrated to (gaussian_noise(eps, delta, sqrt(Cu))). *)
From QV Require Import DP.Tau DP.TauProofs.
From Coq Require Import Lia.
Open Scope Z_scope.

Definition fresh (u : Z) (l : list (Z * Z)) : Prop := forall r, In r l -> fst r <> u.
Definition of_unit (u : Z) (l : list (Z * Z)) : Prop := forall r, In r l -> fst r = u.

Lemma filter_app_ext {A} (p q : A -> bool) (l : list A) : (forall x, In x l -> p x = q x) -> filter p l = filter q l.
Proof.
  induction l as [|x t IH]; intros H; cbn [filter]; [reflexivity|].
  rewrite (H x (or_introl eq_refl)), IH; [reflexivity|]. intros y Hy. apply H. right. exact Hy.
Qed.

(* the rank index of a row only looks at rows of its own unit *)
Lemma index_of_app_other rank l new r u :
  of_unit u new -> fst r <> u -> index_of rank (l ++ new) r = index_of rank l r.
Proof.
  intros Hn Hr. unfold index_of. rewrite filter_app, app_length.
  assert (E : filter (fun r' => (fst r' =? fst r) && (rank r <=? rank r')) new = []).
  { clear -Hn Hr. induction new as [|x t IH]; cbn [filter]; [reflexivity|].
    assert (Hx : fst x = u) by (apply Hn; left; reflexivity).
    assert (E : (fst x =? fst r) = false) by lia. rewrite E. cbn [andb].
    apply IH. intros y Hy. apply Hn. right. exact Hy. }
  rewrite E. cbn [length]. lia.
Qed.

Lemma index_of_app_new rank l new r u :
  fresh u l -> fst r = u -> index_of rank (l ++ new) r = index_of rank new r.
Proof.
  intros Hl Hr. unfold index_of. rewrite filter_app, app_length.
  assert (E : filter (fun r' => (fst r' =? fst r) && (rank r <=? rank r')) l = []).
  { clear -Hl Hr. induction l as [|x t IH]; cbn [filter]; [reflexivity|].
    assert (Hx : fst x <> u) by (apply Hl; left; reflexivity).
    assert (E : (fst x =? fst r) = false) by lia. rewrite E. cbn [andb].
    apply IH. intros y Hy. apply Hl. right. exact Hy. }
  rewrite E. cbn [length]. lia.
Qed.

(* the cap acts unit by unit *)
Lemma cap_app cu rank l new u : fresh u l -> of_unit u new ->
  cap cu rank (l ++ new) = cap cu rank l ++ cap cu rank new.
Proof.
  intros Hl Hn. unfold cap. rewrite filter_app. f_equal.
  - apply filter_app_ext. intros r Hr. rewrite (index_of_app_other rank l new r u Hn (Hl r Hr)). reflexivity.
  - apply filter_app_ext. intros r Hr. rewrite (index_of_app_new rank l new r u Hl (Hn r Hr)). reflexivity.
Qed.

Lemma cap_fresh cu rank l u : fresh u l -> fresh u (cap cu rank l).
Proof. intros H r Hr. apply H. apply cap_incl in Hr. exact Hr. Qed.

Lemma cap_of_unit cu rank l u : of_unit u l -> of_unit u (cap cu rank l).
Proof. intros H r Hr. apply H. apply cap_incl in Hr. exact Hr. Qed.

(* units of a key over old rows and the rows of a new unit *)
Lemma zdedup_app_fresh xs ys : (forall x, In x xs -> ~ In x ys) ->
  length (zdedup (xs ++ ys)) = (length (zdedup xs) + length (zdedup ys))%nat.
Proof.
  induction xs as [|x t IH]; intros H; cbn [app zdedup]; [reflexivity|].
  assert (Ht : forall y, In y t -> ~ In y ys) by (intros y Hy; apply H; right; exact Hy).
  destruct (existsb (Z.eqb x) (t ++ ys)) eqn:E1.
  - apply existsb_eqb_In in E1. apply in_app_or in E1. destruct E1 as [E1|E1]; [|exfalso; apply (H x (or_introl eq_refl) E1)].
    apply existsb_eqb_In in E1. rewrite E1. apply IH, Ht.
  - assert (E2 : existsb (Z.eqb x) t = false).
    { destruct (existsb (Z.eqb x) t) eqn:E; [|reflexivity]. apply existsb_eqb_In in E.
      assert (In x (t ++ ys)) by (apply in_or_app; left; exact E). apply existsb_eqb_In in H0. congruence. }
    rewrite E2. cbn [length]. rewrite (IH Ht). lia.
Qed.

Lemma count_app k l new u : fresh u l -> of_unit u new ->
  count k (l ++ new) = count k l + count k new.
Proof.
  intros Hl Hn. unfold count, units_of. rewrite filter_app, map_app.
  rewrite zdedup_app_fresh; [lia|].
  intros x Hx Hy. apply in_map_iff in Hx. destruct Hx as [r [<- Hr]]. apply filter_In in Hr.
  apply in_map_iff in Hy. destruct Hy as [r' [E Hr']]. apply filter_In in Hr'.
  apply (Hl r (proj1 Hr)). rewrite <- E. apply Hn. tauto.
Qed.

(* a single unit counts for at most one in each key *)
Lemma count_one_unit k new u : of_unit u new -> 0 <= count k new <= 1.
Proof.
  intros Hn. unfold count. split; [lia|].
  assert (H : forall x, In x (units_of k new) -> x = u).
  { intros x Hx. unfold units_of in Hx. apply (proj1 (zdedup_In _ _)) in Hx. apply in_map_iff in Hx.
    destruct Hx as [r [<- Hr]]. apply filter_In in Hr. apply Hn. tauto. }
  pose proof (zdedup_NoDup (map fst (filter (fun r => snd r =? k) new))) as Hnd. fold (units_of k new) in Hnd.
  destruct (units_of k new) as [|x [|y t]]; cbn [length]; try lia.
  exfalso. inversion Hnd as [|? ? Hx _]; subst. apply Hx. left.
  rewrite (H x (or_introl eq_refl)), (H y (or_intror (or_introl eq_refl))). reflexivity.
Qed.

(* adding the rows of a new unit: every count moves by 0 or 1, and it moves only for keys among the
   at most cu groups the cap leaves to that unit *)
Theorem count_sensitivity cu rank l new u k :
  fresh u l -> of_unit u new ->
  let before := count k (cap cu rank l) in
  let after := count k (cap cu rank (l ++ new)) in
  0 <= after - before <= 1 /\
  (after - before = 1 -> In k (map snd (cap cu rank new))).
Proof.
  intros Hl Hn. cbn zeta. rewrite (cap_app cu rank l new u Hl Hn).
  rewrite (count_app k _ _ u (cap_fresh cu rank l u Hl) (cap_of_unit cu rank new u Hn)).
  pose proof (count_one_unit k (cap cu rank new) u (cap_of_unit cu rank new u Hn)) as H1.
  split; [lia|]. intros E.
  assert (Hc : count k (cap cu rank new) = 1) by lia.
  unfold count in Hc. destruct (units_of k (cap cu rank new)) as [|x t] eqn:Eu; [cbn in Hc; lia|].
  assert (Hx : In x (units_of k (cap cu rank new))) by (rewrite Eu; left; reflexivity).
  unfold units_of in Hx. apply (proj1 (zdedup_In _ _)) in Hx. apply in_map_iff in Hx. destruct Hx as [r [_ Hr]].
  apply filter_In in Hr. destruct Hr as [Hr Hk]. apply Z.eqb_eq in Hk. rewrite <- Hk. apply in_map, Hr.
Qed.

(* ... and that unit keeps at most cu rows after the cap, hence at most cu keys move *)
Theorem moved_keys_bound cu rank new u : of_unit u new ->
  (length (cap cu rank new) <= cu)%nat.
Proof.
  intros Hn. pose proof (cap_bound cu rank new u) as H. unfold groups_of in H.
  rewrite (filter_app_ext (fun r => fst r =? u) (fun _ => true)) in H.
  - assert (E : filter (fun _ : Z * Z => true) (cap cu rank new) = cap cu rank new).
    { clear. induction (cap cu rank new) as [|x t IH]; cbn [filter]; [reflexivity|]. rewrite IH. reflexivity. }
    rewrite E in H. exact H.
  - intros r Hr. apply Z.eqb_eq. apply (cap_of_unit cu rank new u Hn r Hr).
Qed.
