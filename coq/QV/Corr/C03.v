(* C03 correspondence: the budget plan of QV/DP/Budget.v evaluated on rationals against the
   sigma / clip constants and the privacy event read off the really rewritten relation.
   ln is not computable in Q: the harness tabulates (x, ln x) with the implementation's f64 ln at
   the points it expects; the checker looks the model's own point up in that table (so a table
   built for other points is a mismatch) and compares squares. *)
From Coq Require Import QArith Qabs ZArith List Bool.
From QV Require Import DP.Budget Corr.Lib.
Import ListNotations.
Open Scope Q_scope.

Definition fq (m e : Z) : Q :=
  if (0 <=? e)%Z then inject_Z (m * 2 ^ e) else Qmake m (Z.to_pos (2 ^ (- e))).

Definition qofnat (n : nat) : Q := inject_Z (Z.of_nat n).
Definition qzero (x : Q) : bool := Qeq_bool x 0.

Definition planQ := plan Q Qminus Qmult Qdiv 1 qofnat.
Definition group_budgetQ := group_budget Q Qminus Qmult Qdiv 1 qofnat.
Definition threshold_budgetQ := threshold_budget Q Qmult.

Definition tol : Q := 1 # 100000000.
Definition close (a b : Q) : bool := Qle_bool (Qabs (a - b)) (tol * Qabs b).

Inductive leaf := LG (m : Q) | LE (e d : Q).

Definition lnlookup (tab : list (Q * Q)) (x : Q) : option Q :=
  option_map snd (find (fun p => close (fst p) x) tab).

Definition c03_case := (Q * Q * Q * bool * list nat * list (Q * Q) * list leaf * list (Q * Q))%type.

(* (sigma / C)^2 * eps_i^2 = 2 ln (1.25 / delta_i) *)
Definition calibrated (tab : list (Q * Q)) (ratio e d : Q) : bool :=
  match lnlookup tab ((5 # 4) / d) with
  | Some l => close (ratio * ratio * e * e) (2 * l)
  | None => false
  end.

Definition budget_ok (c : c03_case) : bool :=
  let '(eps, del, s, th, groups, sites, leaves, tab) := c in
  let '(ej, dj) := group_budgetQ eps del s th groups in
  let ms := planQ eps del s th groups in
  let gl := filter (fun l => match l with LG _ => true | _ => false end) leaves in
  let el := filter (fun l => match l with LE _ _ => true | _ => false end) leaves in
  (* key release recorded with exactly its share *)
  (if th then match el with
              | [LE e d] => let '(te, td) := threshold_budgetQ eps del s in close e te && close d td
              | _ => false
              end
   else match el with [] => true | _ => false end)
  (* one recorded Gaussian per noised sum at most the planned number, each with the group's multiplier *)
  && Nat.leb (List.length sites) (List.length gl) && Nat.leb (List.length gl) (List.length ms)
  && forallb (fun l => match l with LG m => calibrated tab m ej dj | _ => true end) gl
  (* every noise site is calibrated for the per-sum budget of some group of the plan *)
  && forallb (fun sc => let '(sg, c) := sc in
                        existsb (fun m => calibrated tab (sg / c) (m_eps m) (m_del m)) ms) sites
  (* and the recorded multiplier is not larger than sigma / C *)
  && forallb (fun sc => let '(sg, c) := sc in
                        existsb (fun l => match l with LG m => Qle_bool m ((sg / c) * (1 + tol)) | _ => false end) gl) sites.

Definition budget_check cases := bad_indices budget_ok cases.
