From QV Require Import Rel.Size Corr.Lib.
Open Scope Z_scope.

Definition c07_case := (rel * list (Z * Z))%type.
Definition pair_eqb (x y : Z * Z) : bool := (fst x =? fst y) && (snd x =? snd y).
Definition size_ok (c : c07_case) : bool := list_eqb pair_eqb (sizes (fst c)) (snd c).
Definition size_check cases := bad_indices size_ok cases.
