From QV Require Import Intervals.Model Fn.IntExpr Expr.Filter Expr.FilterNull Corr.Lib.
Open Scope Z_scope.

Definition c10_case := (list (list (Z * Z)) * pred * list (list (Z * Z)))%type.

Definition filter_ok (c : c10_case) : bool :=
  let '(t, p, out) := c in
  list_eqb ivs_eqb (map merge_adjacent (narrow CAP t p)) (map merge_adjacent out).
Definition filter_check cases := bad_indices filter_ok cases.

(* nullable columns: (optional flag, ranges) per column before and after the narrowing.  The ranges are those
   of [narrow]; a column the implementation stops declaring optional must be one whose flag [nflags] drops
   (the model drops as many flags as is sound, the implementation may keep more) *)
Definition c10_null_case := (list (bool * list (Z * Z)) * pred * list (bool * list (Z * Z)))%type.
Fixpoint flags_le (model impl : list bool) : bool :=
  match model, impl with
  | [], [] => true
  | m :: model', i :: impl' => implb m i && flags_le model' impl'
  | _, _ => false
  end.
Definition filter_null_ok (c : c10_null_case) : bool :=
  let '(t, p, out) := c in
  list_eqb ivs_eqb (map merge_adjacent (narrow CAP (map snd t) p)) (map merge_adjacent (map snd out)) &&
  flags_le (nflags (map fst t) p) (map fst out).
Definition filter_null_check cases := bad_indices filter_null_ok cases.
