From QV Require Import Intervals.Model Fn.IntExpr Expr.Filter Corr.Lib.
Open Scope Z_scope.

Definition c10_case := (list (list (Z * Z)) * pred * list (list (Z * Z)))%type.

Definition filter_ok (c : c10_case) : bool :=
  let '(t, p, out) := c in
  list_eqb ivs_eqb (map merge_adjacent (narrow CAP t p)) (map merge_adjacent out).
Definition filter_check cases := bad_indices filter_ok cases.
