(* C07 — the row-level evaluator against SQLite and against the sizes qrlew declares: a case is a
   relational expression with its data (written by the harness from the same tree it renders as SQL),
   the rows SQLite returned for that SQL and the size interval of the relation qrlew built from it *)
From QV Require Import Rel.Eval Rel.Cols Corr.Lib.
From Coq Require Import List ZArith Bool.
Import ListNotations.
Open Scope Z_scope.

(* the vocabulary the harness writes expressions in *)
Definition col (i : nat) (r : list (option Z)) : option Z := nth i r None.
(* a comparison with a NULL operand is not true *)
Definition cmp (op : nat) (a b : option Z) : bool :=
  match a, b with
  | Some x, Some y =>
      match op with
      | O => x >? y | 1%nat => x >=? y | 2%nat => x <? y | 3%nat => x <=? y | 4%nat => x =? y | _ => negb (x =? y)
      end
  | _, _ => false
  end.
Definition count_rows (rows : list (list (option Z))) : list (option Z) := [Some (Z.of_nat (List.length rows))].

Fixpoint bag_eqb (a b : list (list (option Z))) : bool :=
  match a with
  | [] => match b with [] => true | _ => false end
  | x :: a' => memb x b && bag_eqb a' (remove_one x b)
  end.

Fixpoint nodupb (l : list Z) : bool :=
  match l with [] => true | x :: l' => negb (existsb (Z.eqb x) l') && nodupb l' end.
Fixpoint flags_hold (i : nat) (flags : list bool) (rows : list (list (option Z))) : bool :=
  match flags with
  | [] => true
  | u :: fl => (negb u || nodupb (colvals i rows)) && flags_hold (S i) fl rows
  end.

(* decidable form of [wfu] and [wfs]: the base tables conform to their size and honour their unique flags,
   column indices exist, windows are non-negative (the i64 bound holds of these small results) *)
Fixpoint wfub (e : cexp) : bool :=
  match e with
  | QTable s u rows =>
      forallb (fun r => (List.length r =? List.length u)%nat) rows && flags_hold 0 u rows &&
      (fst s <=? Z.of_nat (List.length rows)) && (Z.of_nat (List.length rows) <=? snd s)
  | QSel _ cols lim off i =>
      wfub i && forallb (fun c => (c <? arity i)%nat) cols &&
      match lim with Some x => 0 <=? x | None => true end && match off with Some x => 0 <=? x | None => true end
  | QGroup key i => wfub i && (key <? arity i)%nat
  | QCount i => wfub i
  | QJoin _ li rj _ l r => wfub l && wfub r && (li <? arity l)%nat && (rj <? arity r)%nat
  | QSet _ _ l r => wfub l && wfub r && (arity l =? arity r)%nat
  end.

(* expression, rows SQLite returned, size qrlew declares, compare the rows (false: the counts, when a
   LIMIT window without total order picks the rows), unique flag qrlew declares for each output column *)
Definition eval_case := (cexp * list (list (option Z)) * (Z * Z) * bool * list bool)%type.
Definition eval_ok (c : eval_case) : bool :=
  let '(e, rows, size, exact, qflags) := c in
  let got := rows_c e in
  let n := Z.of_nat (List.length got) in
  let x := erase (to_rexp e) in
  (* the evaluator of the model agrees with SQLite *)
  (if exact then bag_eqb got rows else (List.length got =? List.length rows)%nat) &&
  (* the size and the unique flags of the model are those qrlew declares *)
  (fst (size_of (skeleton x)) =? fst size) && (snd (size_of (skeleton x)) =? snd size) &&
  list_eqb Bool.eqb (uflags e) qflags &&
  (* the premises of the theorems hold of the data, and so do their conclusions *)
  wfub e &&
  (negb (sizes_ok x && join_ok x) || ((fst size <=? n) && (n <=? snd size))) &&
  flags_hold 0 (uflags e) got.
Definition eval_check cases := bad_indices eval_ok cases.
