(* C16 correspondence: request sequences run on the real namer (new_name, new_id, reset, after a
   reset) and Encoder::encode(BASE_37, 4) on raw hashes, against the model. *)
From Coq Require Import String List NArith Bool.
From QV Require Import Namer.Model Corr.Lib.
Import ListNotations.
Open Scope string_scope.

Definition out_eqb (a b : out) : bool :=
  match a, b with
  | OName x, OName y => String.eqb x y
  | OId x, OId y => N.eqb x y
  | OUnit, OUnit => true
  | _, _ => false
  end.

(* requests (counter requests only), outputs of the implementation *)
Definition seq_case := (list req * list out)%type.
Definition seq_ok (c : seq_case) : bool := list_eqb out_eqb (run [] (fst c)) (snd c).
Definition seq_check (cases : list seq_case) : list N := bad_indices seq_ok cases.

Definition enc_case := (N * string)%type.
Definition enc_ok (c : enc_case) : bool := String.eqb (encode 4 (fst c)) (snd c).
Definition enc_check (cases : list enc_case) : list N := bad_indices enc_ok cases.
