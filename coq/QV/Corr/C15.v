From QV Require Import Hierarchy.Model Corr.Lib.

Definition kv_eqb (x y : path * N) : bool := path_eqb (fst x) (fst y) && N.eqb (snd x) (snd y).

(* sets of entries are compared as sorted lists: the harness prints BTreeMap order *)
Definition hier_eqb (x y : list (path * N)) : bool := list_eqb kv_eqb x y.

(* one case: a hierarchy, a lookup path, a prefix, a head; expected results *)
Definition c15_case := (list (path * N) * path * path * path *
  (option (path * N) * list (path * N) * list (path * N)))%type.

Definition get_ok (c : c15_case) : bool :=
  let '(h, p, pre, head, (eg, ef, ep)) := c in
  opt_eqb kv_eqb (get_key_value h p) eg
  && hier_eqb (hfilter h pre) ef
  && hier_eqb (prepend h head) ep.
Definition get_check cases := bad_indices get_ok cases.

Definition and_then_ok (c : list (path * path) * list (path * N) * list (path * N)) : bool :=
  let '(h, g, e) := c in hier_eqb (and_then h g) e.
Definition and_then_check cases := bad_indices and_then_ok cases.
