From QV Require Import Intervals.Model Fn.IntExpr Corr.Lib.
Open Scope Z_scope.

(* types of the columns, expression, rows with what the implementation evaluated, propagated range *)
Definition c06_case := (list (list (Z * Z)) * expr * list (list Z * option Z) * option (list (Z * Z)))%type.

Definition intexpr_ok (c : c06_case) : bool :=
  let '(tenv, e, rows, img) := c in
  opt_eqb ivs_eqb (option_map merge_adjacent (image CAP tenv e)) (option_map merge_adjacent img)
  && forallb (fun r => opt_eqb Z.eqb (eval (fst r) e) (snd r)) rows.
Definition intexpr_check cases := bad_indices intexpr_ok cases.
