From QV Require Import Rel.Unique Generated.FnMeta Corr.Lib.
Open Scope string_scope.

Definition is_bij (f : string) : bool :=
  existsb (fun m => let '(n, b, _) := m in String.eqb n f && b) fn_meta.
