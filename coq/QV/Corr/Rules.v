From QV Require Import Rules.Model Rules.Safety Corr.Lib Generated.RuleTable.

Fixpoint tree_eqb (a b : tree) : bool :=
  match a, b with
  | Node k rs ts, Node k' rs' ts' =>
      kind_eqb k k' && rules_eqb rs rs' &&
      (fix go (x y : list tree) : bool :=
         match x, y with
         | [], [] => true
         | t :: x', u :: y' => tree_eqb t u && go x' y'
         | _, _ => false
         end) ts ts'
  end.

Fixpoint deriv_eqb (a b : deriv) : bool :=
  match a, b with
  | D r ds, D r' ds' =>
      rule_eqb r r' &&
      (fix go (x y : list deriv) : bool :=
         match x, y with
         | [], [] => true
         | t :: x', u :: y' => deriv_eqb t u && go x' y'
         | _, _ => false
         end) ds ds'
  end.

Inductive outcome := OPanic | OUnreachable | OSig (s : N).

(* synthetic, strategy Hard, DP entry point, tree as set, tree after the real eliminator,
   derivations the real selector returned, their real scores, signatures of what each
   acceptable derivation rewrites to (by index; None = the rewriter panicked), outcome of the entry point *)
Definition rules_case := (bool * bool * bool * tree * tree * list deriv * list Z *
                          list (N * option N) * outcome)%type.

Fixpoint index_of (d : deriv) (l : list deriv) (i : N) : option N :=
  match l with
  | [] => None
  | x :: t => if deriv_eqb x d then Some i else index_of d t (N.succ i)
  end.

Fixpoint lookup (i : N) (l : list (N * option N)) : option (option N) :=
  match l with
  | [] => None
  | (j, s) :: t => if N.eqb i j then Some s else lookup i t
  end.

Definition search_ok (c : rules_case) : bool :=
  let '(syn, hard, dp_entry, t, t_elim, sel, scores, sigs, oc) := c in
  let acc := if dp_entry then accept_dp else accept_pup in
  from_table rule_table syn hard t
  && arity_ok t
  && tree_eqb (eliminate t) t_elim
  && list_eqb deriv_eqb (select (eliminate t)) sel
  && list_eqb Z.eqb (map (score weight) sel) scores
  && match oc, best weight acc t with
     | OPanic, _ => true        (* counted by the harness, decided under C18 *)
     | OUnreachable, None => true
     | OSig s, Some d =>
         match index_of d sel 0%N with
         | Some i => match lookup i sigs with Some (Some s') => N.eqb s s' | _ => false end
         | None => false
         end
     | _, _ => false
     end.
Definition search_check cases := bad_indices search_ok cases.

Definition safety_ok (c : rules_case) : bool :=
  let '(syn, hard, dp_entry, t, t_elim, sel, scores, sigs, oc) := c in
  from_table rule_table syn hard t
  && list_eqb deriv_eqb (select (eliminate t)) sel
  && forallb (fun d => negb (accept_dp (dout d)) || negb (raw t d)) sel.
Definition safety_check cases := bad_indices safety_ok cases.
