From QV Require Import Intervals.Model Corr.Lib.
Open Scope Z_scope.

Definition digest (s : list (Z * Z)) : N * Z :=
  (N.of_nat (List.length s), fold_left (fun acc i => acc + fst i + snd i) s 0).

Definition digest_eqb (x y : N * Z) : bool := N.eqb (fst x) (fst y) && Z.eqb (snd x) (snd y).

Definition hist_ok (c : list op * list (option (N * Z)) * option (list (Z * Z))) : bool :=
  let '(ops, digests, fin) := c in
  let tr := trace CAP [] ops in
  list_eqb (opt_eqb digest_eqb) (map (option_map digest) tr) digests
  && opt_eqb ivs_eqb (run CAP [] ops) fin.

Definition hist_check cases := bad_indices hist_ok cases.

Definition pair_ok (c : list (Z*Z) * list (Z*Z) * Z * (list (Z*Z) * list (Z*Z) * (bool * bool * bool * bool))) : bool :=
  let '(a, b, v, (u, i, (sab, sba, ca, cb))) := c in
  opt_eqb ivs_eqb (union CAP a b) (Some u)
  && opt_eqb ivs_eqb (intersection CAP a b) (Some i)
  && opt_eqb Bool.eqb (is_subset_of CAP a b) (Some sab)
  && opt_eqb Bool.eqb (is_subset_of CAP b a) (Some sba)
  && opt_eqb Bool.eqb (contains CAP a v) (Some ca)
  && opt_eqb Bool.eqb (contains CAP b v) (Some cb).

Definition pair_check cases := bad_indices pair_ok cases.

(* what the model computes for one case (used to fill in a replay file) *)
Definition hist_model (c : list op * list (option (N * Z)) * option (list (Z * Z))) :=
  let '(ops, _, _) := c in run CAP [] ops.
Definition pair_model (c : list (Z*Z) * list (Z*Z) * Z * (list (Z*Z) * list (Z*Z) * (bool * bool * bool * bool))) :=
  let '(a, b, v, _) := c in
  (union CAP a b, intersection CAP a b, is_subset_of CAP a b, is_subset_of CAP b a, contains CAP a v, contains CAP b v).
