From Coq Require Import ZArith List Bool.
From Flocq Require Import IEEE754.Binary IEEE754.Bits.
From QV Require Import Intervals.Model DataType.Inject Corr.Lib.
Import ListNotations.
Open Scope Z_scope.

Definition i2f_ok (c : Z * Z) : bool := Z.eqb (bits_of_b64 (i2f (fst c))) (snd c).
Definition i2f_check cases := bad_indices i2f_ok cases.

Definition f2i_ok (c : Z * option Z) : bool := opt_eqb Z.eqb (f2i (b64_of_bits (fst c))) (snd c).
Definition f2i_check cases := bad_indices f2i_ok cases.

(* Integer -> Float on interval sets that are not enumerated: interval by interval, then collected *)
Definition image_ok (c : list (Z * Z) * list (Z * Z)) : bool :=
  opt_eqb ivs_eqb (from_intervals CAP (map i2f_interval (fst c))) (Some (snd c)).
Definition image_check cases := bad_indices image_ok cases.

Definition i2b_ok (c : Z * option bool) : bool := opt_eqb Bool.eqb (i2b (fst c)) (snd c).
Definition i2b_check cases := bad_indices i2b_ok cases.

(* the liftings over Float -> Integer on the values the implementation converted: Base<List,List> converts every
   element or refuses the list, Base<Optional,Optional> converts the wrapped value or refuses *)
Definition list_lift_ok (c : list Z * option (list Z)) : bool :=
  opt_eqb (list_eqb Z.eqb) (list_lift f2i (map b64_of_bits (fst c))) (snd c).
Definition list_lift_check cases := bad_indices list_lift_ok cases.
Definition opt_lift_ok (c : option Z * option (option Z)) : bool :=
  opt_eqb (opt_eqb Z.eqb) (opt_lift f2i (option_map b64_of_bits (fst c))) (snd c).
Definition opt_lift_check cases := bad_indices opt_lift_ok cases.
