(* Helpers shared by the correspondence checkers: the harness writes case files that
   define [cases] and evaluate a checker; a checker returns the indices of the cases
   on which the model disagrees with what the implementation returned. *)
From Coq Require Export List ZArith NArith Bool String.
Export ListNotations.

Inductive qvresult := QVRESULT.

Fixpoint bad_indices_from {A} (f : A -> bool) (i : N) (l : list A) : list N :=
  match l with
  | [] => []
  | x :: t => if f x then bad_indices_from f (N.succ i) t else i :: bad_indices_from f (N.succ i) t
  end.
Definition bad_indices {A} (f : A -> bool) (l : list A) : list N := bad_indices_from f 0%N l.

Definition count {A} (f : A -> bool) (l : list A) : N := N.of_nat (List.length (filter f l)).

Definition opt_eqb {A} (eqb : A -> A -> bool) (x y : option A) : bool :=
  match x, y with
  | Some a, Some b => eqb a b
  | None, None => true
  | _, _ => false
  end.

Fixpoint list_eqb {A} (eqb : A -> A -> bool) (x y : list A) : bool :=
  match x, y with
  | [], [] => true
  | a :: x', b :: y' => eqb a b && list_eqb eqb x' y'
  | _, _ => false
  end.
