(* C07 / C14 — the flags Join::schema gives its output fields, against the row-level model:
   per field (optional, unique) of the left input, of the right input and of the output *)
From QV Require Import Rel.Rows Corr.Lib.

Definition field_flags := (bool * bool)%type.
Definition join_case := (jkind * (bool * bool) * list field_flags * list field_flags * list field_flags)%type.

(* the side an outer join pads becomes optional (it can only stay or become optional: the ON filter may
   have removed NULL from the non-preserved side); a left field keeps its unique flag iff the right key
   is unique, and conversely *)
Definition field_ok (pad keep : bool) (i o : field_flags) : bool :=
  (implb pad (fst o)) && (implb (fst o) (pad || fst i)) && Bool.eqb (snd o) (keep && snd i).
Fixpoint fields_ok (pad keep : bool) (ins outs : list field_flags) : bool :=
  match ins, outs with
  | [], [] => true
  | i :: ins', o :: outs' => field_ok pad keep i o && fields_ok pad keep ins' outs'
  | _, _ => false
  end.
Definition join_flags_ok (c : join_case) : bool :=
  let '(k, (ul, ur), lf, rf, out) := c in
  let padl := match k with JRight | JFull => true | _ => false end in
  let padr := match k with JLeft | JFull => true | _ => false end in
  (List.length out =? List.length lf + List.length rf)%nat &&
  fields_ok padl (join_keeps_left ul ur) lf (firstn (List.length lf) out) &&
  fields_ok padr (join_keeps_right ul ur) rf (skipn (List.length lf) out).
Definition join_flags_check cases := bad_indices join_flags_ok cases.

(* Set::schema: no constraint survives a set operation (union_unique_refuted) *)
Definition set_flags_ok (out : list field_flags) : bool := forallb (fun f => negb (snd f)) out.

(* Reduce::schema_aggregate: (number of grouping keys, per output field: is FIRST, its input column is
   unique, declared unique).  A FIRST is unique when it is the single grouping key (group_key_unique)
   or when its input column is (first_of_unique_column); nothing else is *)
Definition reduce_case := (nat * list (bool * bool * bool))%type.
Definition reduce_flags_ok (c : reduce_case) : bool :=
  let '(nkeys, fs) := c in
  let nfirst := List.length (filter (fun f => fst (fst f)) fs) in
  forallb (fun f => let '(isfirst, inu, outu) := f in
     Bool.eqb outu (isfirst && (((nfirst =? 1)%nat && (nkeys =? 1)%nat) || inu))) fs.

Inductive flags_case := FJoin (c : join_case) | FSet (out : list field_flags) | FReduce (c : reduce_case).
Definition flags_ok (c : flags_case) : bool :=
  match c with FJoin c => join_flags_ok c | FSet o => set_flags_ok o | FReduce c => reduce_flags_ok c end.
Definition flags_check cases := bad_indices flags_ok cases.
