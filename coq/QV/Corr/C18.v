(* C18 correspondence: which calls of Intervals::union_interval / intersection_interval abort
   (the assert!(min <= max)) on the real implementation, against the model, where None stands for
   the abort. *)
From Coq Require Import List ZArith Bool.
From QV Require Import Intervals.Model Corr.Lib.
Import ListNotations.
Open Scope Z_scope.

(* intervals inserted one by one from the empty set, then one call: union?, min, max; did it abort *)
Definition c18_case := (list (Z * Z) * bool * Z * Z * bool)%type.

Definition c18_ok (c : c18_case) : bool :=
  let '(l, is_union, mn, mx, aborted) := c in
  match from_intervals CAP l with
  | None => false
  | Some s =>
      match (if is_union then union_interval CAP s mn mx else intersection_interval CAP s mn mx) with
      | None => aborted
      | Some _ => negb aborted
      end
  end.

Definition check (cases : list c18_case) : list N := bad_indices c18_ok cases.
