(* C05 correspondence: the skeleton read off the really rewritten (privacy-unit preserving)
   relation, the verdict of the row oracle on it (did the restriction to a unit commute on the
   generated databases), and whether the query belongs to a class listed as a known finding.
   Inside the fragment of C05_tracking_local the oracle must have found nothing; outside it the
   shape must be one of the listed classes. *)
From Coq Require Import List Bool.
From QV Require Import Rel.Track Corr.Lib.
Import ListNotations.

(* skeleton, oracle found a violation, listed class *)
Definition c05_case := (skel * bool * bool)%type.

Definition c05_ok (c : c05_case) : bool :=
  let '(s, violated, listed) := c in
  if skel_ok s then negb violated else listed.

Definition check (cases : list c05_case) : list N := bad_indices c05_ok cases.
