(* C09 correspondence: the value the rewritten query returned on SQLite with every noise factor at
   zero, against the model of QV/DP/Exact.v evaluated on the (unit, value) rows of the group.
   STDDEV is compared through its square. *)
From Coq Require Import QArith Qabs ZArith List Bool.
From QV Require Import DP.Exact Corr.Lib.
Import ListNotations.
Open Scope Q_scope.

Definition fq (m e : Z) : Q :=
  if (0 <=? e)%Z then inject_Z (m * 2 ^ e) else Qmake m (Z.to_pos (2 ^ (- e))).

Definition tol : Q := 1 # 1000000.
Definition close (a b : Q) : bool := Qle_bool (Qabs (a - b)) (tol * Qmax 1 (Qmax (Qabs a) (Qabs b))).

(* aggregate, DISTINCT, compare squares (STDDEV), rows, returned value *)
Definition c09_case := (agg * bool * bool * list (Z * option Q) * Q)%type.

Definition c09_ok (c : c09_case) : bool :=
  let '(a, d, std, rows, ret) := c in
  let m := dp_value a d rows in
  if std then close (ret * ret) m else close ret m.

Definition check (cases : list c09_case) : list N := bad_indices c09_ok cases.
