(* C01 correspondence: per privacy unit, the partial sums v_g of a summed column over the groups
   and their clipped counterparts w_g, both read off the execution of the really rewritten
   relation on SQLite, against the model of QV/DP/Clip.v.  sqrt is not computable on rationals:
   the model's output is checked through the characterisation proved in ClipProofs
   (clip_inactive: w = v when |v|^2 <= C^2;  clip_active: w = (C/|v|) v and |w|^2 = C^2), i.e.
   w_g^2 |v|^2 = C^2 v_g^2 with the sign of v_g. *)
From Coq Require Import QArith Qabs Qminmax ZArith List Bool.
From QV Require Import Corr.Lib.
Import ListNotations.
Open Scope Q_scope.

Definition fq (m e : Z) : Q :=
  if (0 <=? e)%Z then inject_Z (m * 2 ^ e) else Qmake m (Z.to_pos (2 ^ (- e))).

Definition tol : Q := 1 # 1000000.
Definition close (a b : Q) : bool := Qle_bool (Qabs (a - b)) (tol * Qmax 1 (Qmax (Qabs a) (Qabs b))).

Fixpoint qsumsq (l : list Q) : Q := match l with [] => 0 | x :: t => x * x + qsumsq t end.

Definition c01_case := (Q * list (Q * Q))%type.

Definition c01_ok (c : c01_case) : bool :=
  let '(C, vw) := c in
  let n2 := qsumsq (map fst vw) in
  if Qle_bool n2 (C * C) then forallb (fun p => close (fst p) (snd p)) vw
  else close (qsumsq (map snd vw)) (C * C)
       && forallb (fun p => Qle_bool 0 (fst p * snd p)
                            && close (snd p * snd p * n2) (C * C * (fst p * fst p))) vw.

Definition check (cases : list c01_case) : list N := bad_indices c01_ok cases.
