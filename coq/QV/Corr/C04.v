(* C04 correspondence: the keys the rewritten query released on SQLite (noise draw fixed to z for
   every key) against the model of QV/DP/Tau.v on the same (unit, key) rows.  The code ranks the
   groups of a unit with RANDOM(), which the model takes as a parameter: the released set is
   bracketed between the model run with every over-spread unit dropped and the model run without
   the cap, and must equal both when no unit holds more than cu keys. *)
From Coq Require Import QArith ZArith List Bool.
From QV Require Import DP.Tau Corr.Lib.
Import ListNotations.

Definition fq (m e : Z) : Q :=
  if (0 <=? e)%Z then inject_Z (m * 2 ^ e) else Qmake m (Z.to_pos (2 ^ (- e))).

(* cu, tau, sigma, z, rows (unit, key), released keys *)
Definition c04_case := (nat * Q * Q * Q * list (Z * Z) * list Z)%type.

Definition subset (a b : list Z) : bool := forallb (fun x => existsb (Z.eqb x) b) a.

Definition c04_ok (c : c04_case) : bool :=
  let '(cu, tau, sigma, z, rows, rel) := c in
  let upper := release tau sigma (fun _ => z) (dedup rows) in
  let lower := released cu (fun _ => 0%Z) tau sigma (fun _ => z) rows in
  subset lower rel && subset rel upper.

Definition check (cases : list c04_case) : list N := bad_indices c04_ok cases.
