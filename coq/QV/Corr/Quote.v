From QV Require Import Sql.Quote Corr.Lib.
Open Scope N_scope.

Definition codes_eqb (x y : list N) : bool := list_eqb N.eqb x y.

(* delimiter, value, what Display wrote, what the tokenizer read back from it (None: not a single token) *)
Definition quote_case := (N * list N * list N * option (list N))%type.
Definition quote_ok (c : quote_case) : bool :=
  let '(q, s, written, back) := c in
  codes_eqb (quote q s) written && opt_eqb codes_eqb (unquote q written) back.
Definition quote_check cases := bad_indices quote_ok cases.
