//! C15: Hierarchy lookup — correspondence cases for QV/Hierarchy/Model.v, the lookup-specification
//! oracle on the implementation, and the query-level ambiguity oracle.
use crate::common::*;
use qrlew::{hierarchy::Hierarchy, sql::parse, relation::{Relation, Variant as _}, DataType, Ready as _, data_type::DataTyped as _};
use qrlew::relation::Schema;
use qrlew::sql::relation::QueryWithRelations;
use serde_json::json;
use std::collections::BTreeMap;
use std::panic::{catch_unwind, AssertUnwindSafe};
use std::sync::Arc;

const ALPHA: [&str; 7] = ["a", "b", "c", "d", "", "A", "B"];
fn comp(i: usize) -> String { ALPHA[i].to_string() }
fn num(s: &str) -> u64 { ALPHA.iter().position(|x| *x == s).unwrap() as u64 + 1 }
fn path_coq(p: &[String]) -> String { format!("{}%N", coq_list(p, |s| format!("{}", num(s)))) }
fn kv_coq(k: &[String], v: u64) -> String { format!("({}, {}%N)", path_coq(k), v) }
fn hier_coq(h: &[(Vec<String>, u64)]) -> String { coq_list(h, |(k, v)| kv_coq(k, *v)) }

fn rand_path(r: &mut Rng, maxlen: i64, nalpha: u64) -> Vec<String> {
    let n = r.range(0, maxlen) as usize;
    (0..n).map(|_| comp(r.below(nalpha) as usize)).collect()
}

fn agree(p: &[String], k: &[String]) -> bool {
    let n = p.len().min(k.len());
    (0..n).all(|i| p[p.len() - 1 - i] == k[k.len() - 1 - i])
}
/// the specification, written independently of the library
fn spec_get(h: &BTreeMap<Vec<String>, u64>, p: &[String]) -> Option<(Vec<String>, u64)> {
    if let Some(v) = h.get(p) { return Some((p.to_vec(), *v)); }
    let c: Vec<_> = h.iter().filter(|(k, _)| agree(p, k)).collect();
    if c.len() == 1 { Some((c[0].0.clone(), *c[0].1)) } else { None }
}

pub fn run(outdir: &str, seed: u64, thorough: bool) -> serde_json::Value {
    let mut rng = Rng::new(seed ^ 0xC15);
    let mut st = Stats::default();
    let n = if thorough { 150_000 } else { 6000 };
    let mut cases = vec![];
    let mut cj = vec![];
    for i in 0..n {
        let mut r = rng.fork();
        // (one case in four also draws components that differ from another by case only: they are different names)
        let nalpha = if r.chance(1, 3) { 2 } else if r.chance(1, 3) { 7 } else { 5 };
        let nkmax = if r.chance(1, 10) { 40 } else { 8 };
        let nk = r.range(0, nkmax);
        let mut m: BTreeMap<Vec<String>, u64> = BTreeMap::new();
        for j in 0..nk {
            // heavy suffix sharing: often extend / truncate an existing key
            let k = if !m.is_empty() && r.chance(1, 2) {
                let keys: Vec<_> = m.keys().cloned().collect();
                let mut k = r.pick(&keys).clone();
                match r.below(3) { 0 => { k.insert(0, comp(r.below(nalpha) as usize)); } 1 => { if !k.is_empty() { k.remove(0); } } _ => { if !k.is_empty() { let l = k.len(); k[0] = comp(r.below(nalpha) as usize); let _ = l; } } }
                k
            } else { rand_path(&mut r, 4, nalpha) };
            m.insert(k, 100 + j as u64);
        }
        let h: Hierarchy<u64> = Hierarchy::new(m.clone());
        let keys: Vec<_> = m.keys().cloned().collect();
        let p = if !keys.is_empty() && r.chance(2, 3) {
            let k = r.pick(&keys).clone();
            match r.below(4) { 0 => k, 1 => k[k.len().min(r.below(3) as usize)..].to_vec(), 2 => { let mut q = rand_path(&mut r, 2, nalpha); q.extend(k); q } _ => k[k.len().saturating_sub(1)..].to_vec() }
        } else { rand_path(&mut r, 4, nalpha) };
        let pre = if !keys.is_empty() && r.chance(1, 2) { let k = r.pick(&keys); k[..k.len().min(r.below(3) as usize)].to_vec() } else { rand_path(&mut r, 2, nalpha) };
        let head = rand_path(&mut r, 2, nalpha);
        let res = catch_unwind(AssertUnwindSafe(|| {
            let g = h.get_key_value(&p).map(|(k, v)| (k.to_vec(), *v));
            let f: Vec<(Vec<String>, u64)> = h.filter(&pre).into_iter().collect();
            let pp: Vec<(Vec<String>, u64)> = h.clone().prepend(&head).into_iter().collect();
            (g, f, pp)
        }));
        let hl: Vec<(Vec<String>, u64)> = m.iter().map(|(k, v)| (k.clone(), *v)).collect();
        match res {
            Ok((g, f, pp)) => {
                let want = spec_get(&m, &p);
                if g != want {
                    let ncand = m.keys().filter(|k| agree(&p, k)).count();
                    st.violation(json!({"kind": if g.is_some() && want.is_none() && ncand >= 2 {"ambiguous-name-bound"} else {"lookup-differs-from-specification"},
                        "hierarchy": hl, "path": p, "returned": g, "specified": want, "agreeing_keys": ncand}));
                }
                // prepend must keep every entry (no two keys collapse) and filter keeps exactly the prefixed ones
                if pp.len() != hl.len() { st.violation(json!({"kind":"prepend-lost-entry","hierarchy":hl,"head":head})); }
                cases.push(format!("({}, {}, {}, {}, ({}, {}, {}))", hier_coq(&hl), path_coq(&p), path_coq(&pre), path_coq(&head),
                    coq_opt(&g, |(k, v)| kv_coq(k, *v)), hier_coq(&f), hier_coq(&pp)));
                cj.push(json!({"hierarchy": hl, "path": p, "prefix": pre, "head": head, "get": g}));
                let ncand = m.keys().filter(|k| agree(&p, k)).count();
                st.case(&format!("{:?}{:?}", hl, p), hl.len() >= 2);
                st.bump(if m.contains_key(&p) { "lookup_exact" } else if ncand == 0 { "lookup_no_candidate" } else if ncand == 1 { "lookup_unique_suffix" } else { "lookup_ambiguous" });
                if i < 2 { st.sample(json!({"stream":"lookup","hierarchy":hl,"path":p,"get":g})); }
            }
            Err(e) => st.violation(json!({"kind":"panic","hierarchy":hl,"path":p,"message":panic_msg(e)})),
        }
    }
    // and_then
    let mut at_cases = vec![];
    let mut atj = vec![];
    for _ in 0..(n / 6) {
        let mut r = rng.fork();
        let mut g: BTreeMap<Vec<String>, u64> = BTreeMap::new();
        for j in 0..r.range(0, 6) { g.insert(rand_path(&mut r, 3, 3), 500 + j as u64); }
        let mut h: BTreeMap<Vec<String>, Vec<String>> = BTreeMap::new();
        let gk: Vec<_> = g.keys().cloned().collect();
        for _ in 0..r.range(0, 6) {
            let v = if !gk.is_empty() && r.chance(2, 3) { let k = r.pick(&gk); k[k.len().min(r.below(2) as usize)..].to_vec() } else { rand_path(&mut r, 3, 3) };
            h.insert(rand_path(&mut r, 3, 3), v);
        }
        let hh: Hierarchy<Vec<String>> = Hierarchy::new(h.clone());
        let gg: Hierarchy<u64> = Hierarchy::new(g.clone());
        let out: Vec<(Vec<String>, u64)> = hh.and_then(gg).into_iter().collect();
        let hl: Vec<(Vec<String>, Vec<String>)> = h.into_iter().collect();
        let gl: Vec<(Vec<String>, u64)> = g.into_iter().collect();
        at_cases.push(format!("({}, {}, {})", coq_list(&hl, |(k, v)| format!("({}, {})", path_coq(k), path_coq(v))), hier_coq(&gl), hier_coq(&out)));
        atj.push(json!({"h": hl, "g": gl, "and_then": out}));
        st.case(&format!("{:?}{:?}", hl, gl), hl.len() >= 1 && gl.len() >= 1);
        st.bump("and_then");
    }

    // query level: unqualified names over joined relations with overlapping columns
    let nq = if thorough { 4000 } else { 300 };
    let cols_all = ["a", "b", "c", "d", "e"];
    for qi in 0..nq {
        let mut r = rng.fork();
        let ntab = r.range(2, 3) as usize;
        let mut tabs: Vec<(String, Vec<&str>)> = vec![];
        for t in 0..ntab {
            let mut cs: Vec<&str> = cols_all.iter().filter(|_| r.chance(1, 2)).cloned().collect();
            if !cs.contains(&"k") { cs.push("k"); }
            tabs.push((format!("t{}", t + 1), cs));
        }
        let rels: Hierarchy<Arc<Relation>> = tabs.iter().map(|(n, cs)| {
            let schema: Schema = cs.iter().map(|c| (*c, DataType::integer_interval(0, 10))).collect();
            (vec!["sch".to_string(), n.clone()], Arc::new(Relation::table().name(n.as_str()).schema(schema).size(10).build()))
        }).collect();
        let col = *r.pick(&["a", "b", "c", "d", "e", "k"]);
        let aliased = r.chance(1, 3);
        let alias = |i: usize| if aliased { format!("x{}", i) } else { tabs[i].0.clone() };
        let mode = r.below(5); // 0,1: ON; 2: USING(k); 3: NATURAL; 4: CTE shadowing a table
        let mut from = format!("{}{}", tabs[0].0, if aliased { " AS x0".to_string() } else { String::new() });
        let mut visible: Vec<Vec<&str>> = vec![tabs[0].1.clone()];
        let mut coalesced: Vec<&str> = vec![];
        for i in 1..ntab {
            let al = if aliased { format!(" AS x{}", i) } else { String::new() };
            match mode {
                2 => { from += &format!(" JOIN {}{} USING (k)", tabs[i].0, al); coalesced.push("k"); }
                3 => { from += &format!(" NATURAL JOIN {}{}", tabs[i].0, al);
                       for c in tabs[i].1.iter() { if visible.iter().any(|v| v.contains(c)) { coalesced.push(c); } } }
                _ => { from += &format!(" JOIN {}{} ON {}.k = {}.k", tabs[i].0, al, alias(i - 1), alias(i)); }
            }
            visible.push(tabs[i].1.clone());
        }
        // one ON-join query in three qualifies the column by one of the joined relations: it is that relation's column or nothing
        let qualified: Option<usize> = if mode <= 1 && r.chance(1, 3) { Some(r.below(ntab as u64) as usize) } else { None };
        if let Some(j) = qualified {
            let query = format!("SELECT {}.{} FROM {}{}", alias(j), col, from, if r.chance(1, 3) { format!(" WHERE {}.{} > 2", alias(j), col) } else { String::new() });
            let owns = tabs[j].1.contains(&col);
            let res = catch_unwind(AssertUnwindSafe(|| {
                let q = parse(&query).map_err(|e| e.to_string())?;
                Relation::try_from(QueryWithRelations::new(&q, &rels)).map(|rel| rel.schema().to_string()).map_err(|e| e.to_string())
            }));
            let outcome = match &res { Ok(Ok(_)) => "ok", Ok(Err(_)) => "err", Err(_) => "panic" };
            st.evaluations += 1; st.distinct.insert(hash_str(&query));
            st.bump(&format!("qualified_query_{}_{}", if owns { "owned" } else { "not_owned" }, outcome));
            if !owns && outcome == "ok" {
                st.violation(json!({"kind":"column-qualified-by-a-relation-that-does-not-own-it-bound","query":query,"tables":tabs.iter().map(|(n,c)| json!({"name":n,"columns":c})).collect::<Vec<_>>(),"column":col,"schema":res.unwrap().unwrap()}));
            }
            continue;
        }
        let query = if mode == 4 {
            // the CTE named like table t2 shadows it: its only columns are those it selects
            format!("WITH t2 AS (SELECT k AS k, k AS z FROM t1) SELECT {} FROM t1 JOIN t2 ON t1.k = t2.k", col)
        } else { format!("SELECT {} FROM {}", col, from) };
        let count = if mode == 4 {
            (tabs[0].1.contains(&col) as usize) + (["k", "z"].contains(&col) as usize)
        } else { visible.iter().filter(|v| v.contains(&col)).count() };
        let is_coalesced = coalesced.contains(&col);
        let res = catch_unwind(AssertUnwindSafe(|| {
            let q = parse(&query).map_err(|e| e.to_string())?;
            Relation::try_from(QueryWithRelations::new(&q, &rels)).map(|rel| rel.schema().to_string()).map_err(|e| e.to_string())
        }));
        let outcome = match &res { Ok(Ok(_)) => "ok", Ok(Err(_)) => "err", Err(_) => "panic" };
        st.evaluations += 1;
        st.distinct.insert(hash_str(&query));
        st.bump(&format!("query_{}_{}", if count >= 2 && !is_coalesced { "ambiguous" } else if count == 0 { "unknown" } else { "resolvable" }, outcome));
        if count >= 2 && !is_coalesced && outcome == "ok" {
            st.violation(json!({"kind":"ambiguous-column-bound","query":query,"tables":tabs.iter().map(|(n,c)| json!({"name":n,"columns":c})).collect::<Vec<_>>(),"column":col,"schema":res.unwrap().unwrap()}));
        }
        if qi < 1 { st.sample(json!({"stream":"query","query":query,"candidates":count,"outcome":outcome})); }
    }

    // table references: a CTE shadows the bare name it defines and nothing else; every other reference
    // (bare or schema-qualified) goes to the table map under the exact / unique-suffix rule
    let nt = if thorough { 6000 } else { 400 };
    // (the last one is registered under a one-component path: a CTE of that name has exactly its path)
    let all_tabs = [("sch", "t1"), ("sch", "t2"), ("oth", "t2"), ("oth", "t3"), ("", "t4")];
    for ti in 0..nt {
        let mut r = rng.fork();
        let mut chosen: Vec<(&str, &str)> = all_tabs.iter().filter(|_| r.chance(2, 3)).cloned().collect();
        if chosen.is_empty() { chosen.push(all_tabs[r.below(5) as usize]); }
        let rels: Hierarchy<Arc<Relation>> = chosen.iter().map(|(sc, t)| {
            let marker = format!("m_{}_{}", sc, t);
            let schema: Schema = vec![("k".to_string(), DataType::integer_interval(0, 10)), (marker, DataType::integer_interval(0, 10))].into_iter().collect();
            (if sc.is_empty() { vec![t.to_string()] } else { vec![sc.to_string(), t.to_string()] }, Arc::new(Relation::table().name(format!("{}_{}", sc, t)).schema(schema).size(10).build()))
        }).collect();
        let tmap: BTreeMap<Vec<String>, u64> = chosen.iter().enumerate().map(|(i, (sc, t))| (if sc.is_empty() { vec![t.to_string()] } else { vec![sc.to_string(), t.to_string()] }, i as u64)).collect();
        let cte = *r.pick(&["t1", "t2", "t3", "c0", "t4", "t4"]);
        let base = { let (sc, t) = r.pick(&chosen); if sc.is_empty() { t.to_string() } else { format!("{}.{}", sc, t) } };
        // (a CTE whose body reads a table of its own name is bound to itself and aborts: left to C18)
        if base == cte { continue; }
        let reference = *r.pick(&["t1", "t2", "t3", "c0", "sch.t1", "sch.t2", "oth.t2", "oth.t3", "sch.t3", "oth.t1", "t4", "t4", "sch.t4"]);
        let shape = r.below(4);
        let with = format!("WITH {} AS (SELECT k AS k, k AS m_cte FROM {})", cte, base);
        let query = match shape {
            0 => format!("{} SELECT * FROM {}", with, reference),
            1 => format!("{} SELECT * FROM (SELECT * FROM {}) AS s", with, reference),
            2 => format!("{} SELECT * FROM {} AS x JOIN {} AS y ON x.k = y.k", with, cte, reference),
            // the CTE is defined in an enclosing query
            _ => format!("{} SELECT * FROM (SELECT * FROM {} AS y WHERE y.k > 1) AS s", with, reference),
        };
        // the map the reference is looked up in: the tables, plus the CTE under its bare name once a bare
        // reference of this query binds it (QueryNames); the same exact / unique-agreeing-entry rule applies
        let mut lmap = tmap.clone();
        if reference == cte || shape == 2 { lmap.insert(vec![cte.to_string()], 99); }
        let want: Option<String> = {
            let p: Vec<String> = reference.split('.').map(|x| x.to_string()).collect();
            spec_get(&lmap, &p).map(|(k, v)| if v == 99 { "m_cte".to_string() } else if k.len() == 1 { format!("m__{}", k[0]) } else { format!("m_{}_{}", k[0], k[1]) })
        };
        let res = catch_unwind(AssertUnwindSafe(|| {
            let q = parse(&query).map_err(|e| e.to_string())?;
            Relation::try_from(QueryWithRelations::new(&q, &rels)).map(|rel| rel.schema().iter().map(|f| f.name().to_string()).collect::<Vec<String>>()).map_err(|e| e.to_string())
        }));
        st.evaluations += 1;
        st.distinct.insert(hash_str(&format!("{:?}{}", chosen, query)));
        let tables: Vec<String> = chosen.iter().map(|(a, b)| if a.is_empty() { b.to_string() } else { format!("{}.{}", a, b) }).collect();
        let markers = |names: &Vec<String>| -> Vec<String> { names.iter().filter(|n| n.starts_with("m_")).cloned().collect() };
        match (&res, &want) {
            (Ok(Ok(names)), Some(m)) => {
                st.bump(if reference == cte { "table_ref_cte" } else if reference.contains('.') { "table_ref_qualified" } else { "table_ref_suffix" });
                // x.k, x.m_cte, y.k, y.<marker>: the star renames colliding names, so a renamed last column is m_cte
                let ms = if shape == 2 { vec![match names.get(3) { Some(n) if n.starts_with("m_") => n.clone(), Some(_) => "m_cte".to_string(), None => "missing".to_string() }] } else { markers(names) };
                if ms != vec![m.clone()] {
                    st.violation(json!({"kind":"table-reference-bound-to-another-candidate","query":query,"tables":tables,"reference":reference,"cte":cte,"columns":names,"specified":m}));
                }
            }
            (Ok(Ok(names)), None) => { st.bump("table_ref_unresolvable_ok");
                st.violation(json!({"kind":"ambiguous-or-unknown-table-bound","query":query,"tables":tables,"reference":reference,"cte":cte,"columns":names})); }
            (Ok(Err(e)), Some(m)) => { st.bump("table_ref_resolvable_err");
                st.violation(json!({"kind":"table-reference-not-resolved","query":query,"tables":tables,"reference":reference,"cte":cte,"specified":m,"error":e.chars().take(120).collect::<String>()})); }
            (Ok(Err(_)), None) => st.bump("table_ref_unresolvable_err"),
            (Err(_), _) => { st.bump("table_ref_panic");
                if want.is_some() { st.violation(json!({"kind":"table-reference-not-resolved","query":query,"tables":tables,"reference":reference,"cte":cte,"specified":want,"error":"panic"})); } }
        }
        if ti < 1 { st.sample(json!({"stream":"table-reference","query":query,"tables":tables,"specified":want})); }
    }

    // two tables with the same name in two schemas, joined without aliases: every fully qualified column is the column
    // of its own table, and the shared unqualified name is refused
    {
        let mk = |sc: &str, lo: i64| -> (Vec<String>, Arc<Relation>) {
            let schema: Schema = vec![("k".to_string(), DataType::integer_interval(lo, lo + 10)), ("a".to_string(), DataType::integer_interval(lo, lo + 10)), (format!("only_{}", sc), DataType::integer_interval(lo, lo + 10))].into_iter().collect();
            (vec![sc.to_string(), "t".to_string()], Arc::new(Relation::table().name(format!("{}_t", sc)).schema(schema).size(10).build())) };
        let rels: Hierarchy<Arc<Relation>> = vec![mk("s1", 0), mk("s2", 50)].into_iter().collect();
        let typed = [("SELECT s1.t.a AS x, s2.t.a AS y FROM s1.t JOIN s2.t ON s1.t.k = s2.t.k", "int[0 10]", "int[50 60]"),
            ("SELECT s2.t.a AS x, s1.t.a AS y FROM s1.t JOIN s2.t ON s1.t.k = s2.t.k", "int[50 60]", "int[0 10]"),
            ("SELECT s1.t.a AS x, s2.t.a AS y FROM s2.t JOIN s1.t ON s1.t.k = s2.t.k", "int[0 10]", "int[50 60]"),
            ("SELECT s1.t.a AS x, s2.t.a AS y FROM s1.t LEFT JOIN s2.t ON s1.t.a < s2.t.a", "int[0 10]", "option(int[50 60])"),
            ("SELECT only_s1 AS x, only_s2 AS y FROM s1.t JOIN s2.t ON s1.t.a < s2.t.a", "int[0 10]", "int[50 60]"),
            ("SELECT u.a AS x, s2.t.a AS y FROM s1.t AS u JOIN s2.t ON u.a < s2.t.a", "int[0 10]", "int[50 60]"),
            ("SELECT s2.t.a AS x, s2.t.k AS y FROM s2.t", "int[50 60]", "int[50 60]")];
        for (q, tx, ty) in typed.iter() {
            let res = catch_unwind(AssertUnwindSafe(|| { let p = parse(q).map_err(|e| e.to_string())?; Relation::try_from(QueryWithRelations::new(&p, &rels)).map(|rel| rel.schema().iter().map(|f| f.data_type().to_string()).collect::<Vec<String>>()).map_err(|e| e.to_string()) }));
            st.evaluations += 1; st.distinct.insert(hash_str(q)); st.bump("same_name_tables_queries");
            match res {
                Ok(Ok(ts)) => if ts != vec![tx.to_string(), ty.to_string()] { st.violation(json!({"kind":"qualified-column-bound-to-another-table","query":q,"column_types":ts,"specified":[tx, ty]})); },
                Ok(Err(e)) => st.violation(json!({"kind":"qualified-column-not-resolved","query":q,"error":e.chars().take(160).collect::<String>()})),
                Err(_) => st.violation(json!({"kind":"qualified-column-not-resolved","query":q,"error":"panic"})),
            }
        }
        for q in ["SELECT a FROM s1.t JOIN s2.t ON s1.t.k = s2.t.k", "SELECT k AS z FROM s1.t JOIN s2.t ON s1.t.a < s2.t.a", "SELECT t.a AS z FROM s1.t JOIN s2.t ON s1.t.a < s2.t.a"] {
            let res = catch_unwind(AssertUnwindSafe(|| { let p = parse(q).map_err(|e| e.to_string())?; Relation::try_from(QueryWithRelations::new(&p, &rels)).map(|rel| rel.schema().to_string()).map_err(|e| e.to_string()) }));
            st.evaluations += 1; st.distinct.insert(hash_str(q)); st.bump("same_name_tables_queries");
            if let Ok(Ok(schema)) = res { st.violation(json!({"kind":"ambiguous-column-bound","class":"same-table-name-in-two-schemas","query":q,"schema":schema})); }
        }
    }

    let header = "From QV Require Import Hierarchy.Model Corr.Lib Corr.C15.";
    let f1 = write_shards(outdir, "c15_get", header, "c15_case", "get_check", &cases, if thorough { 2000 } else { 400 });
    let f2 = write_shards(outdir, "c15_and_then", header, "list (path * path) * list (path * N) * list (path * N)", "and_then_check", &at_cases, 2000);
    std::fs::write(format!("{}/c15_get.json", outdir), serde_json::to_string(&cj).unwrap()).unwrap();
    std::fs::write(format!("{}/c15_and_then.json", outdir), serde_json::to_string(&atj).unwrap()).unwrap();
    let mut out = st.to_json("lookups: random path maps over a 5-letter alphabet (with the empty component) with heavy suffix sharing x lookup paths derived from the keys (non-trivial: >= 2 entries; distinct by (map, path)); and_then pairs; queries: unqualified column over 2-3 joined tables with overlapping columns, ON/USING/NATURAL/CTE-shadowing (distinct by text); table references: bare / schema-qualified names over 1-4 tables in two schemas with a CTE named like a table or not, four query shapes, binding read off a marker column");
    out["shards"] = json!({"c15_get": f1, "c15_and_then": f2});
    out
}

/// developer aid: qvh TABREF "<sql>" "sch.t1,oth.t3": the schema (or error) of a query over marker tables
pub fn tabref(sql: &str, tables: &str) {
    let rels: Hierarchy<Arc<Relation>> = tables.split(',').map(|p| {
        let (sc, t) = p.split_once('.').unwrap();
        let schema: Schema = vec![("k".to_string(), DataType::integer_interval(0, 10)), (format!("m_{}_{}", sc, t), DataType::integer_interval(0, 10))].into_iter().collect();
        (vec![sc.to_string(), t.to_string()], Arc::new(Relation::table().name(format!("{}_{}", sc, t)).schema(schema).size(10).build()))
    }).collect();
    let q = parse(sql).unwrap();
    match Relation::try_from(QueryWithRelations::new(&q, &rels)) { Ok(r) => println!("{}\n{}", r.schema(), r), Err(e) => println!("error: {}", e) }
}
