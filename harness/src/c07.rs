//! C07 / C14: executed rows against the declared schema, size interval and uniqueness flags
//! (SQLite), plus the static correspondence of the size arithmetic with QV/Rel/Size.v.
use crate::common::*;
use crate::sqlite::*;
use crate::typegen::member;
use crate::world::*;
use crate::c08::{decorate, render};
use qrlew::{data_type::{function::Function as _, value::Value, DataType, DataTyped as _, Variant as _}, relation::{JoinOperator, Relation, Variant as _, SetOperator, SetQuantifier}};
use serde_json::json;
use std::panic::{catch_unwind, AssertUnwindSafe};

fn sv_value(v: &SV, t: &DataType) -> Value {
    // read the SQL value in the variant the declared type expects
    let base = match t { DataType::Optional(o) => o.data_type().clone(), x => x.clone() };
    match v {
        SV::Null => Value::none(),
        SV::Int(i) => match base { DataType::Float(_) => Value::float(*i as f64), DataType::Boolean(_) => Value::boolean(*i != 0), DataType::Text(_) => Value::text(format!("{}", i)), _ => Value::integer(*i) },
        SV::Real(f) => match base { DataType::Integer(_) if f.fract() == 0.0 && f.abs() < 9e15 => Value::integer(*f as i64), _ => Value::float(*f) },
        SV::Text(s) => Value::text(s.clone()),
    }
}

/// size skeleton of a relation, in Coq syntax (QV/Rel/Size.v)
fn skel(rel: &Relation) -> String {
    let iv = |r: &Relation| -> String { let s = r.size(); match (s.min(), s.max()) { (Some(a), Some(b)) => format!("({}, {})", coq_z(*a as i128), coq_z(*b as i128)), _ => "(0, 0)".into() } };
    match rel {
        Relation::Table(_) => format!("(RTable {})", iv(rel)),
        Relation::Values(_) => format!("(RTable {})", iv(rel)),
        Relation::Map(m) => format!("(RMap {} {} {})", coq_opt(&m.limit().map(|x| x as i128), |x| coq_z(*x)), coq_opt(&m.offset().map(|x| x as i128), |x| coq_z(*x)), skel(m.input())),
        Relation::Reduce(r) => format!("(RReduce {} {})", coq_bool(!r.group_by().is_empty()), skel(r.input())),
        Relation::Join(j) => {
            let (l, r) = unique_flags(j);
            let k = match j.operator() { JoinOperator::Inner(_) => "JInner", JoinOperator::LeftOuter(_) => "JLeft", JoinOperator::RightOuter(_) => "JRight", JoinOperator::FullOuter(_) => "JFull", JoinOperator::Cross => "JCross" };
            format!("(RJoin {} {} {} {} {})", k, coq_bool(l), coq_bool(r), skel(j.left()), skel(j.right()))
        }
        Relation::Set(s) => format!("(RSet {} {} {})", match s.operator() { SetOperator::Union => "SUnion", SetOperator::Except => "SExcept", SetOperator::Intersect => "SIntersect" }, skel(s.left()), skel(s.right())),
    }
}
/// does the ON clause compare a column that carries a unique flag (as Join::size reads it)?
fn unique_flags(j: &qrlew::relation::Join) -> (bool, bool) {
    use qrlew::expr::{Expr, function::Function as F};
    fn go(e: &Expr, j: &qrlew::relation::Join) -> (bool, bool) {
        if let Expr::Function(f) = e {
            let a = f.arguments();
            match f.function() {
                F::Eq => { let mut l = false; let mut r = false;
                    for x in a.iter() { if let Expr::Column(c) = x { if c.len() == 2 {
                        let side = &c[0]; let name = &c[1];
                        if side == "_LEFT_" { if let Ok(fd) = j.left().schema().field(name) { l = fd.has_unique_or_primary_key_constraint(); } }
                        else { if let Ok(fd) = j.right().schema().field(name) { r = fd.has_unique_or_primary_key_constraint(); } } } } }
                    (l, r) }
                F::And => { let x = go(&a[0], j); let y = go(&a[1], j); (x.0 || y.0, x.1 || y.1) }
                _ => (false, false),
            }
        } else { (false, false) }
    }
    match j.operator() { JoinOperator::Inner(e) | JoinOperator::LeftOuter(e) | JoinOperator::RightOuter(e) | JoinOperator::FullOuter(e) => go(e, j), JoinOperator::Cross => (false, false) }
}
/// (optional, unique) of every field of a schema, in Coq syntax
fn field_flags(s: &qrlew::relation::Schema) -> String {
    coq_list(&s.iter().collect::<Vec<_>>(), |f| format!("({}, {})", coq_bool(matches!(f.data_type(), DataType::Optional(_))), coq_bool(f.has_unique_or_primary_key_constraint())))
}
/// the flags Join::schema, Set::schema and Reduce::schema_aggregate give their output fields (QV/Corr/Flags.v)
pub fn flag_cases(rel: &Relation, out: &mut Vec<String>) {
    use qrlew::expr::aggregate::Aggregate;
    use qrlew::relation::Constraint;
    match rel {
        Relation::Join(j) => {
            let (l, r) = unique_flags(j);
            let k = match j.operator() { JoinOperator::Inner(_) => "JInner", JoinOperator::LeftOuter(_) => "JLeft", JoinOperator::RightOuter(_) => "JRight", JoinOperator::FullOuter(_) => "JFull", JoinOperator::Cross => "JCross" };
            out.push(format!("FJoin ({}, ({}, {}), {}, {}, {})", k, coq_bool(l), coq_bool(r), field_flags(j.left().schema()), field_flags(j.right().schema()), field_flags(j.schema())));
        }
        Relation::Set(s) => out.push(format!("FSet {}", field_flags(s.schema()))),
        Relation::Reduce(r) => {
            let fs: Vec<String> = r.aggregate().iter().zip(r.schema().iter()).map(|(a, f)| {
                let inu = a.column_name().ok().and_then(|c| r.input().schema().field(c).ok().map(|x| x.constraint() == Some(Constraint::Unique))).unwrap_or(false);
                format!("({}, {}, {})", coq_bool(a.aggregate() == &Aggregate::First), coq_bool(inu), coq_bool(f.has_unique_or_primary_key_constraint())) }).collect();
            out.push(format!("FReduce ({}%nat, [{}])", r.group_by().len(), fs.join("; ")));
        }
        _ => {}
    }
    for i in rel.inputs() { flag_cases(i, out); }
}
fn node_sizes(rel: &Relation, out: &mut Vec<String>) {
    let s = rel.size();
    out.push(match (s.min(), s.max()) { (Some(a), Some(b)) => format!("({}, {})", coq_z(*a as i128), coq_z(*b as i128)), _ => "(0, 0)".into() });
    for i in rel.inputs() { node_sizes(i, out); }
}
fn has_unbounded(rel: &Relation) -> bool { rel.size().max().is_none() || rel.size().len() != 1 || rel.inputs().iter().any(|i| has_unbounded(i)) }

/// some CASE of the relation has a condition that can be NULL (SQL then takes the ELSE branch)
fn case_on_nullable(rel: &Relation) -> bool {
    use qrlew::expr::{Expr, function::Function as F};
    fn go(e: &Expr, input: &DataType) -> bool {
        match e {
            Expr::Function(f) => {
                let a = f.arguments();
                if f.function() == F::Case && !a.is_empty() { if let Ok(t) = a[0].super_image(input) { if matches!(t, DataType::Optional(_)) { return true; } } }
                a.iter().any(|x| go(x, input))
            }
            Expr::Aggregate(a) => go(a.argument(), input),
            _ => false,
        }
    }
    crate::ir::all_nodes(rel).iter().any(|n| match n {
        Relation::Map(m) => { let it = m.input().data_type(); m.projection().iter().any(|e| go(e, &it)) || m.filter().as_ref().map(|e| go(e, &it)).unwrap_or(false) }
        _ => false })
}

/// the value is the default of a COALESCE of the query text (COALESCE(x, 1) returned 1)
fn coalesce_default(sql: &str, v: &SV) -> bool {
    let re = regex::Regex::new(r"COALESCE\([^,()]+, (-?[0-9.]+)\)").unwrap();
    let x = match v { SV::Int(i) => *i as f64, SV::Real(f) => *f, _ => return false };
    let hit = re.captures_iter(sql).any(|c| c[1].parse::<f64>().map(|d| d == x).unwrap_or(false));
    hit
}

/// projections of comparisons against the boundary values of the declared types (text and numeric), also under CASE
fn cmp_query(r: &mut Rng) -> (String, Vec<Col>) {
    let (t, cols): (&str, Vec<(&str, Vec<&str>)>) = match r.below(3) {
        0 => ("users", vec![("city", vec!["'Paris'", "'Lyon'", "'Nice'", "'M'"]), ("age", vec!["18", "90", "50"]), ("income", vec!["0", "1000", "3.5"]), ("score", vec!["0", "10"])]),
        1 => ("orders", vec![("status", vec!["'new'", "'paid'", "'sent'", "'o'"]), ("amount", vec!["0", "500", "250.5"]), ("user_id", vec!["0", "50"])]),
        _ => ("items", vec![("qty", vec!["1", "10"]), ("price", vec!["0", "100"]), ("order_id", vec!["0", "200"])]),
    };
    let mut items = vec![]; let mut out = vec![];
    // one query in three projects quotients whose divisor range crosses or touches zero
    if r.chance(1, 3) {
        let nums: Vec<(&str, f64, f64)> = match t { "users" => vec![("age", 18.0, 90.0), ("income", 0.0, 1000.0)], "orders" => vec![("amount", 0.0, 500.0)], _ => vec![("price", 0.0, 100.0)] };
        for i in 0..r.range(1, 3) {
            let (c, lo, hi) = *r.pick(&nums);
            let shift = match r.below(4) { 0 => lo, 1 => hi, _ => ((lo + hi) / 2.0).floor() };
            let num = if r.chance(1, 2) { format!("{}", r.range(1, 100)) } else { format!("t.{}", r.pick(&nums).0) };
            items.push(format!("{} / (t.{} - {}) AS q{}", num, c, shift, i)); out.push(Col { name: format!("q{}", i), num: true });
        }
        return (format!("SELECT {} FROM {} AS t", items.join(", "), t), out);
    }
    for i in 0..r.range(1, 4) {
        let (c, ks) = r.pick(&cols).clone();
        let op = *r.pick(&[">=", "<=", ">", "<", "=", "<>"]);
        let k = *r.pick(&ks);
        let cmp = if r.chance(1, 4) { format!("{} {} t.{}", k, op, c) } else { format!("t.{} {} {}", c, op, k) };
        let e = match r.below(4) { 0 => format!("CASE WHEN {} THEN 1 ELSE 0 END", cmp), 1 => format!("NOT ({})", cmp), _ => cmp };
        items.push(format!("{} AS b{}", e, i)); out.push(Col { name: format!("b{}", i), num: true });
    }
    (format!("SELECT {} FROM {} AS t", items.join(", "), t), out)
}

pub fn run(prop: &str, outdir: &str, seed: u64, thorough: bool) -> serde_json::Value {
    let w = world();
    let mut rng = Rng::new(seed ^ 0xC07);
    let mut st = Stats::default();
    let n = if thorough { 20000 } else { 600 };
    let mut data = gen_data(&mut rng.fork(), &w.specs, 12);
    let mut db = Db::new(&w.specs, &data);
    let mut cases = vec![]; let mut cj = vec![]; let mut flags: Vec<String> = vec![]; let mut boundary: Vec<String> = vec![];
    for i in 0..n {
        let mut r = rng.fork();
        if i % 10 == 9 && !(prop == "C07" && i < 30) { data = gen_data(&mut r, &w.specs, 12); db = Db::new(&w.specs, &data); }
        let depth = r.range(0, 2) as u32;
        // joins whose ON clause is a disjunction or a conjunction around an equality on a unique key
        let on_shapes = ["SELECT u.id AS i, o.id AS j FROM users AS u JOIN orders AS o ON u.id = o.user_id OR u.age >= 18", "SELECT u.id AS i, o.id AS j FROM orders AS o JOIN users AS u ON o.user_id = u.id OR o.amount >= 0",
            "SELECT u.id AS i, o.id AS j FROM users AS u JOIN orders AS o ON u.id = o.user_id AND u.age >= 18", "SELECT u.id AS i, o.id AS j FROM users AS u LEFT JOIN orders AS o ON u.id = o.user_id OR u.age >= 18",
            "SELECT u.id AS i, c.pop AS p FROM users AS u JOIN cities AS c ON u.city = c.city OR u.age >= 18", "SELECT u.id AS i, o.id AS j FROM users AS u JOIN orders AS o ON NOT (u.id <> o.user_id) OR u.age >= 18"];
        // inputs whose declared size is 0 or 1: an aggregation without GROUP BY still returns a row, an outer join
        // still returns the rows of the preserved side
        let size_shapes = ["SELECT COUNT(*) AS i FROM (SELECT t.id AS a FROM users AS t LIMIT 0) AS s", "SELECT COUNT(s.a) AS i, SUM(s.a) AS z FROM (SELECT t.id AS a FROM users AS t ORDER BY t.id LIMIT 5 OFFSET 40) AS s",
            "SELECT s.a AS i, COUNT(*) AS n FROM (SELECT t.id AS a FROM users AS t LIMIT 0) AS s GROUP BY s.a",
            "SELECT u.id AS i, o.q AS j FROM users AS u LEFT JOIN (SELECT t.user_id AS q FROM orders AS t LIMIT 0) AS o ON u.age = o.q", "SELECT u.id AS i, o.q AS j FROM (SELECT t.user_id AS q FROM orders AS t LIMIT 0) AS o RIGHT JOIN users AS u ON u.age = o.q",
            "SELECT u.age AS i, o.q AS j FROM (SELECT x.age AS age FROM users AS x ORDER BY x.age LIMIT 1) AS u FULL JOIN (SELECT t.user_id AS q FROM orders AS t ORDER BY t.user_id LIMIT 1) AS o ON u.age = o.q",
            "SELECT u.age AS i, o.q AS j FROM users AS u FULL JOIN (SELECT t.user_id AS q FROM orders AS t LIMIT 0) AS o ON u.age = o.q", "SELECT u.age AS i, o.q AS j FROM users AS u JOIN (SELECT t.user_id AS q FROM orders AS t LIMIT 0) AS o ON u.age = o.q",
            "SELECT u.age AS i, o.q AS j FROM users AS u LEFT JOIN (SELECT t.user_id AS q FROM orders AS t ORDER BY t.user_id LIMIT 1) AS o ON u.age >= o.q"];
        // every comparison operator at every boundary constant of the two text columns and of two numeric ones, in both
        // operand orders: always run (the random stream above them reaches a given boundary only now and then)
        if boundary.is_empty() {
            for (t, c, ks) in [("users", "city", vec!["'Paris'", "'Lyon'", "'Nice'"]), ("orders", "status", vec!["'new'", "'paid'", "'sent'"]), ("users", "age", vec!["18", "90"]), ("orders", "amount", vec!["0", "500"])] {
                for op in [">=", "<=", ">", "<", "=", "<>"] {
                    let mut items = vec![];
                    for (j, k) in ks.iter().enumerate() {
                        items.push(format!("t.{} {} {} AS b{}", c, op, k, 2 * j)); items.push(format!("{} {} t.{} AS b{}", k, op, c, 2 * j + 1));
                    }
                    boundary.push(format!("SELECT {} FROM {} AS t", items.join(", "), t));
                }
            }
            // aggregates over columns whose declared type is not convex (a 0 / 1 flag, an IN list, two ranges): the result lies between the values
            for q in ["SELECT AVG(t.age) AS i, SUM(t.age) AS s, MIN(t.age) AS lo, MAX(t.age) AS hi FROM users AS t WHERE t.age IN (18, 90, 50)",
                "SELECT t.city AS c, AVG(t.age) AS i FROM users AS t WHERE t.age IN (18, 90) OR t.age > 80 GROUP BY t.city",
                "SELECT AVG(o.amount) AS i, STDDEV(o.amount) AS d, VARIANCE(o.amount) AS v FROM orders AS o WHERE o.amount IN (0, 500, 250.5)",
                "SELECT AVG(CASE WHEN t.age > 30 THEN 1 ELSE 0 END) AS i, SUM(CASE WHEN t.age > 30 THEN 1 ELSE 0 END) AS s FROM users AS t",
                "SELECT o.status AS c, AVG(CASE WHEN o.amount > 100 THEN 10 ELSE 0 END) AS i, COUNT(o.amount) AS n FROM orders AS o GROUP BY o.status",
                "SELECT AVG(DISTINCT t.age) AS i, SUM(DISTINCT t.age) AS s FROM users AS t WHERE t.age IN (18, 90, 50)"] { boundary.push(q.to_string()); }
        }
        if prop == "C07" && i == 0 {
            // the database the boundary queries run on holds every boundary value
            data.get_mut("users").unwrap().retain(|row| !matches!(row[0], SV::Int(48..=50)));
            for (k, (age, city)) in [(18, "Paris"), (90, "Lyon"), (50, "Nice")].iter().enumerate() { data.get_mut("users").unwrap().push(vec![SV::Int(48 + k as i64), SV::Int(*age), SV::Text(city.to_string()), SV::Real(1000.0 - 7.5 * k as f64), SV::Null]); }
            data.get_mut("orders").unwrap().retain(|row| !matches!(row[0], SV::Int(198..=200)));
            for (k, (amount, status)) in [(0.0, "new"), (500.0, "paid"), (250.5, "sent")].iter().enumerate() { data.get_mut("orders").unwrap().push(vec![SV::Int(198 + k as i64), SV::Int(48), SV::Real(*amount), SV::Text(status.to_string())]); }
            db = Db::new(&w.specs, &data);
        }
        let corpus: Vec<(&str, &str)> = crate::c08::templates().into_iter().filter(|(n, _)| !crate::c08::MISTRANSLATED.contains(n) && *n != "group-by-keys-only-with-where-two-keys").collect();
        let in_corpus = prop == "C07" && i >= boundary.len() && i - boundary.len() < corpus.len();
        let (q0, cols) = if prop == "C07" && i < boundary.len() { st.bump("boundary_comparison_queries"); (boundary[i].clone(), vec![Col { name: "b0".into(), num: true }]) }
            // the constructs the tree generator does not produce (the templates of C08), under the same oracle
            else if in_corpus { st.bump("construct_template_queries"); (corpus[i - boundary.len()].1.replace("{k}", &format!("{}", r.range(0, 9))), vec![]) }
            else if prop == "C07" && r.chance(1, 14) { st.bump("degenerate_size_queries"); (r.pick(&size_shapes).to_string(), vec![Col { name: "i".into(), num: true }]) }
            else if prop == "C07" && r.chance(1, 12) { st.bump("join_condition_shape_queries"); (r.pick(&on_shapes).to_string(), vec![Col { name: "i".into(), num: true }]) }
            else if prop == "C07" && r.chance(1, 6) { st.bump("comparison_projection_queries"); cmp_query(&mut r) } else { let mut g = QGen::new(&mut r, &w.specs); g.bool_items = true; g.query(depth) };
        let is_set = q0.contains(" UNION ") || q0.contains(" INTERSECT ") || q0.contains(" EXCEPT ");
        let (sql, _) = if is_set || in_corpus || (prop == "C07" && i < boundary.len()) { (q0.clone(), false) } else { decorate(&mut r, &q0, &cols) };
        let rel = match catch_unwind(AssertUnwindSafe(|| to_relation(&w, &sql))) { Ok(Ok(rel)) => rel, Ok(Err(_)) => { st.bump("query_rejected"); continue; } Err(_) => { st.bump("query_panicked"); continue; } };
        // static correspondence: optional / unique flags of the fields of every join, set operation and aggregation
        if flags.len() < if thorough { 60000 } else { 4000 } { flag_cases(&rel, &mut flags); }
        // static correspondence: the size interval of every node
        if prop == "C07" && !has_unbounded(&rel) {
            let mut sizes = vec![]; node_sizes(&rel, &mut sizes);
            cases.push(format!("({}, {})", skel(&rel), coq_list(&sizes, |s| s.clone())));
            cj.push(json!({"query": sql, "sizes": sizes}));
        }
        let rendered = match catch_unwind(AssertUnwindSafe(|| render(&rel))) { Ok(s) => s, Err(_) => { st.bump("render_panicked"); continue; } };
        // the original query is what a user executes; the rendered one is what qrlew would send
        let (_, rows) = match db.query(&sql) { Ok(x) => x, Err(_) => { st.bump("original_not_executable_on_sqlite"); continue; } };
        let _ = rendered;
        st.evaluations += 1;
        st.distinct.insert(hash_str(&format!("{}{}", sql, i / 10)));
        let schema = rel.schema();
        if prop == "C07" {
            let size = rel.size();
            let nrows = rows.len() as i64;
            if !size.contains(&nrows) {
                let joins: Vec<String> = crate::ir::all_nodes(&rel).iter().filter_map(|n| if let Relation::Join(j) = n { let (l, r) = unique_flags(j); Some(format!("{}{}", j.operator(), if l || r { "+unique" } else { "" })) } else { None }).collect();
                let ungrouped = crate::ir::all_nodes(&rel).iter().any(|n| matches!(n, Relation::Reduce(r) if r.group_by().is_empty()));
                let class = if joins.iter().any(|j| j.contains("+unique") && !j.starts_with("INNER")) { "outer-join-with-unique-key" } else if joins.iter().any(|j| j.contains("+unique")) { "inner-join-with-unique-key" }
                    else if joins.iter().any(|j| !j.starts_with("INNER") && !j.starts_with("CROSS")) { "outer-join-without-unique-key" } else if ungrouped { "aggregation-without-group-by" } else { "other" };
                st.violation(json!({"kind":"row-count-outside-declared-size","class":class,"query":sql,"declared_size":size.to_string(),"rows":nrows,"joins":joins,
                    "tables": data.iter().map(|(k, v)| (k.clone(), v.len())).collect::<std::collections::BTreeMap<_, _>>()}));
            }
            if rows.iter().any(|r| r.len() != schema.len()) { st.violation(json!({"kind":"column-count-differs","query":sql,"schema":schema.to_string()})); continue; }
            let mut reported = false;
            for row in rows.iter().take(60) {
                for (v, f) in row.iter().zip(schema.iter()) {
                    let t = f.data_type();
                    let val = sv_value(v, &t);
                    // (a float computed by SQLite and a bound computed by qrlew may differ in the last place)
                    if !member(&t, &val) && !(matches!(v, SV::Real(_)) && crate::typegen::ulp_close(&t, &val)) && !reported {
                        reported = true;
                        let nullish = matches!(v, SV::Null);
                        // SQLite returns NULL for a division by zero where PostgreSQL raises an error: not a value of the query
                        if nullish && sql.contains(" / (t.") { reported = false; st.bump("sqlite_null_for_division_by_zero_skipped"); continue; }
                        st.violation(json!({"kind": if nullish { "null-in-non-optional-column" } else { "value-outside-declared-type" },"construct": if in_corpus { corpus[i - boundary.len()].0 } else { "generated" },"query":sql,"column":f.name(),"declared_type":t.to_string(),"value":v.json(),
                            "class": if nullish && crate::ir::all_nodes(&rel).iter().any(|n| matches!(n, Relation::Reduce(_))) { "aggregate-over-empty-or-null-input" } else if coalesce_default(&sql, v) && crate::ir::all_nodes(&rel).iter().any(|n| matches!(n, Relation::Reduce(_))) { "coalesce-default-over-aggregate-declared-non-null" } else if case_on_nullable(&rel) { "case-on-nullable-condition" } else if sql.contains(" / (t.") { "quotient-by-range-around-zero" } else { "other" }}));
                    }
                }
            }
            st.add("rows_checked", rows.len().min(60) as u64);
        } else {
            // C14: a column flagged unique has pairwise distinct non-null values
            for (ci, f) in schema.iter().enumerate() {
                if f.has_unique_or_primary_key_constraint() {
                    st.bump("unique_flagged_columns");
                    let mut seen = std::collections::BTreeSet::new();
                    for row in rows.iter() { if row[ci] != SV::Null && !seen.insert(row[ci].canon()) {
                        st.violation(json!({"kind":"duplicate-in-column-declared-unique","query":sql,"column":f.name(),"value":row[ci].json(),"rows":rows.len()}));
                        break; } }
                }
            }
        }
        if i < 2 { st.sample(json!({"query":sql,"schema":schema.to_string(),"size":rel.size().to_string(),"rows":rows.len()})); }
    }
    if prop == "C07" {
        // pinned witness of the known finding C07-join-size-outer-unique: 30 users in one city, 4 cities
        let mut d = Data::new();
        d.insert("users".into(), (0..30).map(|i| vec![SV::Int(i), SV::Int(20), SV::Text("Paris".into()), SV::Real(1.0), SV::Null]).collect());
        d.insert("cities".into(), ["Paris", "Lyon", "Nice", "Lille"].iter().map(|c| vec![SV::Text(c.to_string()), SV::Int(1)]).collect());
        d.insert("orders".into(), vec![]); d.insert("items".into(), vec![]);
        let wdb = Db::new(&w.specs, &d);
        let q = "SELECT c.pop AS p, u.id AS i FROM cities AS c FULL JOIN users AS u ON c.city = u.city";
        if let Ok(rel) = to_relation(&w, q) { if let Ok((_, rows)) = wdb.query(q) {
            st.known.push(json!({"finding":"C07-join-size-outer-unique","reproduced": !rel.size().contains(&(rows.len() as i64)),"query":q,"declared_size":rel.size().to_string(),"rows":rows.len()}));
        } }
    }
    if prop == "C14" { crate::c14::targeted(&mut st, &mut rng, thorough, &mut flags); }
    let header = "From QV Require Import Rel.Size Corr.Lib Corr.C07.";
    let f = if prop == "C07" { write_shards(outdir, "c07_size", header, "c07_case", "size_check", &cases, if thorough { 2000 } else { 200 }) } else { vec![] };
    if prop == "C07" { std::fs::write(format!("{}/c07_size.json", outdir), serde_json::to_string(&cj).unwrap()).unwrap(); }
    // the row-level evaluator of the model against SQLite and against the declared sizes / unique flags
    let ev = crate::evalx::run(&mut st, &mut rng, thorough);
    let fe = write_shards(outdir, "evaluator", "From Coq Require Import List ZArith Bool. Import ListNotations.\nFrom QV Require Import Rel.Cols Corr.Lib Corr.Eval.\nOpen Scope Z_scope.", "eval_case", "eval_check", &ev, 50);
    let mut out = st.to_json("generated queries of the supported fragment executed on SQLite over generated conforming databases (0-12 rows per table, boundary values, NULLs, duplicate and dangling keys, empty tables): every value against the declared column type, the row count against the declared size interval, declared-unique columns against duplicates; distinct by (query, database); plus relational expressions over the integer columns rendered both as SQL (executed on SQLite, compiled by qrlew) and as terms of the model evaluated in Coq (rows, declared size, unique flags)");
    flags.sort(); flags.dedup();
    let ff = write_shards(outdir, "flags", "From QV Require Import Rel.Rows Corr.Lib Corr.Flags.", "flags_case", "flags_check", &flags, 1000);
    out["shards"] = if prop == "C07" { json!({"c07_size": f, "flags": ff, "evaluator": fe}) } else { json!({"flags": ff, "evaluator": fe}) };
    let _ = (SetQuantifier::All, DataType::Null);
    out
}
