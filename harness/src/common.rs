//! Shared helpers: deterministic PRNG, Coq printers, statistics.
use std::collections::BTreeSet;
use std::collections::hash_map::DefaultHasher;
use std::hash::{Hash, Hasher};
use std::fmt::Write as _;

/// splitmix64 / xorshift: every random choice of a run derives from VERIF_SEED.
#[derive(Clone)]
pub struct Rng(pub u64);
impl Rng {
    pub fn new(seed: u64) -> Self {
        Rng(seed.wrapping_mul(0x9E3779B97F4A7C15).wrapping_add(0xD1B54A32D192ED03))
    }
    pub fn next(&mut self) -> u64 {
        self.0 = self.0.wrapping_add(0x9E3779B97F4A7C15);
        let mut z = self.0;
        z = (z ^ (z >> 30)).wrapping_mul(0xBF58476D1CE4E5B9);
        z = (z ^ (z >> 27)).wrapping_mul(0x94D049BB133111EB);
        z ^ (z >> 31)
    }
    pub fn below(&mut self, n: u64) -> u64 {
        if n == 0 { 0 } else { self.next() % n }
    }
    pub fn range(&mut self, lo: i64, hi: i64) -> i64 {
        // inclusive
        let span = (hi as i128 - lo as i128 + 1) as u128;
        (lo as i128 + (self.next() as u128 % span) as i128) as i64
    }
    pub fn chance(&mut self, num: u64, den: u64) -> bool {
        self.below(den) < num
    }
    pub fn pick<'a, T>(&mut self, xs: &'a [T]) -> &'a T {
        &xs[self.below(xs.len() as u64) as usize]
    }
    pub fn fork(&mut self) -> Rng {
        Rng(self.next())
    }
}

pub fn coq_z(z: i128) -> String {
    if z < 0 { format!("({})", z) } else { format!("{}", z) }
}
pub fn coq_list<T, F: Fn(&T) -> String>(xs: &[T], f: F) -> String {
    let mut s = String::from("[");
    for (i, x) in xs.iter().enumerate() {
        if i > 0 { s.push_str("; "); }
        s.push_str(&f(x));
    }
    s.push(']');
    s
}
pub fn coq_opt<T, F: Fn(&T) -> String>(x: &Option<T>, f: F) -> String {
    match x { Some(v) => format!("(Some {})", f(v)), None => "None".to_string() }
}
pub fn coq_bool(b: bool) -> &'static str { if b { "true" } else { "false" } }
pub fn coq_string(s: &str) -> String {
    // Coq string literal: double the quotes; bytes outside printable ASCII are avoided by callers
    let mut o = String::from("\"");
    for c in s.chars() { if c == '"' { o.push_str("\"\""); } else { o.push(c); } }
    o.push('"');
    o
}

/// order embedding of non-NaN f64 into i64 (−0.0 and +0.0 both map to 0, as they compare equal)
pub fn f64_key(x: f64) -> i64 {
    assert!(!x.is_nan());
    let b = x.to_bits() as i64;
    if b >= 0 { b } else { -(b & i64::MAX) }
}
pub fn key_f64(k: i64) -> f64 {
    if k >= 0 { f64::from_bits(k as u64) } else { -f64::from_bits((-k) as u64) }
}

pub fn hash_str(s: &str) -> u64 {
    let mut h = DefaultHasher::new();
    s.hash(&mut h);
    h.finish()
}

/// Statistics written into oracle.json and from there into the evidence file.
#[derive(Default)]
pub struct Stats {
    pub evaluations: u64,
    pub distinct: BTreeSet<u64>,
    pub samples: Vec<serde_json::Value>,
    pub dist: std::collections::BTreeMap<String, u64>,
    pub violations: Vec<serde_json::Value>,
    pub known: Vec<serde_json::Value>,
    pub notes: Vec<String>,
}
impl Stats {
    pub fn case(&mut self, canonical: &str, nontrivial: bool) {
        self.evaluations += 1;
        if nontrivial { self.distinct.insert(hash_str(canonical)); }
    }
    pub fn bump(&mut self, key: &str) { *self.dist.entry(key.to_string()).or_insert(0) += 1; }
    pub fn add(&mut self, key: &str, n: u64) { *self.dist.entry(key.to_string()).or_insert(0) += n; }
    pub fn sample(&mut self, v: serde_json::Value) { if self.samples.len() < 5 { self.samples.push(v); } }
    pub fn violation(&mut self, v: serde_json::Value) { if self.violations.len() < 400 { self.violations.push(v); } else { self.bump("violations_dropped"); } }
    pub fn to_json(&self, rule: &str) -> serde_json::Value {
        serde_json::json!({
            "evaluations": self.evaluations,
            "distinct_nontrivial": self.distinct.len(),
            "rule": rule,
            "samples": self.samples,
            "distribution": self.dist,
            "violations": self.violations,
            "known": self.known,
            "notes": self.notes,
        })
    }
}

pub struct CaseFile {
    pub header: String,
    pub body: Vec<String>,
}
/// Write sharded Coq case files: each shard defines `cases` and evaluates `checker cases`.
pub fn write_shards(dir: &str, stem: &str, header: &str, ty: &str, checker: &str, cases: &[String], per: usize) -> Vec<String> {
    let mut files = vec![];
    let mut k = 0;
    let mut base = 0usize;
    for chunk in cases.chunks(per.max(1)) {
        let name = format!("{}_{}", stem, k);
        let mut s = String::new();
        writeln!(s, "{}", header).unwrap();
        writeln!(s, "Definition cases : list ({}) := [", ty).unwrap();
        for (i, c) in chunk.iter().enumerate() {
            if i > 0 { s.push_str(";\n"); }
            s.push_str(c);
        }
        writeln!(s, "\n].").unwrap();
        writeln!(s, "Definition base : N := {}%N.", base).unwrap();
        writeln!(s, "Eval vm_compute in (QVRESULT, map (fun i => (base + i)%N) ({} cases)).", checker).unwrap();
        std::fs::write(format!("{}/{}.v", dir, name), s).unwrap();
        files.push(name);
        k += 1;
        base += chunk.len();
    }
    files
}

pub fn panic_msg(e: Box<dyn std::any::Any + Send>) -> String {
    if let Some(s) = e.downcast_ref::<&str>() { s.to_string() }
    else if let Some(s) = e.downcast_ref::<String>() { s.clone() }
    else { "panic".to_string() }
}
