//! Shared helpers: deterministic PRNG, Coq printers, statistics.
use std::collections::BTreeSet;
use std::collections::hash_map::DefaultHasher;
use std::hash::{Hash, Hasher};
use std::fmt::Write as _;

/// splitmix64 / xorshift: every random choice of a run derives from VERIF_SEED.
#[derive(Clone)]
pub struct Rng(pub u64);
impl Rng {
    pub fn new(seed: u64) -> Self {
        // the seed goes through the finaliser, so that nearby seeds give unrelated streams
        let mut z = seed.wrapping_add(0xD1B54A32D192ED03);
        z = (z ^ (z >> 30)).wrapping_mul(0xBF58476D1CE4E5B9);
        z = (z ^ (z >> 27)).wrapping_mul(0x94D049BB133111EB);
        Rng(z ^ (z >> 31))
    }
    pub fn next(&mut self) -> u64 {
        self.0 = self.0.wrapping_add(0x9E3779B97F4A7C15);
        let mut z = self.0;
        z = (z ^ (z >> 30)).wrapping_mul(0xBF58476D1CE4E5B9);
        z = (z ^ (z >> 27)).wrapping_mul(0x94D049BB133111EB);
        z ^ (z >> 31)
    }
    pub fn below(&mut self, n: u64) -> u64 {
        if n == 0 { 0 } else { self.next() % n }
    }
    pub fn range(&mut self, lo: i64, hi: i64) -> i64 {
        // inclusive
        let span = (hi as i128 - lo as i128 + 1) as u128;
        (lo as i128 + (self.next() as u128 % span) as i128) as i64
    }
    pub fn chance(&mut self, num: u64, den: u64) -> bool {
        self.below(den) < num
    }
    pub fn pick<'a, T>(&mut self, xs: &'a [T]) -> &'a T {
        &xs[self.below(xs.len() as u64) as usize]
    }
    pub fn fork(&mut self) -> Rng {
        Rng::new(self.next())
    }
}

pub fn coq_z(z: i128) -> String {
    if z < 0 { format!("({})", z) } else { format!("{}", z) }
}
pub fn coq_list<T, F: Fn(&T) -> String>(xs: &[T], f: F) -> String {
    let mut s = String::from("[");
    for (i, x) in xs.iter().enumerate() {
        if i > 0 { s.push_str("; "); }
        s.push_str(&f(x));
    }
    s.push(']');
    s
}
pub fn coq_opt<T, F: Fn(&T) -> String>(x: &Option<T>, f: F) -> String {
    match x { Some(v) => format!("(Some {})", f(v)), None => "None".to_string() }
}
pub fn coq_bool(b: bool) -> &'static str { if b { "true" } else { "false" } }
pub fn coq_string(s: &str) -> String {
    // Coq string literal: double the quotes; bytes outside printable ASCII are avoided by callers
    let mut o = String::from("\"");
    for c in s.chars() { if c == '"' { o.push_str("\"\""); } else { o.push(c); } }
    o.push('"');
    o
}

/// order embedding of non-NaN f64 into i64 (−0.0 and +0.0 both map to 0, as they compare equal)
pub fn f64_key(x: f64) -> i64 {
    assert!(!x.is_nan());
    let b = x.to_bits() as i64;
    if b >= 0 { b } else { -(b & i64::MAX) }
}
pub fn key_f64(k: i64) -> f64 {
    if k >= 0 { f64::from_bits(k as u64) } else { -f64::from_bits((-k) as u64) }
}

pub fn hash_str(s: &str) -> u64 {
    let mut h = DefaultHasher::new();
    s.hash(&mut h);
    h.finish()
}

/// Statistics written into oracle.json and from there into the evidence file.
#[derive(Default)]
pub struct Stats {
    pub evaluations: u64,
    pub distinct: BTreeSet<u64>,
    pub samples: Vec<serde_json::Value>,
    pub dist: std::collections::BTreeMap<String, u64>,
    pub violations: Vec<serde_json::Value>,
    pub known: Vec<serde_json::Value>,
    pub notes: Vec<String>,
    pub per_key: std::collections::BTreeMap<String, u64>,
}
impl Stats {
    pub fn case(&mut self, canonical: &str, nontrivial: bool) {
        self.evaluations += 1;
        if nontrivial { self.distinct.insert(hash_str(canonical)); }
    }
    pub fn bump(&mut self, key: &str) { *self.dist.entry(key.to_string()).or_insert(0) += 1; }
    pub fn add(&mut self, key: &str, n: u64) { *self.dist.entry(key.to_string()).or_insert(0) += n; }
    pub fn sample(&mut self, v: serde_json::Value) { if self.samples.len() < 5 { self.samples.push(v); } }
    /// violations recorded or dropped so far
    pub fn violations_seen(&self) -> u64 { self.violations.len() as u64 + self.dist.get("violations_dropped").cloned().unwrap_or(0) + self.dist.get("violations_repeated_not_listed").cloned().unwrap_or(0) }
    /// at most 12 violations are kept per (kind, class, dialect, construct, function) so that a frequent class
    /// does not crowd the others out of the report
    pub fn violation(&mut self, v: serde_json::Value) {
        let key = ["kind", "class", "dialect", "construct", "function", "entry"].iter().map(|k| v.get(*k).map(|x| x.to_string()).unwrap_or_default()).collect::<Vec<_>>().join("|");
        let n = self.per_key.entry(key).or_insert(0); *n += 1;
        if *n > 12 { self.bump("violations_repeated_not_listed"); return; }
        if self.violations.len() < 400 { self.violations.push(v); } else { self.bump("violations_dropped"); }
    }
    pub fn to_json(&self, rule: &str) -> serde_json::Value {
        serde_json::json!({
            "evaluations": self.evaluations,
            "distinct_nontrivial": self.distinct.len(),
            "rule": rule,
            "samples": self.samples,
            "distribution": self.dist,
            "violations": self.violations,
            "known": self.known,
            "notes": self.notes,
        })
    }
}

pub struct CaseFile {
    pub header: String,
    pub body: Vec<String>,
}
/// Write sharded Coq case files: each shard defines `cases` and evaluates `checker cases`.
pub fn write_shards(dir: &str, stem: &str, header: &str, ty: &str, checker: &str, cases: &[String], per: usize) -> Vec<String> {
    let mut files = vec![];
    let mut k = 0;
    let mut base = 0usize;
    for chunk in cases.chunks(per.max(1)) {
        let name = format!("{}_{}", stem, k);
        let mut s = String::new();
        writeln!(s, "{}", header).unwrap();
        writeln!(s, "Definition cases : list ({}) := [", ty).unwrap();
        for (i, c) in chunk.iter().enumerate() {
            if i > 0 { s.push_str(";\n"); }
            s.push_str(c);
        }
        writeln!(s, "\n].").unwrap();
        writeln!(s, "Definition base : N := {}%N.", base).unwrap();
        writeln!(s, "Eval vm_compute in (QVRESULT, map (fun i => (base + i)%N) ({} cases)).", checker).unwrap();
        std::fs::write(format!("{}/{}.v", dir, name), s).unwrap();
        files.push(name);
        k += 1;
        base += chunk.len();
    }
    files
}

pub fn panic_msg(e: Box<dyn std::any::Any + Send>) -> String {
    if let Some(s) = e.downcast_ref::<&str>() { s.to_string() }
    else if let Some(s) = e.downcast_ref::<String>() { s.clone() }
    else { "panic".to_string() }
}

/// Run a property's stream in child processes (address-space limit, watchdog): a hang, an abort or an
/// out-of-memory kill of the implementation is an outcome, not the end of the check.
pub fn run_batches(prop: &str, outdir: &str, seed: u64, thorough: bool, nbatches: usize, timeout_s: u64, rule: &str) -> serde_json::Value {
    use std::process::Command;
    use std::time::{Duration, Instant};
    let exe = std::env::current_exe().unwrap();
    let mut children = vec![];
    let par = 12usize;
    let mut merged = Stats::default();
    let mut shards: std::collections::BTreeMap<String, Vec<String>> = Default::default();
    let mut next = 0usize;
    let mut done = 0usize;
    while done < nbatches {
        while children.len() < par && next < nbatches {
            let dir = format!("{}/batch_{}", outdir, next);
            std::fs::create_dir_all(&dir).unwrap();
            let cmd = format!("ulimit -v 8000000; exec '{}' '{}@{}' '{}' --seed {} --tier {}", exe.display(), prop, next, dir, seed, if thorough { "thorough" } else { "quick" });
            let child = Command::new("sh").arg("-c").arg(cmd).stdout(std::process::Stdio::null()).stderr(std::process::Stdio::null()).spawn().unwrap();
            children.push((next, child, Instant::now(), dir));
            next += 1;
        }
        let mut i = 0;
        while i < children.len() {
            let finished = match children[i].1.try_wait() { Ok(Some(st)) => Some(st.success()), Ok(None) => None, Err(_) => Some(false) };
            let timed_out = children[i].2.elapsed() > Duration::from_secs(timeout_s);
            if finished.is_some() || timed_out {
                let (k, mut child, _, dir) = children.remove(i);
                if timed_out && finished.is_none() { let _ = child.kill(); let _ = child.wait(); }
                done += 1;
                let ok = finished == Some(true);
                match std::fs::read_to_string(format!("{}/oracle.json", dir)).ok().and_then(|t| serde_json::from_str::<serde_json::Value>(&t).ok()) {
                    Some(o) if ok => {
                        merged.evaluations += o["evaluations"].as_u64().unwrap_or(0);
                        if let Some(h) = o["distinct_hashes"].as_array() { for x in h { if let Some(v) = x.as_u64() { merged.distinct.insert(v); } } }
                        if let Some(a) = o["samples"].as_array() { for x in a { merged.sample(x.clone()); } }
                        if let Some(a) = o["violations"].as_array() { for x in a { merged.violation(x.clone()); } }
                        if let Some(a) = o["known"].as_array() { for x in a { merged.known.push(x.clone()); } }
                        if let Some(a) = o["notes"].as_array() { for x in a { if merged.notes.len() < 8 { merged.notes.push(x.as_str().unwrap_or("").to_string()); } } }
                        if let Some(d) = o["distribution"].as_object() { for (kk, v) in d { merged.add(kk, v.as_u64().unwrap_or(0)); } }
                        if let Some(sh) = o["shards"].as_object() { for (stem, files) in sh { for f in files.as_array().unwrap_or(&vec![]) {
                            // move the shard next to the others under a batch-unique name
                            let name = f.as_str().unwrap_or("");
                            let newname = format!("{}_{}", stem, 1000 * k + shards.get(stem).map(|v| v.len()).unwrap_or(0));
                            let _ = std::fs::rename(format!("{}/{}.v", dir, name), format!("{}/{}.v", outdir, newname));
                            shards.entry(stem.clone()).or_default().push(newname);
                        } } }
                        if let Some(j) = o["case_json"].as_object() { for (stem, arr) in j {
                            let path = format!("{}/{}.jsonl", outdir, stem);
                            let mut f = std::fs::OpenOptions::new().create(true).append(true).open(path).unwrap();
                            use std::io::Write as _;
                            for x in arr.as_array().unwrap_or(&vec![]) { writeln!(f, "{}", x).unwrap(); }
                        } }
                    }
                    _ => {
                        let last = std::fs::read_to_string(format!("{}/progress.txt", dir)).unwrap_or_default();
                        merged.bump(if timed_out { "batch_timed_out" } else { "batch_aborted" });
                        merged.violation(serde_json::json!({"kind": if timed_out { "did-not-terminate" } else { "process-aborted" }, "batch": k, "last_case": last.trim()}));
                    }
                }
            } else { i += 1; }
        }
        std::thread::sleep(Duration::from_millis(50));
    }
    let mut out = merged.to_json(rule);
    out["shards"] = serde_json::json!(shards);
    out
}

pub fn progress(outdir: &str, what: &str) { let _ = std::fs::write(format!("{}/progress.txt", outdir), what); }

impl Stats {
    /// what a batch child writes for the parent to merge
    pub fn to_child_json(&self, rule: &str) -> serde_json::Value {
        let mut o = self.to_json(rule);
        o["distinct_hashes"] = serde_json::json!(self.distinct.iter().cloned().collect::<Vec<u64>>());
        o
    }
}

/// the message and location of the last panic (recorded by the hook installed in main)
pub static LAST_PANIC: std::sync::Mutex<String> = std::sync::Mutex::new(String::new());
pub fn last_panic() -> String { LAST_PANIC.lock().map(|s| s.clone()).unwrap_or_default() }
pub fn install_panic_recorder() {
    std::panic::set_hook(Box::new(|info| {
        let msg = if let Some(s) = info.payload().downcast_ref::<&str>() { s.to_string() } else if let Some(s) = info.payload().downcast_ref::<String>() { s.clone() } else { "panic".to_string() };
        let loc = info.location().map(|l| format!("{}:{}", l.file().rsplit("/repo/").next().unwrap_or(l.file()), l.line())).unwrap_or_default();
        // the innermost function of the crate on the stack: a key that survives line shifts
        let bt = std::backtrace::Backtrace::force_capture().to_string();
        // the three innermost functions of the crate on the stack (generic arguments below the first level dropped)
        let clean = |func: &str| -> String {
            let keep = 1;
            let mut f2 = String::new(); let mut depth = 0;
            for ch in func.chars() { match ch { '<' => { depth += 1; if depth <= keep { f2.push(ch); } } '>' => { if depth <= keep && depth > 0 { f2.push(ch); } if depth > 0 { depth -= 1; } } _ => if depth <= keep { f2.push(ch); } } }
            let mut f2 = f2.replace("::{{closure}}", "");
            for k in 0..6 { f2 = f2.replace(&format!("::{{closure#{}}}", k), ""); }
            f2
        };
        let mut path: Vec<String> = vec![];
        for l in bt.lines() {
            let l = l.trim();
            if let Some(pos) = l.find(": ") { let sym = &l[pos + 2..];
                if sym.contains("qrlew::") && !sym.starts_with("qvh::") { let c = clean(sym); if path.last() != Some(&c) { path.push(c); } if path.len() >= 3 { break; } } }
        }
        let f2 = path.join(" < ");
        if let Ok(mut g) = LAST_PANIC.lock() { *g = format!("{} @ {} @ {}", msg.chars().take(160).collect::<String>(), loc, f2); }
    }));
}

/// the key of a panic in the known-findings file: the start of the message (numbers dropped) and the
/// innermost function of the crate on the stack
pub fn panic_site(msg: &str) -> String {
    let m = msg.split(" @ ").collect::<Vec<_>>();
    if m.len() == 3 { let head: String = m[0].chars().take(48).collect(); let head = head.split(|c: char| c.is_ascii_digit()).next().unwrap_or("").trim().to_string();
        format!("{} @ {}", head, if m[2].is_empty() { m[1].split(':').next().unwrap_or("") } else { m[2] }) } else { msg.chars().take(60).collect() }
}
