//! Reading the rewritten IR: noise sites (sigma, clipping bound), tau-thresholding sites.
use qrlew::{
    expr::{function::Function, Expr},
    relation::{Relation, Variant as _},
    data_type::value::Value,
};
use std::collections::BTreeSet;

pub fn value_f64(e: &Expr) -> Option<f64> {
    match e {
        Expr::Value(Value::Float(f)) => Some(**f),
        Expr::Value(Value::Integer(i)) => Some(**i as f64),
        _ => None,
    }
}
pub fn contains_random(e: &Expr) -> bool {
    match e {
        Expr::Function(f) => matches!(f.function(), Function::Random(_)) || f.arguments().iter().any(contains_random),
        Expr::Aggregate(a) => contains_random(a.argument()),
        _ => false,
    }
}
/// sigma of `x + sigma * gaussian_noise()` anywhere inside e
pub fn sigma_of(e: &Expr) -> Option<f64> {
    if let Expr::Function(f) = e {
        let args = f.arguments();
        if f.function() == Function::Multiply && args.len() == 2 {
            if let (Some(s), true) = (value_f64(&args[0]), contains_random(&args[1])) { return Some(s); }
            if let (Some(s), true) = (value_f64(&args[1]), contains_random(&args[0])) { return Some(s); }
        }
        return args.iter().find_map(sigma_of);
    }
    None
}
/// C of `1 / greatest(1, norm / C)` (every division is wrapped by Expr::divide in a CASE guarding a zero denominator)
pub fn clip_of(e: &Expr) -> Option<f64> {
    fn first_div_by_value(e: &Expr) -> Option<f64> {
        if let Expr::Function(h) = e {
            let c = h.arguments();
            if h.function() == Function::Divide && c.len() == 2 { if let Some(v) = value_f64(&c[1]) { return Some(v); } }
            return c.iter().find_map(first_div_by_value);
        }
        None
    }
    if let Expr::Function(f) = e {
        let a = f.arguments();
        if f.function() == Function::Greatest && a.len() == 2 {
            if value_f64(&a[0]) == Some(1.0) { if let Some(c) = first_div_by_value(&a[1]) { return Some(c); } }
            if value_f64(&a[1]) == Some(1.0) { if let Some(c) = first_div_by_value(&a[0]) { return Some(c); } }
        }
        return a.iter().find_map(clip_of);
    }
    None
}
fn column_name(e: &Expr) -> Option<String> {
    match e { Expr::Column(c) => c.last().ok().map(|s| s.to_string()), _ => None }
}

pub fn nodes<'a>(rel: &'a Relation, out: &mut Vec<&'a Relation>, seen: &mut BTreeSet<String>) {
    if !seen.insert(rel.name().to_string()) { return; }
    out.push(rel);
    for i in rel.inputs() { nodes(i, out, seen); }
}
pub fn all_nodes(rel: &Relation) -> Vec<&Relation> { let mut v = vec![]; nodes(rel, &mut v, &mut BTreeSet::new()); v }

#[derive(Debug, Clone)]
pub struct NoiseSite { pub map: String, pub column: String, pub sigma: f64, pub clip: Option<f64>, pub clipped_input: Option<String>, pub expr: String }

/// search below `rel` for the scale-factor map field named `col`
fn find_clip(rel: &Relation, col: &str) -> Option<f64> {
    for n in all_nodes(rel) {
        if let Relation::Map(m) = n {
            for (f, e) in m.schema().iter().zip(m.projection().iter()) {
                if f.name() == col { if let Some(c) = clip_of(e) { return Some(c); } }
            }
        }
    }
    None
}

pub fn noise_sites(rel: &Relation) -> Vec<NoiseSite> {
    let mut out = vec![];
    for n in all_nodes(rel) {
        if let Relation::Map(m) = n {
            for (f, e) in m.schema().iter().zip(m.projection().iter()) {
                if let Some(s) = sigma_of(e) {
                    // the sum this noise is added to: the input reduce's aggregate named f
                    let mut clip = None; let mut src = None;
                    if let Relation::Reduce(r) = m.input() {
                        for (rf, agg) in r.schema().iter().zip(r.aggregate().iter()) {
                            if rf.name() == f.name() {
                                if let Ok(c) = agg.column().last() {
                                    // chase the summed column through renaming maps down to _CLIPPED_<x>
                                    let mut c = c.to_string();
                                    let mut cur: &Relation = r.input();
                                    for _ in 0..4 {
                                        if c.starts_with("_CLIPPED_") { break; }
                                        if let Relation::Map(mm) = cur {
                                            let mut next = None;
                                            for (ff, ee) in mm.schema().iter().zip(mm.projection().iter()) { if ff.name() == c { next = column_name(ee); } }
                                            match next { Some(nn) => { c = nn; cur = mm.input(); } None => break }
                                        } else { break; }
                                    }
                                    if let Some(x) = c.strip_prefix("_CLIPPED_") { src = Some(x.to_string()); clip = find_clip(m.input(), x); }
                                }
                            }
                        }
                    }
                    out.push(NoiseSite { map: m.name().to_string(), column: f.name().to_string(), sigma: s, clip, clipped_input: src, expr: e.to_string() });
                }
            }
        }
    }
    out
}

#[derive(Debug, Clone)]
pub struct TauSite { pub map: String, pub tau: f64, pub sigma: Option<f64> }

fn tau_of(e: &Expr) -> Option<f64> {
    if let Expr::Function(f) = e {
        let a = f.arguments();
        if f.function() == Function::Gt && a.len() == 2 && column_name(&a[0]).as_deref() == Some("_COUNT_DISTINCT_PID_") { return value_f64(&a[1]); }
        return a.iter().find_map(tau_of);
    }
    None
}
pub fn tau_sites(rel: &Relation) -> Vec<TauSite> {
    let mut out = vec![];
    for n in all_nodes(rel) {
        if let Relation::Map(m) = n {
            if let Some(t) = m.filter().as_ref().and_then(tau_of) {
                let sigma = noise_sites(m.input()).into_iter().find(|s| s.column == "_COUNT_DISTINCT_PID_").map(|s| s.sigma);
                out.push(TauSite { map: m.name().to_string(), tau: t, sigma });
            }
        }
    }
    out
}

/// flatten a DpEvent into its leaves
pub fn event_leaves(e: &qrlew::differential_privacy::DpEvent, out: &mut Vec<(String, f64, f64)>) {
    use qrlew::differential_privacy::DpEvent as E;
    match e {
        E::NoOp => {}
        E::Gaussian { noise_multiplier } => out.push(("gaussian".into(), *noise_multiplier, 0.0)),
        E::Laplace { noise_multiplier } => out.push(("laplace".into(), *noise_multiplier, 0.0)),
        E::EpsilonDelta { epsilon, delta } => out.push(("epsilon_delta".into(), *epsilon, *delta)),
        E::Composed { events } => for x in events { event_leaves(x, out); },
        _ => out.push(("other".into(), 0.0, 0.0)),
    }
}

/// the grouping columns of the sum a noise site perturbs, named as in the relation holding the
/// _CLIPPED_ columns (the group-by of the Reduce below the noise map, chased through renaming maps)
pub fn site_group_keys(rel: &Relation, site: &NoiseSite) -> Option<Vec<String>> {
    for n in all_nodes(rel) {
        if let Relation::Map(m) = n {
            if m.name() != site.map { continue; }
            if let Relation::Reduce(r) = m.input() {
                let mut keys = vec![];
                for g in r.group_by().iter() {
                    let mut c = g.last().ok()?.to_string();
                    let mut cur: &Relation = r.input();
                    for _ in 0..4 {
                        if let Relation::Map(mm) = cur {
                            if mm.schema().iter().any(|f| f.name().starts_with("_CLIPPED_")) { break; }
                            let mut next = None;
                            for (ff, ee) in mm.schema().iter().zip(mm.projection().iter()) { if ff.name() == c { next = column_name(ee); } }
                            match next { Some(nn) => { c = nn; cur = mm.input(); } None => return None }
                        } else { return None; }
                    }
                    keys.push(c);
                }
                return Some(keys);
            }
        }
    }
    None
}

/// Column lineage for C02: follow where the values of an output column come from.  The walk stops at a
/// mechanism (a noise-adding projection, or a Map filtered by the tau threshold: its rows are released keys),
/// at VALUES and at unprotected or synthetic tables.  It returns the chain of relation names down to a protected
/// table when a column of that table reaches the output through projections, aggregations, joins and set
/// operations only.
pub fn unmechanised_lineage(rel: &Relation, col: usize, protected: &dyn Fn(&str) -> bool, depth: usize) -> Option<Vec<String>> {
    fn cols_of(e: &Expr, out: &mut Vec<String>) {
        match e {
            Expr::Column(c) => { if let Ok(n) = c.last() { out.push(n.to_string()); } }
            Expr::Function(f) => { for a in f.arguments().iter() { cols_of(&a, out); } }
            Expr::Aggregate(a) => cols_of(a.argument(), out),
            _ => {}
        }
    }
    if depth > 200 { return None; }
    let with = |mut p: Vec<String>| { p.insert(0, rel.name().to_string()); p };
    match rel {
        // a table is what its path reads, whatever it is called
        Relation::Table(t) => if protected(t.name()) || t.path().iter().any(|p| protected(p)) { Some(vec![format!("{}.{}", t.name(), t.schema().iter().nth(col).map(|f| f.name().to_string()).unwrap_or_default())]) } else { None },
        Relation::Values(_) => None,
        Relation::Map(m) => {
            if m.filter().as_ref().and_then(tau_of).is_some() { return None; }
            let e = m.projection().iter().nth(col)?;
            if sigma_of(e).is_some() || contains_random(e) { return None; }
            let mut cs = vec![]; cols_of(e, &mut cs);
            for c in cs { if let Some(i) = m.input().schema().iter().position(|f| f.name() == c) { if let Some(p) = unmechanised_lineage(m.input(), i, protected, depth + 1) { return Some(with(p)); } } }
            None
        }
        Relation::Reduce(r) => {
            let a = r.aggregate().iter().nth(col)?;
            let c = a.column().last().ok()?.to_string();
            let i = r.input().schema().iter().position(|f| f.name() == c)?;
            unmechanised_lineage(r.input(), i, protected, depth + 1).map(with)
        }
        Relation::Join(j) => {
            let nl = j.left().schema().len();
            if col < nl { unmechanised_lineage(j.left(), col, protected, depth + 1).map(with) } else { unmechanised_lineage(j.right(), col - nl, protected, depth + 1).map(with) }
        }
        Relation::Set(s) => unmechanised_lineage(s.left(), col, protected, depth + 1).or_else(|| unmechanised_lineage(s.right(), col, protected, depth + 1)).map(with),
    }
}
