//! C08: SQL -> Relation -> SQL preserves results (SQLite differential) + quoting correspondence.
use crate::common::*;
use crate::sqlite::*;
use crate::world::*;
use qrlew::{ast, relation::{Relation, Variant as _}};
use serde_json::json;
use std::panic::{catch_unwind, AssertUnwindSafe};

pub fn render(rel: &Relation) -> String { ast::Query::from(rel).to_string() }

/// wrap a generated query with ORDER BY / LIMIT / OFFSET on its output columns (total order)
pub fn decorate(r: &mut Rng, q: &str, cols: &[Col]) -> (String, bool) {
    if r.chance(1, 3) {
        let mut keys: Vec<String> = cols.iter().map(|c| if r.chance(1, 4) { format!("{} DESC", c.name) } else { c.name.clone() }).collect();
        if r.chance(1, 2) { keys.rotate_left(1); }
        let lim = if r.chance(1, 2) { format!(" LIMIT {}{}", r.range(0, 12), if r.chance(1, 3) { format!(" OFFSET {}", r.range(0, 4)) } else { String::new() }) } else { String::new() };
        (format!("{} ORDER BY {}{}", q, keys.join(", "), lim), true)
    } else { (q.to_string(), false) }
}

/// constructs the tree generator does not produce: (name, query with a random parameter {k}); also run by C07, C16 and C17
pub fn templates() -> Vec<(&'static str, &'static str)> {
    vec![
        ("comma-join", "SELECT u.age AS a, o.amount AS b FROM users AS u, orders AS o WHERE u.id = o.user_id"),
        ("set-op-order-limit", "SELECT t.age AS x FROM users AS t UNION SELECT o.user_id AS x FROM orders AS o ORDER BY x LIMIT {k}"),
        ("set-op-order", "SELECT t.age AS x FROM users AS t UNION ALL SELECT o.user_id AS x FROM orders AS o ORDER BY x DESC"),
        ("group-by-ordinal", "SELECT t.city AS c, COUNT(*) AS n FROM users AS t GROUP BY 1"),
        ("order-by-aggregate", "SELECT t.city AS c, SUM(t.age) AS s FROM users AS t GROUP BY t.city ORDER BY SUM(t.age), t.city"),
        ("order-by-alias", "SELECT t.city AS c, SUM(t.age) AS s FROM users AS t GROUP BY t.city ORDER BY s, c"),
        ("having", "SELECT t.status AS s, COUNT(*) AS n FROM orders AS t GROUP BY t.status HAVING COUNT(*) > {k}"),
        ("having-sum", "SELECT t.user_id AS u, SUM(t.amount) AS s FROM orders AS t GROUP BY t.user_id HAVING SUM(t.amount) > {k}0"),
        ("distinct", "SELECT DISTINCT t.city AS c, t.age AS a FROM users AS t"),
        ("min-of-text-column", "SELECT MIN(t.status) AS lo, MAX(t.status) AS hi FROM orders AS t"),
        // DISTINCT above an aggregation whose key is not selected: groups with equal aggregates collapse
        ("distinct-over-grouped-aggregates", "SELECT DISTINCT COUNT(*) AS n FROM orders AS t GROUP BY t.user_id"),
        ("distinct-over-grouped-aggregates-two", "SELECT DISTINCT COUNT(t.id) AS n, MAX(t.amount) AS s FROM orders AS t WHERE t.amount > {k} GROUP BY t.user_id"),
        ("distinct-one", "SELECT DISTINCT t.status AS s FROM orders AS t WHERE t.amount > {k}"),
        ("cte", "WITH w AS (SELECT t.id AS i, t.age AS a FROM users AS t WHERE t.age > {k}0) SELECT w.a AS a, o.amount AS m FROM w JOIN orders AS o ON w.i = o.user_id"),
        ("cte-two", "WITH w AS (SELECT t.user_id AS u, SUM(t.amount) AS s FROM orders AS t GROUP BY t.user_id), v AS (SELECT w.u AS u FROM w WHERE w.s > {k}0) SELECT u.age AS a FROM users AS u JOIN v ON u.id = v.u"),
        // the same CTE name at two nesting levels: the inner declaration hides the outer one
        ("cte-shadow", "WITH v AS (SELECT t.age AS a FROM users AS t) SELECT s.a AS a FROM (WITH v AS (SELECT o.user_id AS a FROM orders AS o WHERE o.amount > {k}) SELECT v.a AS a FROM v) AS s"),
        ("cte-shadow-join", "WITH v AS (SELECT t.id AS i, t.age AS a FROM users AS t) SELECT s.a AS a, v.a AS b FROM (WITH v AS (SELECT o.user_id AS a FROM orders AS o) SELECT v.a AS a FROM v) AS s JOIN v ON s.a = v.i"),
        ("cte-shadow-in-cte", "WITH v AS (SELECT t.age AS a FROM users AS t), w AS (WITH v AS (SELECT o.user_id AS a FROM orders AS o) SELECT v.a AS a FROM v) SELECT w.a AS a FROM w"),
        ("join-on-or", "SELECT u.id AS i, o.id AS j FROM users AS u JOIN orders AS o ON u.id = o.user_id OR u.age > {k}0"),
        // constant select items around aggregates, with and without GROUP BY (the position of every item is part of the result)
        ("constant-before-aggregate", "SELECT {k} AS one, COUNT(t.age) AS n FROM users AS t"),
        ("constants-around-aggregates", "SELECT 'x' AS label, SUM(t.age) AS s, {k} AS two, MAX(t.income) AS m, 'y' AS tail FROM users AS t"),
        ("aggregate-then-constant", "SELECT COUNT(t.age) AS n, {k} AS one FROM users AS t WHERE t.age > 2{k}"),
        ("constant-before-aggregate-grouped", "SELECT {k} AS one, COUNT(t.age) AS n, t.city AS c FROM users AS t GROUP BY t.city"),
        ("constant-expression-before-aggregate", "SELECT {k} + 1 AS one, AVG(t.amount) AS a, 2 * {k} AS two FROM orders AS t"),
        // IS NULL over a conjunction / disjunction / negation (it binds tighter than AND, OR and NOT)
        ("is-null-of-disjunction", "SELECT (t.age > 3{k} OR t.score > 2) IS NULL AS b, t.id AS i FROM users AS t"),
        ("is-null-of-conjunction", "SELECT (t.score > {k} AND t.score < 8) IS NULL AS b, t.id AS i FROM users AS t"),
        ("is-null-of-negation", "SELECT (NOT (t.score > {k})) IS NULL AS b, t.id AS i FROM users AS t WHERE (t.age > 30 OR t.score > 5) IS NULL OR t.age > 2{k}"),
        // IN and LIKE over a disjunction (they bind tighter than OR)
        ("in-list-of-disjunction", "SELECT (t.age > 3{k} OR t.id > 2{k}) IN (FALSE) AS b, t.id AS i FROM users AS t"),
        ("like-of-disjunction", "SELECT (t.city = 'Paris' OR t.age > 3{k}) LIKE '0' AS b, t.id AS i FROM users AS t"),
        // DISTINCT aggregates over values that repeat inside a group
        ("distinct-aggregates-over-repeated-values", "SELECT t.city AS c, AVG(DISTINCT CASE WHEN t.age > 4{k} THEN 1 ELSE 0 END) AS m, AVG(CASE WHEN t.age > 4{k} THEN 1 ELSE 0 END) AS n, SUM(DISTINCT CASE WHEN t.age > 4{k} THEN 2 ELSE 1 END) AS s, COUNT(DISTINCT t.city) AS k FROM users AS t GROUP BY t.city"),
        ("distinct-aggregates-ungrouped", "SELECT AVG(DISTINCT CASE WHEN o.amount > {k}0 THEN 10 ELSE 0 END) AS m, SUM(DISTINCT o.status = 'new') AS s, COUNT(DISTINCT o.status) AS k, COUNT(o.status) AS n FROM orders AS o"),
        // GROUP BY that only selects its keys under a WHERE; aggregates of the grouping key; a column selected twice
        ("group-by-keys-only-with-where", "SELECT t.city AS a FROM users AS t WHERE t.age > 7{k} GROUP BY t.city"),
        ("group-by-keys-only-with-where-two-keys", "SELECT o.status AS a, o.user_id AS b FROM orders AS o WHERE o.amount > 30{k} GROUP BY o.status, o.user_id"),
        ("aggregate-of-the-grouping-key", "SELECT t.age AS a, SUM(t.age) AS s, COUNT(t.age) AS n FROM users AS t GROUP BY t.age"),
        ("having-aggregate-of-the-grouping-key", "SELECT t.city AS a FROM users AS t GROUP BY t.city HAVING COUNT(t.city) > {k}"),
        ("having-bare-grouping-key", "SELECT t.city AS a, COUNT(*) AS n FROM users AS t GROUP BY t.city HAVING t.city <> 'Lyon' AND COUNT(t.id) > 1"),
        ("column-selected-twice", "SELECT t.age, t.age FROM users AS t"),
        ("constant-before-aggregate-having", "SELECT {k} AS one, SUM(t.amount) AS s FROM orders AS t HAVING SUM(t.amount) > 0"),
        ("using", "SELECT * FROM users AS a JOIN orders AS b USING (id)"),
        ("using-left", "SELECT * FROM orders AS a LEFT JOIN users AS b USING (id)"),
        ("natural", "SELECT * FROM cities NATURAL JOIN users"),
        ("group-by-expr", "SELECT t.age + 1 AS a, COUNT(*) AS n FROM users AS t GROUP BY t.age + 1"),
        ("group-by-alias", "SELECT t.age + 1 AS a, COUNT(*) AS n FROM users AS t GROUP BY a"),
        ("alias-shadows-column-group-by", "SELECT t.age % 2 AS age, COUNT(t.id) AS c FROM users AS t GROUP BY age"),
        ("alias-shadows-column-where", "SELECT t.age + 100 AS age, t.id AS i FROM users AS t WHERE age > 5{k}"),
        ("alias-shadows-column-group-by-qualified", "SELECT t.qty % 2 AS qty, COUNT(t.price) AS c FROM items AS t GROUP BY t.qty"),
        ("alias-shadows-other-column", "SELECT t.age AS id, t.id AS age FROM users AS t WHERE age > 3{k} AND id < 4{k}"),
        ("agg-and-scalar", "SELECT 1 + SUM(t.amount) AS a, COUNT(t.status) * 2 AS b FROM orders AS t WHERE t.amount > {k}"),
        ("string-literal-quote", "SELECT t.city AS c, 'it''s' AS s FROM users AS t WHERE t.city <> 'O''x'"),
        ("string-literal-adjacent-quotes", "SELECT 'a\'\'\'\'b' AS s, t.age AS a FROM users AS t"),
        ("string-literal-special", "SELECT 'a\"b;--' AS s, t.age AS a FROM users AS t"),
        ("identifier-space", "SELECT t.age AS \"my col\", t.city AS \"select\" FROM users AS t"),
        ("identifier-quote", "SELECT t.age AS \"a\"\"b\" FROM users AS t"),
        ("case", "SELECT CASE WHEN t.age > {k}0 THEN 'old' ELSE 'young' END AS g, t.id AS i FROM users AS t"),
        ("in-list-text", "SELECT t.id AS i FROM users AS t WHERE t.city IN ('Paris', 'Nice')"),
        ("nested-agg", "SELECT AVG(x.s) AS a FROM (SELECT t.user_id AS u, SUM(t.amount) AS s FROM orders AS t GROUP BY t.user_id) AS x"),
        ("limit-only", "SELECT t.id AS i FROM users AS t ORDER BY t.id LIMIT {k}"),
        ("offset", "SELECT t.id AS i, t.age AS a FROM users AS t ORDER BY t.id DESC LIMIT 5 OFFSET {k}"),
        ("order-by-two-tables", "SELECT u.id AS i, o.id AS j FROM users AS u JOIN orders AS o ON u.id = o.user_id ORDER BY u.id, o.id"),
        ("left-join-where", "SELECT o.id AS i, i.price AS p FROM orders AS o LEFT JOIN items AS i ON o.id = i.order_id WHERE i.price > {k}"),
        ("cross-join", "SELECT u.id AS i, c.pop AS p FROM users AS u CROSS JOIN cities AS c"),
        ("qualified-star", "SELECT t.* FROM users AS t"),
        ("star", "SELECT * FROM orders"),
    ].into_iter().chain(crate::c17::frag_templates().into_iter().map(|q| ("dialect-template", q))).chain(crate::c17::fn_templates()).collect()
}

/// templates whose relation is listed under C08 as not implementing the query (findings/known_findings.jsonl): the checks of
/// other properties that judge the relation by the rows of the query leave them out
pub const MISTRANSLATED: [&str; 12] = ["fn-log2-log10", "string-literal-adjacent-quotes", "set-op-order", "set-op-order-limit", "group-by-ordinal", "order-by-aggregate", "limit-only", "offset", "order-by-two-tables",
    "group-by-keys-only-with-where", "having-aggregate-of-the-grouping-key", "column-selected-twice"];

pub fn run(outdir: &str, seed: u64, thorough: bool) -> serde_json::Value {
    let w = world();
    let mut rng = Rng::new(seed ^ 0xC08);
    let mut st = Stats::default();
    let n = if thorough { 20000 } else { 700 };
    let mut data = gen_data(&mut rng.fork(), &w.specs, 12);
    let mut db = Db::new(&w.specs, &data);
    for i in 0..n {
        let mut r = rng.fork();
        if i % 25 == 24 { data = gen_data(&mut r, &w.specs, 12); db = Db::new(&w.specs, &data); }
        let depth = r.range(0, 2) as u32;
        let (q0, cols) = { let mut g = QGen::new(&mut r, &w.specs); g.bool_items = true; g.allow_outer = true; g.query(depth) };
        let is_set = q0.contains(" UNION ") || q0.contains(" INTERSECT ") || q0.contains(" EXCEPT ");
        let (sql, ordered) = if is_set { (q0.clone(), false) } else { decorate(&mut r, &q0, &cols) };
        let rel = match catch_unwind(AssertUnwindSafe(|| to_relation(&w, &sql))) { Ok(Ok(rel)) => rel, Ok(Err(_)) => { st.bump("query_rejected"); continue; } Err(_) => { st.bump("query_panicked"); continue; } };
        let rendered = match catch_unwind(AssertUnwindSafe(|| render(&rel))) { Ok(s) => s, Err(_) => { st.bump("render_panicked"); continue; } };
        let orig = db.query(&sql);
        let back = db.query(&rendered);
        st.evaluations += 1;
        let (on, orows) = match orig { Ok(x) => x, Err(e) => { st.bump("original_not_executable_on_sqlite"); if st.notes.len() < 4 { st.notes.push(format!("sqlite rejects original: {} :: {}", e, sql)); } continue; } };
        match back {
            Err(e) => { st.violation(json!({"kind":"rendered-sql-not-executable","query":sql,"rendered":rendered,"error":e})); }
            Ok((bn, brows)) => {
                st.distinct.insert(hash_str(&sql));
                st.bump(if orows.is_empty() { "empty_result" } else { "nonempty_result" });
                let same_bag = bag(&orows) == bag(&brows);
                let same_order = !ordered || orows.iter().zip(brows.iter()).all(|(a, b)| a.iter().map(|x| x.canon()).collect::<Vec<_>>() == b.iter().map(|x| x.canon()).collect::<Vec<_>>());
                let same_names = on == bn;
                if !same_bag || !same_order || !same_names {
                    st.violation(json!({"kind": if !same_names { "output-names-differ" } else if !same_bag { "result-multiset-differs" } else { "order-differs" },
                        "query":sql,"rendered":rendered,"original_columns":on,"rendered_columns":bn,
                        "original_rows":orows.iter().take(6).map(|r| r.iter().map(|x| x.json()).collect::<Vec<_>>()).collect::<Vec<_>>(),
                        "rendered_rows":brows.iter().take(6).map(|r| r.iter().map(|x| x.json()).collect::<Vec<_>>()).collect::<Vec<_>>(),
                        "original_count":orows.len(),"rendered_count":brows.len(),
                        "tables": data.iter().map(|(k, v)| (k.clone(), v.len())).collect::<std::collections::BTreeMap<_, _>>()}));
                }
                if i < 2 { st.sample(json!({"query":sql,"rendered":rendered.chars().take(300).collect::<String>(),"rows":orows.len()})); }
            }
        }
    }
    // ---- constructs the tree generator does not produce: templates with random parameters ----
    let templates = templates();
    let m = if thorough { 40 } else { 3 };
    for (name, tpl) in templates.iter() {
        // (SQLite has no SUBSTRING(x FROM a FOR b): the default rendering of SUBSTR is executed by no check, its SQLite translation by C17)
        if *name == "fn-substr" { continue; }
        for j in 0..m {
            let mut r = rng.fork();
            if j > 0 { data = gen_data(&mut r, &w.specs, 12); db = Db::new(&w.specs, &data); }
            let sql = tpl.replace("{k}", &format!("{}", r.range(0, 9)));
            let ordered = sql.contains("ORDER BY");
            let rel = match catch_unwind(AssertUnwindSafe(|| to_relation(&w, &sql))) { Ok(Ok(rel)) => rel, Ok(Err(e)) => { st.bump(&format!("template_rejected_{}", name)); if j == 0 && st.notes.len() < 12 { st.notes.push(format!("{} rejected: {}", name, e.chars().take(120).collect::<String>())); } continue; } Err(_) => { st.bump(&format!("template_panicked_{}", name)); continue; } };
            let rendered = match catch_unwind(AssertUnwindSafe(|| render(&rel))) { Ok(s) => s, Err(_) => { st.bump("render_panicked"); continue; } };
            st.evaluations += 1;
            let (on, orows) = match db.query(&sql) { Ok(x) => x, Err(e) => { st.bump("original_not_executable_on_sqlite"); if st.notes.len() < 12 { st.notes.push(format!("sqlite rejects original {}: {}", name, e)); } continue; } };
            match db.query(&rendered) {
                Err(e) => st.violation(json!({"kind":"rendered-sql-not-executable","construct":name,"query":sql,"rendered":rendered,"error":e})),
                Ok((bn, brows)) => {
                    st.distinct.insert(hash_str(&sql));
                    st.bump(&format!("template_ok_{}", name));
                    let same_bag = bag(&orows) == bag(&brows);
                    let same_order = !ordered || orows.iter().zip(brows.iter()).all(|(a, b)| a.iter().map(|x| x.canon()).collect::<Vec<_>>() == b.iter().map(|x| x.canon()).collect::<Vec<_>>());
                    let same_names = on == bn;
                    if !same_bag || !same_order || !same_names {
                        st.violation(json!({"kind": if !same_bag { "result-multiset-differs" } else if !same_order { "order-differs" } else { "output-names-differ" },"construct":name,
                            "query":sql,"rendered":rendered,"original_columns":on,"rendered_columns":bn,"original_count":orows.len(),"rendered_count":brows.len(),
                            "original_rows":orows.iter().take(5).map(|r| r.iter().map(|x| x.json()).collect::<Vec<_>>()).collect::<Vec<_>>(),
                            "rendered_rows":brows.iter().take(5).map(|r| r.iter().map(|x| x.json()).collect::<Vec<_>>()).collect::<Vec<_>>()}));
                    }
                }
            }
        }
    }
    // ---- quoting kernel: correspondence with QV/Sql/Quote.v ----
    let qcases = quote_cases(&mut rng, if thorough { 60000 } else { 3000 }, &mut st);
    let header = "From QV Require Import Sql.Quote Corr.Lib Corr.Quote.";
    let qf = write_shards(outdir, "c08_quote", header, "quote_case", "quote_check", &qcases, 1500);
    let mut out = st.to_json("generated queries of the supported fragment (maps, filters, aggregations with GROUP BY, joins of every kind, set operations, nested sub-queries, ORDER BY / LIMIT / OFFSET on a total order) x generated databases (0-12 rows per table, boundary values, NULLs, dangling keys); original and rendered SQL both executed on SQLite; non-trivial: both execute; distinct by query text");
    out["shards"] = json!({"c08_quote": qf});
    out
}

/// (delimiter, value, what Display writes, what the tokenizer reads back) for random strings
pub fn quote_cases(rng: &mut Rng, n: usize, st: &mut Stats) -> Vec<String> {
    use sqlparser::{dialect::{MySqlDialect, PostgreSqlDialect}, tokenizer::{Token, Tokenizer}};
    let alphabet: Vec<char> = vec!['a', 'b', '"', '\'', '`', '\\', ' ', '\n', 'é', ';', '-', 'S'];
    let mut cases = vec![];
    for i in 0..n {
        let len = rng.range(0, 7) as usize;
        let s: String = (0..len).map(|_| *rng.pick(&alphabet)).collect();
        let q = *rng.pick(&['"', '`', '\'']);
        let written = if q == '\'' { ast::Value::SingleQuotedString(s.clone()).to_string() } else { ast::Ident::with_quote(q, s.clone()).to_string() };
        let toks = if q == '`' { Tokenizer::new(&MySqlDialect {}, &written).tokenize() } else { Tokenizer::new(&PostgreSqlDialect {}, &written).tokenize() };
        let back: Option<String> = match toks { Ok(t) if t.len() == 1 => match &t[0] { Token::Word(w) if w.quote_style == Some(q) => Some(w.value.clone()), Token::SingleQuotedString(v) if q == '\'' => Some(v.clone()), _ => None }, _ => None };
        let codes = |x: &str| coq_list(&x.chars().collect::<Vec<_>>(), |c| format!("{}", *c as u32));
        cases.push(format!("({}%N, {}%N, {}%N, {})", q as u32, codes(&s), codes(&written), match &back { Some(b) => format!("(Some {}%N)", codes(b)), None => "None".into() }));
        st.case(&format!("quote{}{}", q, s), s.contains(q));
        if back.as_deref() == Some(s.as_str()) { st.bump("quote_roundtrip_ok"); } else { st.bump("quote_roundtrip_lost"); }
        if i < 1 { st.sample(json!({"stream":"quoting","delimiter":q.to_string(),"value":s,"written":written,"read_back":back})); }
    }
    cases
}

/// QV/Generated/Parens.v: how the translator writes each function of the expression language — for every
/// argument, whether the text around it delimits it (parentheses, a comma of a call, a keyword of CASE /
/// CAST / EXTRACT) or leaves it bare next to an operator
pub fn generate_parens(dir: &str) -> Result<(), String> {
    use qrlew::dialect_translation::{postgresql::PostgreSqlTranslator, RelationToQueryTranslator};
    use sqlparser::ast as sp;
    let marker = |i: usize| sp::Expr::BinaryOp { left: Box::new(sp::Expr::Identifier(sp::Ident::new(format!("mk{}a", i)))), op: sp::BinaryOperator::Or, right: Box::new(sp::Expr::Identifier(sp::Ident::new(format!("mk{}b", i)))) };
    let keywords = ["WHEN", "THEN", "ELSE", "END", "AS", "FROM", "FOR"];
    let mut rows: Vec<String> = vec![];
    for f in crate::c14::all_functions() {
        let name = { let s = format!("{:?}", f); s.split('(').next().unwrap().to_string() };
        let mut found = None;
        for arity in [1usize, 2, 3, 4, 0] {
            let mut args: Vec<sp::Expr> = (0..arity).map(|i| marker(i)).collect();
            // IN takes the list of its right-hand side as a tuple
            if name == "InList" { if arity != 2 { continue; } args[1] = sp::Expr::Tuple(vec![marker(1)]); }
            let fc = f.clone();
            let Ok(e) = catch_unwind(AssertUnwindSafe(|| PostgreSqlTranslator.function(&fc, args))) else { continue };
            let text = e.to_string();
            if (0..arity).all(|i| text.contains(&format!("mk{}a OR mk{}b", i, i))) { found = Some((arity, e, text)); break; }
        }
        let Some((arity, e, text)) = found else { rows.push(format!("  ({}, 0%nat, {}, [])", coq_string(&name), coq_string("not-written"))); continue };
        let root = { let s = format!("{:?}", e); s.split(|c| c == '(' || c == '{' || c == ' ').next().unwrap().to_string() };
        let mut classes = vec![];
        for i in 0..arity {
            let m = format!("mk{}a OR mk{}b", i, i);
            let at = text.find(&m).unwrap();
            let before = text[..at].trim_end(); let after = text[at + m.len()..].trim_start();
            let word_before: String = before.chars().rev().take_while(|c| c.is_ascii_alphabetic()).collect::<String>().chars().rev().collect();
            let word_after: String = after.chars().take_while(|c| c.is_ascii_alphabetic()).collect();
            // POSITION(a IN b): the keyword IN separates the two arguments inside the parentheses of the form
            let kw = |w: &str| keywords.contains(&w) || (root == "Position" && w == "IN");
            let safe_b = before.ends_with('(') || before.ends_with(',') || kw(word_before.as_str());
            let safe_a = after.starts_with(')') || after.starts_with(',') || kw(word_after.as_str());
            let paren = (before.ends_with('(') || before.ends_with(',')) && (after.starts_with(')') || after.starts_with(','));
            classes.push(if paren { 0 } else if safe_b && safe_a { 1 } else { 2 });
        }
        rows.push(format!("  ({}, {}%nat, {}, [{}])", coq_string(&name), arity, coq_string(&root), classes.iter().map(|c| format!("{}%nat", c)).collect::<Vec<_>>().join("; ")));
    }
    let s = format!("(* GENERATED by `qvh GEN-PARENS` from RelationToQueryTranslator::function of /repo on every run: each function of\n   the expression language written with compound arguments; per argument 0 = between parentheses or commas,\n   1 = delimited by a keyword (CASE / CAST / EXTRACT ...), 2 = bare next to an operator.  Do not edit. *)\nFrom Coq Require Import String List.\nImport ListNotations.\nOpen Scope string_scope.\n\n(* name, arguments written, root node of the sqlparser tree, class of each argument *)\nDefinition parens : list (string * nat * string * list nat) := [\n{}\n].\n", rows.join(";\n"));
    std::fs::create_dir_all(dir).map_err(|e| e.to_string())?;
    let path = format!("{}/Parens.v", dir);
    if std::fs::read_to_string(&path).ok().as_deref() != Some(&s) { std::fs::write(&path, s).map_err(|e| e.to_string())?; }
    Ok(())
}
