//! C03: budget accounting — correspondence cases for QV/DP/Budget.v (evaluated on rationals)
//! and the direct oracle "recorded multiplier <= sigma / C, thresholding recorded".
use crate::common::*;
use crate::ir::*;
use crate::world::*;
use qrlew::{
    differential_privacy::DpParameters,
    expr::aggregate::Aggregate,
    relation::{Relation, Variant as _},
};
use qrlew::data_type::DataTyped as _;
use serde_json::json;
use std::collections::HashMap;
use std::panic::{catch_unwind, AssertUnwindSafe};

/// exact rational of an f64, as a Coq term `(fq m e)` = m * 2^e
pub fn fq(x: f64) -> String {
    if x == 0.0 { return "(fq 0 0)".into(); }
    let bits = x.to_bits();
    let sign = if (bits >> 63) != 0 { -1i128 } else { 1 };
    let exp = ((bits >> 52) & 0x7ff) as i64;
    let frac = (bits & 0xf_ffff_ffff_ffff) as i128;
    let (m, e) = if exp == 0 { (frac, -1074) } else { (frac | (1i128 << 52), exp - 1075) };
    format!("(fq {} {})", coq_z(sign * m), coq_z(e as i128))
}

pub struct Shape { pub groups: Vec<usize>, pub th: bool }

/// the number of sums each DISTINCT-split reduce asks noise for, as aggregates.rs builds them
pub fn shape_of(reduce: &qrlew::relation::Reduce) -> Shape {
    let mut map: HashMap<Option<String>, usize> = HashMap::new();
    for agg in reduce.aggregate() {
        let (key, n) = match agg.aggregate() {
            Aggregate::CountDistinct => (Some(agg.column().to_string()), 1), Aggregate::SumDistinct => (Some(agg.column().to_string()), 1),
            Aggregate::MeanDistinct => (Some(agg.column().to_string()), 2), Aggregate::VarDistinct | Aggregate::StdDistinct => (Some(agg.column().to_string()), 3),
            Aggregate::First => continue,
            Aggregate::Count => (None, 1), Aggregate::Sum => (None, 1), Aggregate::Mean => (None, 2), Aggregate::Var | Aggregate::Std => (None, 3),
            _ => (None, 0),
        };
        *map.entry(key).or_insert(0) += n;
    }
    let groups: Vec<usize> = if map.is_empty() { vec![0] } else { map.values().cloned().collect() };
    let th = !reduce.group_by().is_empty() && reduce.group_by().iter().any(|c| {
        reduce.input().schema().field(c.last().unwrap()).map(|f| !f.all_values()).unwrap_or(true)
    });
    Shape { groups, th }
}

fn find_reduce(rel: &Relation) -> Option<&qrlew::relation::Reduce> {
    match rel { Relation::Reduce(r) => Some(r), _ => rel.inputs().into_iter().find_map(find_reduce) }
}
fn count_reduces(rel: &Relation) -> usize { all_nodes(rel).iter().filter(|n| matches!(n, Relation::Reduce(_))).count() }

pub fn gen_agg_query(r: &mut Rng) -> String {
    // a privacy-unit-trackable source and the columns it offers
    let (from, nums, keys): (&str, Vec<&str>, Vec<&str>) = match r.below(5) {
        0 => ("users AS t", vec!["t.age", "t.income", "t.score"], vec!["t.city", "t.age"]),
        1 => ("orders AS t", vec!["t.amount", "t.user_id"], vec!["t.status", "t.user_id"]),
        2 => ("items AS t", vec!["t.price", "t.qty"], vec!["t.qty", "t.order_id"]),
        3 => ("orders AS t JOIN users AS u ON t.user_id = u.id", vec!["t.amount", "u.age", "u.income"], vec!["u.city", "t.status", "u.age"]),
        _ => ("items AS t JOIN orders AS o ON t.order_id = o.id", vec!["t.price", "o.amount", "t.qty"], vec!["o.status", "t.qty", "o.user_id"]),
    };
    let nagg = r.range(1, 5);
    let mut items = vec![]; let mut group = vec![];
    let nkeys = r.below(3);
    for i in 0..nkeys { let k = *r.pick(&keys); if !group.contains(&k.to_string()) { items.push(format!("{} AS k{}", k, i)); group.push(k.to_string()); } }
    for i in 0..nagg {
        let c = *r.pick(&nums);
        let e = if r.chance(1, 4) { format!("{} + 1", c) } else { c.to_string() };
        let f = *r.pick(&["COUNT", "SUM", "AVG", "VARIANCE", "STDDEV", "COUNT", "SUM"]);
        let d = if r.chance(1, 4) { "DISTINCT " } else { "" };
        if r.chance(1, 8) { items.push(format!("COUNT(*) AS a{}", i)); } else { items.push(format!("{}({}{}) AS a{}", f, d, e, i)); }
    }
    let wh = if r.chance(1, 3) { format!(" WHERE {} > {}", r.pick(&nums), r.range(0, 20)) } else { String::new() };
    let gb = if group.is_empty() { String::new() } else { format!(" GROUP BY {}", group.join(", ")) };
    format!("SELECT {} FROM {}{}{}", items.join(", "), from, wh, gb)
}

pub fn gen_params(r: &mut Rng) -> DpParameters {
    let eps = match r.below(4) { 0 => 1.0, 1 => 10f64.powf(-(r.below(3000) as f64) / 1000.0), 2 => 1.0 + (r.below(1900) as f64) / 100.0, _ => 0.5 };
    let delta = match r.below(4) { 0 => 1e-5, 1 => 10f64.powf(-(r.below(12000) as f64) / 1000.0), 2 => 0.5, _ => 1e-12 };
    let share = *r.pick(&[0.5, 0.5, 0.1, 0.9, 0.25, 0.0, 1.0]);
    // (a multiplicity of zero makes every clipping bound zero: nothing may then be released)
    let mult = *r.pick(&[100.0, 1.0, 5.0, 1000.0, 0.0]);
    let mshare = *r.pick(&[0.1, 1.0, 0.01, 0.0]);
    let cu = *r.pick(&[5u64, 1, 2, 20]);
    DpParameters::new(eps, delta, share, mult, mshare, cu)
}

pub fn run(outdir: &str, seed: u64, thorough: bool) -> serde_json::Value {
    let w = world();
    let mut rng = Rng::new(seed ^ 0xC03);
    let mut st = Stats::default();
    let n = if thorough { 12000 } else { 500 };
    let mut cases = vec![]; let mut cj = vec![];
    for i in 0..n {
        let mut r = rng.fork();
        let nested = r.chance(1, 5);
        let sql = if nested {
            // nested DP sub-query: an aggregate joined back (oracle only, several DP sites)
            // ... and DP sub-queries of the same shape joined or united (their events are equal as values)
            r.pick(&["WITH m AS (SELECT AVG(t.amount) AS av FROM orders AS t) SELECT SUM(o.amount - m.av) AS s, COUNT(o.amount) AS c FROM orders AS o CROSS JOIN m",
                "SELECT a.s AS s1, b.s AS s2 FROM (SELECT 2 * SUM(t.amount) AS s FROM orders AS t) AS a CROSS JOIN (SELECT 2 * SUM(t.price) AS s FROM items AS t) AS b",
                "SELECT 2 * SUM(t.amount) AS s FROM orders AS t UNION SELECT 2 * SUM(t.price) AS s FROM items AS t",
                "SELECT a.k AS k, a.s AS s1, b.s AS s2 FROM (SELECT t.status AS k, 2 * SUM(t.amount) AS s FROM orders AS t GROUP BY t.status) AS a JOIN (SELECT t.status AS k, 2 * COUNT(t.id) AS s FROM orders AS t GROUP BY t.status) AS b ON a.k = b.k",
                "SELECT a.s AS s1, b.s AS s2 FROM (SELECT 1 + AVG(t.age) AS s FROM users AS t) AS a CROSS JOIN (SELECT 1 + AVG(t.income) AS s FROM users AS t) AS b"]).to_string()
        } else { gen_agg_query(&mut r) };
        let p = gen_params(&mut r);
        let rel = match catch_unwind(AssertUnwindSafe(|| to_relation(&w, &sql))) { Ok(Ok(rel)) => rel, Ok(Err(_)) => { st.bump("query_rejected"); continue; } Err(_) => { st.bump("query_panicked"); continue; } };
        let res = catch_unwind(AssertUnwindSafe(|| rel.rewrite_with_differential_privacy(&w.relations, None, w.privacy_unit.clone(), p.clone())));
        let rw = match res { Ok(Ok(rw)) => rw, Ok(Err(_)) => { st.bump("rewrite_err"); continue; } Err(_) => { st.bump("rewrite_panicked"); continue; } };
        let sites = noise_sites(rw.relation());
        let taus = tau_sites(rw.relation());
        let mut leaves = vec![]; event_leaves(rw.dp_event(), &mut leaves);
        // ---- oracle on the implementation ----
        let mut ratios: Vec<f64> = sites.iter().filter(|s| s.column != "_COUNT_DISTINCT_PID_" && s.sigma > 0.0).filter_map(|s| s.clip.map(|c| s.sigma / c)).collect();
        let unclipped: Vec<&NoiseSite> = sites.iter().filter(|s| s.column != "_COUNT_DISTINCT_PID_" && s.sigma > 0.0 && s.clip.is_none()).collect();
        if !unclipped.is_empty() { st.bump("noise_site_without_identified_clip"); }
        let mut mults: Vec<f64> = leaves.iter().filter(|l| l.0 == "gaussian").map(|l| l.1).collect();
        ratios.sort_by(|a, b| a.partial_cmp(b).unwrap()); mults.sort_by(|a, b| a.partial_cmp(b).unwrap());
        // every noised sum is matched by its own recorded entry whose multiplier is not larger
        let mut ok = mults.len() >= ratios.len();
        if ok { let off = mults.len() - ratios.len(); let _ = off; for (k, ra) in ratios.iter().enumerate() { if mults[k] > ra * (1.0 + 1e-9) { ok = false; } } }
        if !ok {
            st.violation(json!({"kind":"privacy-loss-under-reported","query":sql,"epsilon":p.epsilon,"delta":p.delta,"share":p.tau_thresholding_share,
                "sigma_over_c":ratios,"recorded_multipliers":mults,"event":rw.dp_event().to_string()}));
        }
        // a sum released without noise (sigma = 0, no recorded entry) must be the constant 0: its clipping bound is 0
        for s0 in sites.iter().filter(|s| s.column != "_COUNT_DISTINCT_PID_" && s.sigma == 0.0) {
            st.bump("noise_sites_with_sigma_zero");
            let ty = crate::ir::all_nodes(rw.relation()).iter().find_map(|n| if let Relation::Map(m) = n { if m.name() == s0.map { m.schema().iter().find(|f| f.name() == s0.column).map(|f| f.data_type()) } else { None } } else { None });
            let zero = ty.as_ref().and_then(|t| t.absolute_upper_bound()) == Some(0.0);
            if !zero {
                st.violation(json!({"kind":"aggregate-released-without-noise","query":sql,"column":s0.column,"declared_type":ty.map(|t| t.to_string()),"multiplicity":p.privacy_unit_max_multiplicity,"multiplicity_share":p.privacy_unit_max_multiplicity_share,"event":rw.dp_event().to_string()}));
            }
        }
        let eds: Vec<(f64, f64)> = leaves.iter().filter(|l| l.0 == "epsilon_delta").map(|l| (l.1, l.2)).collect();
        if eds.len() < taus.len() {
            st.violation(json!({"kind":"thresholding-not-recorded","query":sql,"tau_sites":taus.len(),"recorded":eds.len(),"event":rw.dp_event().to_string()}));
        }
        for t in &taus {
            // the sigma used by the key release must be the one of the recorded (eps, delta): sigma = nm(e, d) * sqrt(Cu)
            if let Some(sg) = t.sigma {
                let good = eds.iter().any(|(e, d)| { let want = ((2.0 * (1.25 / d).ln()).sqrt() / e) * (p.max_privacy_unit_groups as f64).sqrt(); (sg - want).abs() <= 1e-9 * want.abs() || sg >= want });
                if !good { st.violation(json!({"kind":"thresholding-noise-below-recorded-budget","query":sql,"sigma":sg,"recorded":eds,"cu":p.max_privacy_unit_groups})); }
                // ... and the threshold must keep the release probability of a single unit's key within the recorded delta:
                // tau >= 1 + sigma * quantile((1 - delta)^(1/Cu)) for some recorded (epsilon, delta)
                let cu = p.max_privacy_unit_groups as f64;
                let tau_ok = eds.iter().any(|(_, d)| { let q = crate::dp::inv_norm((1.0 - d).powf(1.0 / cu)).max(0.0); t.tau >= 1.0 + sg * q - 1e-6 * (1.0 + sg * q).abs() });
                if !tau_ok && !eds.is_empty() && sg.is_finite() && sg > 0.0 {
                    st.violation(json!({"kind":"threshold-releases-above-recorded-delta","query":sql,"tau":t.tau,"sigma":sg,"recorded":eds,"cu":p.max_privacy_unit_groups}));
                }
            }
        }
        st.bump(if nested { "nested_dp_subquery" } else { "single_dp_reduce" });
        if nested { st.bump(&format!("nested_with_{}_noise_sites", sites.len())); }
        // ---- correspondence case (single DP reduce) ----
        if !nested && count_reduces(&rel) == 1 {
            let red = find_reduce(&rel).unwrap();
            let sh = shape_of(red);
            let a = if sh.th { 1.0 - p.tau_thresholding_share } else { 1.0 };
            let k = sh.groups.len().max(1) as f64;
            let (ej, dj) = (p.epsilon * a / k, p.delta * a / k);
            let mut lntab: Vec<(f64, f64)> = vec![(1.25 / dj, (1.25 / dj).ln())];
            for n in &sh.groups { if *n > 0 { let x = 1.25 / (dj / (*n as f64)); lntab.push((x, x.ln())); } }
            let site_list: Vec<(f64, f64)> = sites.iter().filter(|s| s.column != "_COUNT_DISTINCT_PID_" && s.sigma > 0.0).filter_map(|s| s.clip.map(|c| (s.sigma, c))).collect();
            let case = format!("({}, {}, {}, {}, {}, {}, {}, {})", fq(p.epsilon), fq(p.delta), fq(p.tau_thresholding_share), coq_bool(sh.th),
                coq_list(&sh.groups, |g| format!("{}%nat", g)),
                coq_list(&site_list, |(s, c)| format!("({}, {})", fq(*s), fq(*c))),
                coq_list(&leaves, |l| if l.0 == "gaussian" { format!("LG {}", fq(l.1)) } else { format!("LE {} {}", fq(l.1), fq(l.2)) }),
                coq_list(&lntab, |(x, l)| format!("({}, {})", fq(*x), fq(*l))));
            if p.epsilon * a > 0.0 && p.delta * a > 0.0 {
                // ---- budget oracle: is there a split (eps_i, delta_i) of the available budget under which every
                //      sigma_i / C_i is at least the classical calibration?  Two witnesses are tried: the split the
                //      shape suggests, and an equal split of delta with eps_i solved from sigma_i / C_i.
                let nm = |e: f64, d: f64| (2.0 * (1.25 / d).ln()).sqrt() / e;
                let witness_a = site_list.iter().all(|(sg, c)| sh.groups.iter().any(|n| *n > 0 && sg / c >= nm(ej / *n as f64, dj / *n as f64) * (1.0 - 1e-9)));
                let nsites = site_list.len().max(1) as f64;
                let d_each = p.delta * a / nsites;
                let eps_needed: f64 = site_list.iter().map(|(sg, c)| (2.0 * (1.25 / d_each).ln()).sqrt() / (sg / c)).sum();
                let witness_b = eps_needed <= p.epsilon * a * (1.0 + 1e-9);
                if !witness_a && !witness_b && !site_list.is_empty() {
                    st.violation(json!({"kind":"noise-below-budget-calibration","query":sql,"epsilon":p.epsilon,"delta":p.delta,"share":p.tau_thresholding_share,
                        "thresholding":sh.th,"sigma_and_clip":site_list,"epsilon_needed_with_equal_delta_split":eps_needed,"epsilon_available":p.epsilon * a}));
                }
                cases.push(case);
                cj.push(json!({"query":sql,"epsilon":p.epsilon,"delta":p.delta,"share":p.tau_thresholding_share,"thresholding":sh.th,"groups":sh.groups,
                    "sites":site_list,"event":rw.dp_event().to_string()}));
                st.bump(if sh.th { "corr_with_thresholding" } else { "corr_without_thresholding" });
                st.bump(&format!("corr_distinct_groups_{}", sh.groups.len()));
            }
        }
        st.case(&format!("{}|{:?}", sql, (p.epsilon, p.delta, p.tau_thresholding_share)), !sites.is_empty());
        st.add("noise_sites", sites.len() as u64); st.add("tau_sites", taus.len() as u64);
        if i < 2 { st.sample(json!({"query":sql,"epsilon":p.epsilon,"delta":p.delta,"share":p.tau_thresholding_share,
            "sites":sites.iter().map(|s| json!({"column":s.column,"sigma":s.sigma,"clip":s.clip})).collect::<Vec<_>>(),"taus":taus.iter().map(|t| json!({"tau":t.tau,"sigma":t.sigma})).collect::<Vec<_>>(),"event":rw.dp_event().to_string()})); }
    }
    let header = "From QV Require Import Corr.Lib Corr.C03.";
    let f = write_shards(outdir, "c03_budget", header, "c03_case", "budget_check", &cases, if thorough { 500 } else { 60 });
    std::fs::write(format!("{}/c03_budget.json", outdir), serde_json::to_string(&cj).unwrap()).unwrap();
    let mut out = st.to_json("aggregation queries over privacy-unit-trackable sources (1-5 aggregates among count/sum/avg/var/std and their DISTINCT forms, 0-2 public- or private-valued keys, optional filter, joins along the privacy-unit path; one stream with a nested DP sub-query) x DpParameters (epsilon 1e-3..20, delta 1e-12..0.5, share 0..1, multiplicities, Cu); non-trivial: the rewritten query has at least one noise site; distinct by (query, parameters)");
    out["shards"] = json!({"c03_budget": f});
    out
}
