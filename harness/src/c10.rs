//! C10: predicate narrowing — correspondence for QV/Expr/Filter.v and the row oracle.
use crate::common::*;
use crate::typegen::*;
use qrlew::{data_type::{function::Function as _, value::Value, DataType, Variant as _}, expr::Expr};
use serde_json::json;
use std::panic::{catch_unwind, AssertUnwindSafe};

#[derive(Clone, Debug)]
enum IE { Var(usize), Const(i64), Bin(&'static str, Box<IE>, Box<IE>) }
#[derive(Clone, Debug)]
enum P { Cmp(&'static str, IE, IE), And(Box<P>, Box<P>), Or(Box<P>, Box<P>), InList(usize, Vec<i64>), Const(bool), BoolCol, Other(IE) }

const COLS: [&str; 3] = ["a", "b", "c"];
fn gen_ie(r: &mut Rng, depth: u32) -> IE {
    if depth == 0 || r.chance(1, 2) { if r.chance(2, 3) { IE::Var(r.below(3) as usize) } else { IE::Const(*r.pick(&[0, 1, -1, 2, 5, 10, -7, 100, i64::MAX, i64::MIN])) } }
    else { IE::Bin(*r.pick(&["Plus", "Minus", "Mul", "Least", "Greatest"]), Box::new(gen_ie(r, depth - 1)), Box::new(gen_ie(r, depth - 1))) }
}
fn gen_p(r: &mut Rng, depth: u32) -> P {
    match r.below(if depth == 0 { 6 } else { 10 }) {
        0..=3 => { let l = if r.chance(2, 3) { IE::Var(r.below(3) as usize) } else { gen_ie(r, 1) }; let rr = if r.chance(1, 3) { IE::Var(r.below(3) as usize) } else { gen_ie(r, 1) };
                   let (l, rr) = if r.chance(1, 2) { (l, rr) } else { (rr, l) };
                   P::Cmp(*r.pick(&["CGt", "CGtEq", "CLt", "CLtEq", "CEq"]), l, rr) }
        4 => { let n = r.range(1, 4); P::InList(r.below(3) as usize, (0..n).map(|_| r.range(-12, 12)).collect()) }
        5 => if r.chance(1, 4) { P::Const(r.chance(1, 2)) } else if r.chance(1, 3) { P::BoolCol } else { P::Other(IE::Bin(*r.pick(&["Gt", "Lt"]), Box::new(gen_ie(r, 1)), Box::new(gen_ie(r, 1)))) },
        6 | 7 => P::And(Box::new(gen_p(r, depth - 1)), Box::new(gen_p(r, depth - 1))),
        _ => P::Or(Box::new(gen_p(r, depth - 1)), Box::new(gen_p(r, depth - 1))),
    }
}
fn ie_coq(e: &IE) -> String { match e { IE::Var(n) => format!("(EVar {})", n), IE::Const(z) => format!("(EConst {})", coq_z(*z as i128)), IE::Bin(op, l, r) => format!("(EBin {} {} {})", op, ie_coq(l), ie_coq(r)) } }
fn p_coq(p: &P) -> String {
    match p { P::Cmp(c, l, r) => format!("(PCmp {} {} {})", c, ie_coq(l), ie_coq(r)), P::And(a, b) => format!("(PAnd {} {})", p_coq(a), p_coq(b)), P::Or(a, b) => format!("(POr {} {})", p_coq(a), p_coq(b)),
        P::InList(c, vs) => format!("(PInList {} {})", c, coq_list(vs, |v| coq_z(*v as i128))), P::Const(b) => format!("(PConst {})", coq_bool(*b)), P::BoolCol => "(PBoolCol 3)".to_string(), P::Other(e) => format!("(POther {})", ie_coq(e)) }
}
fn ie_expr(e: &IE) -> Expr {
    match e { IE::Var(n) => Expr::col(COLS[*n]), IE::Const(z) => Expr::val(*z),
        IE::Bin(op, l, r) => { let (l, r) = (ie_expr(l), ie_expr(r)); match *op { "Plus" => Expr::plus(l, r), "Minus" => Expr::minus(l, r), "Mul" => Expr::multiply(l, r), "Least" => Expr::least(l, r), "Greatest" => Expr::greatest(l, r), "Gt" => Expr::gt(l, r), _ => Expr::lt(l, r) } } }
}
fn p_expr(p: &P) -> Expr {
    match p {
        P::Cmp(c, l, r) => { let (l, r) = (ie_expr(l), ie_expr(r)); match *c { "CGt" => Expr::gt(l, r), "CGtEq" => Expr::gt_eq(l, r), "CLt" => Expr::lt(l, r), "CLtEq" => Expr::lt_eq(l, r), _ => Expr::eq(l, r) } }
        P::And(a, b) => Expr::and(p_expr(a), p_expr(b)), P::Or(a, b) => Expr::or(p_expr(a), p_expr(b)),
        P::InList(c, vs) => Expr::in_list(Expr::col(COLS[*c]), Expr::list(vs.clone())),
        P::Const(b) => Expr::val(*b),
        P::BoolCol => Expr::col("d"),
        // negated, so that the top-level function is one the narrowing does not know
        P::Other(e) => Expr::not(ie_expr(e)),
    }
}
fn int_set(r: &mut Rng) -> Vec<(i64, i64)> {
    let n = r.range(1, 3);
    (0..n).map(|_| match r.below(6) { 0 => (i64::MIN, i64::MAX), 1 => { let a = r.range(-12, 12); (a, a) }, 2 => (r.range(-1 << 40, -100), r.range(100, 1 << 40)), 3 => (i64::MAX - r.range(0, 5), i64::MAX),
        _ => { let a = r.range(-15, 15); let b = r.range(-15, 15); if a <= b { (a, b) } else { (b, a) } } }).collect()
}
fn field_ivs(t: &DataType, name: &str) -> Option<Vec<[i64; 2]>> {
    if let DataType::Struct(s) = t { match s.data_type(name).as_ref() { DataType::Integer(i) => Some(i.iter().map(|[a, b]| [*a, *b]).collect()),
        DataType::Boolean(i) => Some(i.iter().map(|[a, b]| [*a as i64, *b as i64]).collect()), _ => None } } else { None }
}

pub fn run(outdir: &str, seed: u64, thorough: bool) -> serde_json::Value {
    let mut rng = Rng::new(seed ^ 0xC10);
    let mut st = Stats::default();
    let n = if thorough { 40000 } else { 2000 };
    let mut cases = vec![]; let mut cj = vec![];
    for i in 0..n {
        let mut r = rng.fork();
        let p = gen_p(&mut r, 2);
        let sets: Vec<Vec<(i64, i64)>> = (0..3).map(|_| int_set(&mut r)).collect();
        let dts: Vec<DataType> = sets.iter().map(|s| to_dt(&Ty::Int(s.clone()))).collect();
        // a fourth, boolean column, only used as a bare predicate
        let dbool = match r.below(4) { 0 => DataType::boolean_values([false]), 1 => DataType::boolean_values([true]), 2 => DataType::boolean_values([false, true]), _ => DataType::boolean() };
        let dvals: Vec<bool> = match r.below(4) { _ if dbool == DataType::boolean_values([false]) => vec![false], _ if dbool == DataType::boolean_values([true]) => vec![true], _ => vec![false, true] };
        let st_ty = DataType::structured([("a", dts[0].clone()), ("b", dts[1].clone()), ("c", dts[2].clone()), ("d", dbool.clone())]);
        let ex = p_expr(&p);
        let all_cols = ["a", "b", "c", "d"];
        let tenv: Vec<Vec<[i64; 2]>> = all_cols.iter().map(|c| field_ivs(&st_ty, c).unwrap()).collect();
        let filtered = catch_unwind(AssertUnwindSafe(|| st_ty.filter(&ex)));
        let filtered = match filtered { Ok(f) => f, Err(e) => { st.bump("filter_panicked"); if st.notes.len() < 5 { st.notes.push(format!("filter panicked on {} with {}: {}", st_ty, ex, panic_msg(e))); } continue; } };
        let out: Option<Vec<Vec<[i64; 2]>>> = all_cols.iter().map(|c| field_ivs(&filtered, c)).collect();
        // oracle: rows of the input type satisfying the predicate stay in the narrowed type
        let mut sat = 0;
        for _ in 0..8 {
            let vs: Vec<i64> = sets.iter().map(|s| { let (a, b) = *r.pick(s); match r.below(4) { 0 => a, 1 => b, 2 => r.range(a, b), _ => r.range(a.max(-16), b.min(16).max(a.max(-16))) } }).collect();
            let dv = *r.pick(&dvals);
            let row = Value::structured([("a", Value::integer(vs[0])), ("b", Value::integer(vs[1])), ("c", Value::integer(vs[2])), ("d", Value::boolean(dv))]);
            if !st_ty.contains(&row) { continue; }
            let holds = catch_unwind(AssertUnwindSafe(|| ex.value(&row).ok())).unwrap_or(None);
            if holds == Some(Value::boolean(true)) {
                sat += 1;
                if !member(&filtered, &row) { st.violation(json!({"kind":"satisfying-row-dropped","predicate":ex.to_string(),"type":st_ty.to_string(),"narrowed":filtered.to_string(),"row":vs,"d":dv})); }
            }
        }
        let pr = |l: &Vec<[i64; 2]>| coq_list(l, |[a, b]| format!("({},{})", coq_z(*a as i128), coq_z(*b as i128)));
        if let Some(out) = &out {
            cases.push(format!("({}, {}, {})", coq_list(&tenv, |l| pr(l)), p_coq(&p), coq_list(out, |l| pr(l))));
            cj.push(json!({"predicate": ex.to_string(), "type": st_ty.to_string(), "narrowed": filtered.to_string()}));
        } else { st.bump("narrowed_type_not_integer_struct"); }
        st.case(&format!("{}{}", ex, st_ty), sat > 0 && filtered != st_ty);
        if filtered != st_ty { st.bump("narrowed"); } else { st.bump("unchanged"); }
        st.add("satisfying_rows", sat);
        if i < 2 { st.sample(json!({"stream":"integer predicates","predicate":ex.to_string(),"type":st_ty.to_string(),"narrowed":filtered.to_string()})); }
    }
    // oracle only: nullable / float / text / boolean columns, predicates built through SQL-like shapes
    let m = if thorough { 40000 } else { 2000 };
    for i in 0..m {
        let mut r = rng.fork();
        let mut tys: Vec<Ty> = (0..3).map(|_| { let t = gen_ty(&mut r, 0); if r.chance(1, 3) { Ty::Opt(Box::new(t)) } else { t } }).collect();
        if r.chance(1, 3) { let k = r.below(3) as usize; tys[k] = Ty::Bool(match r.below(4) { 0 => vec![true], 1 => vec![false], _ => vec![false, true] }); }
        let st_ty = DataType::structured(COLS.iter().zip(tys.iter()).map(|(c, t)| (*c, to_dt(t))).collect::<Vec<_>>());
        fn gen_q(r: &mut Rng, tys: &[Ty], depth: u32) -> Expr {
            let col = |r: &mut Rng| Expr::col(COLS[r.below(3) as usize]);
            let _ = &col;
            let lit = |r: &mut Rng, t: &Ty| -> Expr { match t { Ty::Opt(x) => match &**x { Ty::Text(_) => Expr::val(r.pick(&["a", "B", "abc", "1"]).to_string()), Ty::Bool(_) => Expr::val(r.chance(1, 2)), Ty::Float(_) => Expr::val((r.range(-20, 20) as f64) / 2.0), _ => Expr::val(r.range(-10, 10)) },
                Ty::Text(_) => Expr::val(r.pick(&["a", "B", "abc", "1"]).to_string()), Ty::Bool(_) => Expr::val(r.chance(1, 2)), Ty::Float(_) => Expr::val((r.range(-20, 20) as f64) / 2.0), _ => Expr::val(r.range(-10, 10)) } };
            match r.below(if depth == 0 { 5 } else { 8 }) {
                0..=2 => { let i = r.below(3) as usize;
                    // column against column only between columns of the same kind (a comparison of a text with a boolean column is not well-typed SQL)
                    let kind = |t: &Ty| -> u8 { let t = if let Ty::Opt(x) = t { &**x } else { t }; match t { Ty::Int(_) | Ty::Float(_) => 0, Ty::Text(_) => 1, Ty::Bool(_) => 2, _ => 3 } };
                    let same: Vec<usize> = (0..3).filter(|j| *j != i && kind(&tys[*j]) == kind(&tys[i])).collect();
                    let (l, rr) = (Expr::col(COLS[i]), if r.chance(1, 4) && !same.is_empty() { Expr::col(COLS[*r.pick(&same)]) } else { lit(r, &tys[i]) });
                    // a numeric operand under a function of one argument (decreasing, increasing, not monotone): the comparison bounds the image, not the column
                    let l = if kind(&tys[i]) == 0 && r.chance(1, 4) { match r.below(6) { 0 | 1 => Expr::opposite(l), 2 => Expr::exp(l), 3 => Expr::abs(l), 4 => Expr::sqrt(l), _ => Expr::opposite(Expr::opposite(l)) } } else { l };
                    let (l, rr) = if r.chance(1, 2) { (l, rr) } else { (rr, l) };
                    match r.below(5) { 0 => Expr::gt(l, rr), 1 => Expr::gt_eq(l, rr), 2 => Expr::lt(l, rr), 3 => Expr::lt_eq(l, rr), _ => Expr::eq(l, rr) } }
                3 => { let i = r.below(3) as usize; let vals: Vec<Expr> = (0..r.range(1, 3)).map(|_| lit(r, &tys[i])).collect();
                    match &vals[0] { Expr::Value(Value::Integer(_)) => Expr::in_list(Expr::col(COLS[i]), Expr::list(vals.iter().filter_map(|v| if let Expr::Value(Value::Integer(x)) = v { Some(**x) } else { None }).collect::<Vec<i64>>())),
                        Expr::Value(Value::Float(_)) => Expr::in_list(Expr::col(COLS[i]), Expr::list(vals.iter().filter_map(|v| if let Expr::Value(Value::Float(x)) = v { Some(**x) } else { None }).collect::<Vec<f64>>())),
                        Expr::Value(Value::Text(_)) => Expr::in_list(Expr::col(COLS[i]), Expr::list(vals.iter().filter_map(|v| if let Expr::Value(Value::Text(x)) = v { Some((**x).clone()) } else { None }).collect::<Vec<String>>())),
                        _ => Expr::eq(Expr::col(COLS[i]), vals[0].clone()) } }
                4 => if r.chance(1, 2) { Expr::not(Expr::is_null(col(r))) } else {
                    // a bare column as predicate (WHERE flag): boolean columns first, any column otherwise
                    let bools: Vec<usize> = (0..3).filter(|j| matches!(&tys[*j], Ty::Bool(_)) || matches!(&tys[*j], Ty::Opt(x) if matches!(**x, Ty::Bool(_)))).collect();
                    if !bools.is_empty() { Expr::col(COLS[*r.pick(&bools)]) } else { col(r) } },
                // a negation above a conjunction, a disjunction or a comparison (NOT BETWEEN is NOT (x >= lo AND x <= hi))
                5 if r.chance(1, 3) => Expr::not(gen_q(r, tys, depth - 1)),
                5 | 6 => Expr::and(gen_q(r, tys, depth - 1), gen_q(r, tys, depth - 1)),
                _ => Expr::or(gen_q(r, tys, depth - 1), gen_q(r, tys, depth - 1)),
            }
        }
        // one case in six: two nullable numeric columns of different ranges compared with each other
        let two_nullable = r.chance(1, 6);
        let (tys, st_ty) = if two_nullable {
            let a = if r.chance(1, 2) { Ty::Float(vec![(-(r.range(5, 15) as f64), r.range(5, 15) as f64)]) } else { Ty::Int(vec![(r.range(-15, -5), r.range(5, 15))]) };
            let b = if r.chance(1, 2) { Ty::Int(vec![(r.range(-6, 0), r.range(1, 6))]) } else { Ty::Float(vec![(-(r.range(1, 4) as f64), r.range(1, 4) as f64)]) };
            let t2 = vec![Ty::Opt(Box::new(a)), Ty::Opt(Box::new(b)), tys[2].clone()];
            let st2 = DataType::structured(COLS.iter().zip(t2.iter()).map(|(c, t)| (*c, to_dt(t))).collect::<Vec<_>>());
            (t2, st2) } else { (tys, st_ty) };
        let ex = if two_nullable { let (l, rr) = if r.chance(1, 2) { (Expr::col("a"), Expr::col("b")) } else { (Expr::col("b"), Expr::col("a")) };
            let cmp = match r.below(4) { 0 => Expr::gt(l, rr), 1 => Expr::gt_eq(l, rr), 2 => Expr::lt(l, rr), _ => Expr::lt_eq(l, rr) };
            if r.chance(1, 3) { Expr::and(cmp, gen_q(&mut r, &tys, 1)) } else { cmp } } else { gen_q(&mut r, &tys, 2) };
        if two_nullable { st.bump("two_nullable_columns_compared"); }
        let dbg = two_nullable && std::env::var("QV_DEBUG10").is_ok() && st.notes.len() < 6;
        let filtered = match catch_unwind(AssertUnwindSafe(|| st_ty.filter(&ex))) { Ok(f) => f, Err(e) => { st.bump("mixed_filter_panicked"); if st.notes.len() < 8 { st.notes.push(format!("filter panicked on {} with {}: {}", st_ty, ex, panic_msg(e))); } continue; } };
        let mut sat = 0;
        for _ in 0..(if two_nullable { 24 } else { 8 }) {
            let vals: Vec<Value> = tys.iter().map(|t| sample(t, &mut r)).collect();
            let row = Value::structured(COLS.iter().zip(vals.iter()).map(|(c, v)| (*c, v.clone())).collect::<Vec<_>>());
            if !st_ty.contains(&row) { continue; }
            let holds = catch_unwind(AssertUnwindSafe(|| ex.value(&row).ok())).unwrap_or(None);
            let is_true = matches!(&holds, Some(Value::Boolean(b)) if **b) || matches!(&holds, Some(Value::Optional(o)) if matches!(o.as_deref(), Some(Value::Boolean(b)) if **b));
            // two nullable numeric columns compared directly: the truth of the predicate is decided here, on the numbers
            // (the crate's evaluator gives up on some(int) against some(float))
            let is_true = if two_nullable && matches!(&ex, Expr::Function(f) if f.arguments().len() == 2 && f.arguments().iter().all(|a| matches!(a, Expr::Column(_)))) {
                let num = |v: &Value| -> Option<f64> { match v { Value::Optional(o) => match o.as_deref() { Some(Value::Float(x)) => Some(**x), Some(Value::Integer(x)) => Some(**x as f64), _ => None }, Value::Float(x) => Some(**x), Value::Integer(x) => Some(**x as f64), _ => None } };
                if let (Expr::Function(f), Some(x), Some(y)) = (&ex, num(&vals[0]), num(&vals[1])) {
                    let a0 = f.arguments(); let first_is_a = matches!(&a0[0], Expr::Column(c) if c.last().map(|n| n == "a").unwrap_or(false));
                    let (l, rr) = if first_is_a { (x, y) } else { (y, x) };
                    use qrlew::expr::function::Function as F;
                    match f.function() { F::Gt => l > rr, F::GtEq => l >= rr, F::Lt => l < rr, F::LtEq => l <= rr, _ => is_true }
                } else { false }
            } else { is_true };
            if dbg { st.notes.push(format!("{} | {} | row {} | holds {:?} | filtered {}", ex, st_ty, row, holds.as_ref().map(|h| h.to_string()), filtered)); }
            if is_true { sat += 1;
                if !member(&filtered, &row) { st.violation(json!({"kind":"satisfying-row-dropped","class":"mixed-columns","predicate":ex.to_string(),"type":st_ty.to_string(),"narrowed":filtered.to_string(),"row":row.to_string()})); } }
        }
        st.evaluations += 1;
        if sat > 0 && filtered != st_ty { st.distinct.insert(hash_str(&format!("{}{}", ex, st_ty))); }
        st.add("mixed_satisfying_rows", sat);
        if filtered != st_ty { st.bump("mixed_narrowed"); }
        if i < 1 { st.sample(json!({"stream":"mixed columns","predicate":ex.to_string(),"type":st_ty.to_string(),"narrowed":filtered.to_string()})); }
    }
    // ---- nullable integer columns: correspondence for QV/Expr/FilterNull.v (ranges by the same narrowing, optional flags
    //      never dropped where the model keeps them) and the row oracle with NULLs
    let mut ncases: Vec<String> = vec![];
    for i in 0..(if thorough { 20000 } else { 1500 }) {
        let mut r = rng.fork();
        let p = loop { let p = gen_p(&mut r, 2); fn has_bool(p: &P) -> bool { match p { P::BoolCol => true, P::And(a, b) | P::Or(a, b) => has_bool(a) || has_bool(b), _ => false } } if !has_bool(&p) { break p; } };
        let sets: Vec<Vec<(i64, i64)>> = (0..3).map(|_| int_set(&mut r)).collect();
        let opts: Vec<bool> = (0..3).map(|_| r.chance(1, 2)).collect();
        let dts: Vec<DataType> = sets.iter().zip(opts.iter()).map(|(s, o)| { let t = to_dt(&Ty::Int(s.clone())); if *o { DataType::optional(t) } else { t } }).collect();
        let st_ty = DataType::structured([("a", dts[0].clone()), ("b", dts[1].clone()), ("c", dts[2].clone())]);
        let ex = p_expr(&p);
        let flag_ivs = |t: &DataType, name: &str| -> Option<(bool, Vec<[i64; 2]>)> {
            if let DataType::Struct(s) = t { let f = s.data_type(name); let (o, inner) = match f.as_ref() { DataType::Optional(x) => (true, x.data_type().clone()), x => (false, x.clone()) };
                match inner { DataType::Integer(i) => Some((o, i.iter().map(|[a, b]| [*a, *b]).collect())), DataType::Null => Some((o, vec![])), _ => None } } else { None } };
        let filtered = match catch_unwind(AssertUnwindSafe(|| st_ty.filter(&ex))) { Ok(f) => f, Err(_) => { st.bump("nullable_filter_panicked"); continue; } };
        let tin: Option<Vec<(bool, Vec<[i64; 2]>)>> = COLS.iter().map(|c| flag_ivs(&st_ty, c)).collect();
        let tout: Option<Vec<(bool, Vec<[i64; 2]>)>> = COLS.iter().map(|c| flag_ivs(&filtered, c)).collect();
        // oracle: rows with NULLs on which the predicate is true stay in the narrowed type
        let mut sat = 0;
        for _ in 0..8 {
            let vs: Vec<Option<i64>> = sets.iter().zip(opts.iter()).map(|(s, o)| { if *o && r.chance(1, 3) { None } else { let (a, b) = *r.pick(s); Some(match r.below(4) { 0 => a, 1 => b, 2 => r.range(a, b), _ => r.range(a.max(-16), b.min(16).max(a.max(-16))) }) } }).collect();
            let val = |k: usize| -> Value { match (vs[k], opts[k]) { (None, _) => Value::none(), (Some(x), true) => Value::some(Value::integer(x)), (Some(x), false) => Value::integer(x) } };
            let row = Value::structured([("a", val(0)), ("b", val(1)), ("c", val(2))]);
            if !st_ty.contains(&row) { continue; }
            let holds = catch_unwind(AssertUnwindSafe(|| ex.value(&row).ok())).unwrap_or(None);
            if holds == Some(Value::boolean(true)) || holds == Some(Value::some(Value::boolean(true))) {
                sat += 1;
                if !member(&filtered, &row) { st.violation(json!({"kind":"satisfying-row-dropped","class":"nullable-integer-columns","predicate":ex.to_string(),"type":st_ty.to_string(),"narrowed":filtered.to_string(),"row":vs})); }
            }
        }
        st.add("nullable_satisfying_rows", sat);
        let pr = |l: &Vec<[i64; 2]>| coq_list(l, |[a, b]| format!("({},{})", coq_z(*a as i128), coq_z(*b as i128)));
        if let (Some(tin), Some(tout)) = (&tin, &tout) {
            ncases.push(format!("({}, {}, {})", coq_list(tin, |(o, l)| format!("({}, {})", coq_bool(*o), pr(l))), p_coq(&p), coq_list(tout, |(o, l)| format!("({}, {})", coq_bool(*o), pr(l)))));
            st.bump("nullable_cases");
        } else { st.bump("nullable_narrowed_type_not_integer_struct"); }
        st.evaluations += 1; st.distinct.insert(hash_str(&format!("null{}{}", ex, st_ty)));
        if i < 1 { st.sample(json!({"stream":"nullable integer columns","predicate":ex.to_string(),"type":st_ty.to_string(),"narrowed":filtered.to_string()})); }
    }
    let header = "From QV Require Import Intervals.Model Fn.IntExpr Expr.Filter Corr.Lib Corr.C10.";
    let fnull = write_shards(outdir, "c10_nullable", header, "c10_null_case", "filter_null_check", &ncases, if thorough { 1500 } else { 200 });
    let f = write_shards(outdir, "c10_filter", header, "c10_case", "filter_check", &cases, if thorough { 1500 } else { 200 });
    std::fs::write(format!("{}/c10_filter.json", outdir), serde_json::to_string(&cj).unwrap()).unwrap();
    let mut out = st.to_json("predicates of depth <= 2 (comparisons between columns, constants and integer expressions, IN lists, AND, OR, constants, unsupported sub-terms) over three integer interval-set columns x 8 rows (correspondence + oracle); predicates over nullable / float / text / boolean columns (oracle). non-trivial: the type is narrowed and some sampled row satisfies the predicate; distinct by (predicate, type)");
    out["shards"] = json!({"c10_filter": f, "c10_nullable": fnull});
    out
}
