//! C05 / C01 / C04 / C09: execution of privacy-unit-tracked and DP-rewritten queries on SQLite over
//! neighbouring databases.
use crate::c03::{gen_agg_query, gen_params};
use crate::c08::render;
use crate::common::*;
use crate::ir::*;
use crate::sqlite::*;
use crate::world::*;
use qrlew::{differential_privacy::DpParameters, privacy_unit_tracking::Strategy, relation::{Relation, Variant as _}};
use serde_json::json;
use std::collections::{BTreeMap, BTreeSet};
use std::panic::{catch_unwind, AssertUnwindSafe};

/// user ids present in the database (the privacy units)
pub fn units(data: &Data) -> Vec<i64> {
    let mut u: BTreeSet<i64> = BTreeSet::new();
    for row in data.get("users").map(|v| v.as_slice()).unwrap_or(&[]) { if let SV::Int(i) = row[0] { u.insert(i); } }
    u.into_iter().collect()
}
/// keep (keep = true) or delete (keep = false) the protected rows owned by unit u; cities is public
pub fn restrict(data: &Data, u: i64, keep: bool) -> Data {
    let sel = |owner: Option<i64>| -> bool { match owner { Some(o) => (o == u) == keep, None => !keep } };
    let mut out = Data::new();
    let users: Rows = data["users"].iter().filter(|r| sel(if let SV::Int(i) = r[0] { Some(i) } else { None })).cloned().collect();
    let order_owner: BTreeMap<i64, Option<i64>> = data["orders"].iter().filter_map(|r| if let SV::Int(id) = r[0] { Some((id, if let SV::Int(uid) = r[1] { Some(uid) } else { None })) } else { None }).collect();
    let orders: Rows = data["orders"].iter().filter(|r| sel(if let SV::Int(i) = r[1] { Some(i) } else { None })).cloned().collect();
    let items: Rows = data["items"].iter().filter(|r| sel(if let SV::Int(oid) = r[0] { order_owner.get(&oid).cloned().flatten() } else { None })).cloned().collect();
    out.insert("users".into(), users); out.insert("orders".into(), orders); out.insert("items".into(), items);
    out.insert("cities".into(), data["cities"].clone());
    out
}
/// data where order ids are unique and every order / item resolves along the privacy-unit path
pub fn gen_dp_data(r: &mut Rng, specs: &[TableSpec], max_rows: i64, units_max: i64) -> Data {
    let mut d = gen_data(r, specs, max_rows);
    // few users, so that units own several rows
    if let Some(us) = d.get_mut("users") { us.truncate(units_max.max(1) as usize); }
    let ids: Vec<SV> = d["users"].iter().map(|r| r[0].clone()).collect();
    if let Some(os) = d.get_mut("orders") { for o in os.iter_mut() { if !ids.is_empty() && r.chance(9, 10) { o[1] = r.pick(&ids).clone(); } } }
    let oids: Vec<SV> = d["orders"].iter().map(|r| r[0].clone()).collect();
    if let Some(is) = d.get_mut("items") { for i in is.iter_mut() { if !oids.is_empty() && r.chance(9, 10) { i[0] = r.pick(&oids).clone(); } } }
    d
}
fn unit_hash(db: &Db, u: i64) -> String { match db.query(&format!("SELECT MD5(CAST({} AS TEXT))", u)) { Ok((_, rows)) => rows[0][0].canon(), Err(_) => String::new() } }

fn col_index(names: &[String], n: &str) -> Option<usize> { names.iter().position(|x| x == n) }

// ---------------------------------------------------------------- C05
pub fn run_c05(outdir: &str, seed: u64, thorough: bool) -> serde_json::Value {
    let _ = outdir;
    let w = world();
    let mut rng = Rng::new(seed ^ 0xC05);
    let mut st = Stats::default();
    let n = if thorough { 4000 } else { 160 };
    let mut made = 0; let mut attempts = 0;
    let targeted: Vec<&str> = vec![
        "SELECT o.id AS i, u.age AS a FROM orders AS o FULL JOIN users AS u ON o.user_id = u.id",
        "SELECT o.id AS i, u.age AS a FROM orders AS o RIGHT JOIN users AS u ON o.user_id = u.id",
        "SELECT o.id AS i, u.age AS a FROM orders AS o LEFT JOIN users AS u ON o.user_id = u.id",
        "SELECT i.price AS p, o.amount AS a FROM items AS i FULL JOIN orders AS o ON i.order_id = o.id",
    ];
    while made < n && attempts < n * 30 {
        attempts += 1;
        let mut r = rng.fork();
        let depth = r.range(0, 2) as u32;
        let (sql, _) = if attempts <= targeted.len() { (targeted[attempts - 1].to_string(), vec![]) } else { let mut g = QGen::new(&mut r, &w.specs); g.allow_minmax = true; g.query(depth) };
        let rel = match catch_unwind(AssertUnwindSafe(|| to_relation(&w, &sql))) { Ok(Ok(rel)) => rel, _ => { continue; } };
        let hard = if attempts <= targeted.len() { true } else { r.chance(1, 2) };
        let res = catch_unwind(AssertUnwindSafe(|| rel.rewrite_as_privacy_unit_preserving(&w.relations, None, w.privacy_unit.clone(), crate::rules::dp_params(), Some(if hard { Strategy::Hard } else { Strategy::Soft }))));
        let rw = match res { Ok(Ok(rw)) => rw, Ok(Err(_)) => { st.bump("not_privacy_unit_preserving"); continue; } Err(_) => { st.bump("rewrite_panicked"); continue; } };
        // only relations that really carry a privacy unit (a public query stays as it is)
        let tracked = rw.relation().schema().iter().any(|f| f.name() == "_PRIVACY_UNIT_");
        if !tracked { st.bump("public_result"); continue; }
        // an inner DP aggregation (a published input of a join) depends on every unit by design: it is held
        // fixed in the statement; such rewritings are left to C01 / C02
        if !rw.dp_event().is_no_op() || !noise_sites(rw.relation()).is_empty() { st.bump("has_published_dp_input_skipped"); continue; }
        let text = render(rw.relation());
        made += 1;
        let shape = format!("{}{}", shape_class(&rel), if public_side_preserved(&rel, &w) { "-public-side-preserved" } else if tracked_both_sides(&rel, &w) { "-both-tracked" } else { "" });
        let shape = shape.as_str();
        for _ in 0..(if thorough { 3 } else { 2 }) {
            let data = gen_dp_data(&mut r, &w.specs, 10, 5);
            let db = Db::new(&w.specs, &data);
            let (names, rows) = match db.query(&text) { Ok(x) => x, Err(e) => { st.bump("rewritten_not_executable_on_sqlite"); if st.notes.len() < 5 { st.notes.push(format!("{} :: {}", e, sql)); } break; } };
            st.evaluations += 1; st.distinct.insert(hash_str(&format!("{}{:?}", sql, data)));
            let (ui, wi) = (col_index(&names, "_PRIVACY_UNIT_").unwrap(), col_index(&names, "_PRIVACY_UNIT_WEIGHT_"));
            st.bump(&format!("shape_{}", shape));
            // every row carries a unit and a weight
            if let Some(bad) = rows.iter().find(|row| row[ui] == SV::Null || wi.map(|w| row[w] == SV::Null).unwrap_or(false)) {
                st.violation(json!({"kind":"null-privacy-unit-or-weight","class":shape,"query":sql,"strategy":if hard {"Hard"} else {"Soft"},"row":bad.iter().map(|x| x.json()).collect::<Vec<_>>(),"columns":names}));
            }
            // the rows of unit u are exactly the rows of the rewriting on the database restricted to u
            for u in units(&data) {
                let du = restrict(&data, u, true);
                let dbu = Db::new(&w.specs, &du);
                let h = unit_hash(&db, u);
                let mine: Rows = rows.iter().filter(|row| row[ui].canon() == h).cloned().collect();
                let alone = match dbu.query(&text) { Ok((_, r2)) => r2, Err(_) => continue };
                // compare without the weight?  no: unit, weight and data columns all have to agree
                if bag(&mine) != bag(&alone) {
                    st.violation(json!({"kind":"tracked-row-depends-on-another-unit","class":shape,"query":sql,"strategy":if hard {"Hard"} else {"Soft"},"unit":u,
                        "rows_in_full_database":mine.iter().take(4).map(|r| r.iter().map(|x| x.json()).collect::<Vec<_>>()).collect::<Vec<_>>(),
                        "rows_on_restricted_database":alone.iter().take(4).map(|r| r.iter().map(|x| x.json()).collect::<Vec<_>>()).collect::<Vec<_>>(),
                        "counts":[mine.len(), alone.len()]}));
                    break;
                }
                st.bump("unit_comparisons");
            }
        }
        if made <= 2 { st.sample(json!({"query":sql,"strategy":if hard {"Hard"} else {"Soft"},"shape":shape})); }
    }
    let mut out = st.to_json("generated queries accepted by rewrite_as_privacy_unit_preserving (both strategies) whose result is privacy-unit tracked, executed on SQLite over generated databases with 1-5 units owning several rows along the two-step foreign-key path; for every unit: rows attributed to it vs the rewriting run on the database restricted to that unit; distinct by (query, database)");
    out["shards"] = json!({});
    out
}

/// some outer join has protected tables below both of its inputs
fn tracked_both_sides(rel: &Relation, w: &World) -> bool {
    use qrlew::relation::JoinOperator as J;
    fn protected(rel: &Relation, w: &World) -> bool { all_nodes(rel).iter().any(|n| matches!(n, Relation::Table(t) if w.specs.iter().any(|s| s.protected && s.name == t.name()))) }
    all_nodes(rel).iter().any(|n| matches!(n, Relation::Join(j) if matches!(j.operator(), J::LeftOuter(_) | J::RightOuter(_) | J::FullOuter(_)) && protected(j.left(), w) && protected(j.right(), w)))
}

/// some outer join preserves (keeps the unmatched rows of) an input with no protected table below it:
/// such rows have no privacy unit to carry
fn public_side_preserved(rel: &Relation, w: &World) -> bool {
    use qrlew::relation::JoinOperator as J;
    fn protected(rel: &Relation, w: &World) -> bool { all_nodes(rel).iter().any(|n| matches!(n, Relation::Table(t) if w.specs.iter().any(|s| s.protected && s.name == t.name()))) }
    // an aggregation without GROUP BY over protected data yields a row even on an empty input: treated like a public row
    fn always_one_row(rel: &Relation) -> bool { match rel { Relation::Reduce(r) => r.group_by().is_empty(), Relation::Map(m) => m.filter().is_none() && always_one_row(m.input()), _ => false } }
    all_nodes(rel).iter().any(|n| if let Relation::Join(j) = n { match j.operator() {
        J::LeftOuter(_) => !protected(j.left(), w) || always_one_row(j.left()), J::RightOuter(_) => !protected(j.right(), w) || always_one_row(j.right()),
        J::FullOuter(_) => !protected(j.left(), w) || !protected(j.right(), w) || always_one_row(j.left()) || always_one_row(j.right()), _ => false } } else { false })
}

/// structural class of a query, used to key the known findings narrowly
pub fn shape_class(rel: &Relation) -> String {
    use qrlew::relation::JoinOperator as J;
    let nodes = all_nodes(rel);
    let limit = nodes.iter().any(|n| matches!(n, Relation::Map(m) if m.limit().is_some() || m.offset().is_some()));
    let outer = nodes.iter().any(|n| matches!(n, Relation::Join(j) if matches!(j.operator(), J::LeftOuter(_) | J::RightOuter(_) | J::FullOuter(_))));
    let set = nodes.iter().any(|n| matches!(n, Relation::Set(_)));
    format!("{}{}{}", if limit { "limit" } else { "" }, if outer { if limit { "+outer-join" } else { "outer-join" } } else { "" }, if !limit && !outer { if set { "set" } else { "plain" } } else { "" })
}

// ---------------------------------------------------------------- C01
pub fn run_c01(outdir: &str, seed: u64, thorough: bool) -> serde_json::Value {
    let _ = outdir;
    let w = world();
    let mut rng = Rng::new(seed ^ 0xC01);
    let mut st = Stats::default();
    let n = if thorough { 3000 } else { 120 };
    let mut made = 0; let mut attempts = 0;
    while made < n && attempts < n * 30 {
        attempts += 1;
        let mut r = rng.fork();
        let sql = if r.chance(1, 6) { let k = r.range(1, 6); format!("SELECT SUM(x.amount) AS s FROM (SELECT t.amount AS amount FROM orders AS t ORDER BY t.amount DESC LIMIT {}) AS x", k) } else { gen_agg_query(&mut r) };
        let p: DpParameters = gen_params(&mut r);
        let rel = match catch_unwind(AssertUnwindSafe(|| to_relation(&w, &sql))) { Ok(Ok(rel)) => rel, _ => continue };
        let rw = match catch_unwind(AssertUnwindSafe(|| rel.rewrite_with_differential_privacy(&w.relations, None, w.privacy_unit.clone(), p.clone()))) { Ok(Ok(rw)) => rw, _ => { st.bump("rewrite_failed"); continue; } };
        let sites: Vec<NoiseSite> = noise_sites(rw.relation()).into_iter().filter(|s| s.column != "_COUNT_DISTINCT_PID_").collect();
        if sites.is_empty() { st.bump("no_noise_site"); continue; }
        made += 1;
        let shape = shape_class(&rel);
        // the relation each noise is added to
        let mut inputs: Vec<(String, Vec<NoiseSite>)> = vec![];
        for n in all_nodes(rw.relation()) { if let Relation::Map(m) = n { let here: Vec<NoiseSite> = sites.iter().filter(|s| s.map == m.name()).cloned().collect(); if !here.is_empty() { inputs.push((render(m.input()), here)); } } }
        for _ in 0..2 {
            let data = gen_dp_data(&mut r, &w.specs, 14, 4);
            // data may violate declared ranges and multiplicities: clipping must enforce the bound
            let mut data = data;
            if r.chance(1, 2) { if let Some(os) = data.get_mut("orders") { for o in os.iter_mut() { if r.chance(1, 3) { o[2] = SV::Real(*r.pick(&[5000.0, -700.0, 1e6])); } } } }
            let db = Db::new(&w.specs, &data);
            for (text, here) in inputs.iter() {
                let (names, base) = match db.query(text) { Ok(x) => x, Err(e) => { st.bump("pre_noise_not_executable"); if st.notes.len() < 5 { st.notes.push(format!("{} :: {}", e, sql)); } continue; } };
                st.evaluations += 1; st.distinct.insert(hash_str(&format!("{}{:?}", text, data)));
                let noised: Vec<usize> = here.iter().filter_map(|s| col_index(&names, &s.column)).collect();
                let keycols: Vec<usize> = (0..names.len()).filter(|i| !noised.contains(i)).collect();
                let key = |row: &Vec<SV>| keycols.iter().map(|i| row[*i].canon()).collect::<Vec<_>>().join("|");
                for u in units(&data) {
                    let dn = restrict(&data, u, false);
                    let dbn = Db::new(&w.specs, &dn);
                    let other = match dbn.query(text) { Ok((_, r2)) => r2, Err(_) => continue };
                    for s in here.iter() {
                        let Some(ci) = col_index(&names, &s.column) else { continue };
                        let Some(c) = s.clip else { st.bump("clip_not_identified"); continue };
                        let mut m: BTreeMap<String, (f64, f64)> = BTreeMap::new();
                        for row in base.iter() { m.entry(key(row)).or_insert((0.0, 0.0)).0 = row[ci].as_f64().unwrap_or(0.0); }
                        for row in other.iter() { m.entry(key(row)).or_insert((0.0, 0.0)).1 = row[ci].as_f64().unwrap_or(0.0); }
                        let norm = m.values().map(|(a, b)| (a - b) * (a - b)).sum::<f64>().sqrt();
                        st.bump("neighbour_comparisons");
                        if norm > c * (1.0 + 1e-9) + 1e-9 {
                            st.violation(json!({"kind":"sensitivity-exceeds-clip-bound","class":shape,"query":sql,"column":s.column,"clip":c,"sigma":s.sigma,"l2_change":norm,"unit":u,
                                "groups": m.iter().take(5).map(|(k, v)| json!([k, v.0, v.1])).collect::<Vec<_>>()}));
                        }
                    }
                }
            }
        }
        if made <= 2 { st.sample(json!({"query":sql,"sites":sites.iter().map(|s| json!({"column":s.column,"sigma":s.sigma,"clip":s.clip})).collect::<Vec<_>>()})); }
    }
    let mut out = st.to_json("DP-compiled aggregation queries (and LIMIT-windowed sums) x DpParameters; the input of every noise-adding map is executed on SQLite on a generated database (values possibly outside the declared ranges, several rows per unit) and on each neighbour obtained by deleting one unit; L2 norm over groups of the change of every noised column against the clipping constant read off the IR; distinct by (pre-noise query, database)");
    out["shards"] = json!({});
    out
}
