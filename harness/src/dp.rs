//! C05 / C01 / C04 / C09: execution of privacy-unit-tracked and DP-rewritten queries on SQLite over
//! neighbouring databases.
use crate::c03::{gen_agg_query, gen_params};
use crate::c08::render;
use crate::common::*;
use crate::c03::fq;
use crate::ir::*;
use crate::sqlite::*;
use crate::world::*;
use qrlew::{differential_privacy::DpParameters, privacy_unit_tracking::Strategy, relation::{Relation, Variant as _}};
use serde_json::json;
use std::collections::{BTreeMap, BTreeSet};
use std::panic::{catch_unwind, AssertUnwindSafe};

/// user ids present in the database (the privacy units)
pub fn units(data: &Data) -> Vec<i64> {
    let mut u: BTreeSet<i64> = BTreeSet::new();
    for row in data.get("users").map(|v| v.as_slice()).unwrap_or(&[]) { if let SV::Int(i) = row[0] { u.insert(i); } }
    u.into_iter().collect()
}
/// keep (keep = true) or delete (keep = false) the protected rows owned by unit u; cities is public
pub fn restrict(data: &Data, u: i64, keep: bool) -> Data {
    let sel = |owner: Option<i64>| -> bool { match owner { Some(o) => (o == u) == keep, None => !keep } };
    let mut out = Data::new();
    let users: Rows = data["users"].iter().filter(|r| sel(if let SV::Int(i) = r[0] { Some(i) } else { None })).cloned().collect();
    let order_owner: BTreeMap<i64, Option<i64>> = data["orders"].iter().filter_map(|r| if let SV::Int(id) = r[0] { Some((id, if let SV::Int(uid) = r[1] { Some(uid) } else { None })) } else { None }).collect();
    let orders: Rows = data["orders"].iter().filter(|r| sel(if let SV::Int(i) = r[1] { Some(i) } else { None })).cloned().collect();
    let items: Rows = data["items"].iter().filter(|r| sel(if let SV::Int(oid) = r[0] { order_owner.get(&oid).cloned().flatten() } else { None })).cloned().collect();
    out.insert("users".into(), users); out.insert("orders".into(), orders); out.insert("items".into(), items);
    out.insert("cities".into(), data["cities"].clone());
    out
}
/// data where order ids are unique and every order / item resolves along the privacy-unit path
pub fn gen_dp_data(r: &mut Rng, specs: &[TableSpec], max_rows: i64, units_max: i64) -> Data {
    let mut d = gen_data(r, specs, max_rows);
    // few users, so that units own several rows
    if let Some(us) = d.get_mut("users") { us.truncate(units_max.max(1) as usize); }
    let ids: Vec<SV> = d["users"].iter().map(|r| r[0].clone()).collect();
    if let Some(os) = d.get_mut("orders") { for o in os.iter_mut() { if !ids.is_empty() && r.chance(9, 10) { o[1] = r.pick(&ids).clone(); } } }
    let oids: Vec<SV> = d["orders"].iter().map(|r| r[0].clone()).collect();
    if let Some(is) = d.get_mut("items") { for i in is.iter_mut() { if !oids.is_empty() && r.chance(9, 10) { i[0] = r.pick(&oids).clone(); } } }
    d
}
/// a fixed small database: user 1 owns the five largest amounts, two users share a score
pub fn pinned_data() -> Data {
    let t = |x: &str| SV::Text(x.into());
    let mut d = Data::new();
    d.insert("users".into(), vec![
        vec![SV::Int(1), SV::Int(30), t("Paris"), SV::Real(100.0), SV::Real(2.5)], vec![SV::Int(2), SV::Int(40), t("Lyon"), SV::Real(200.0), SV::Real(2.5)],
        vec![SV::Int(3), SV::Int(50), t("Nice"), SV::Real(300.0), SV::Real(1.0)], vec![SV::Int(4), SV::Int(25), t("Paris"), SV::Real(150.0), SV::Null]]);
    let mut orders = vec![];
    for (i, (u, a)) in [(1, 500.0), (1, 500.0), (1, 500.0), (1, 500.0), (1, 500.0), (2, 400.0), (2, 400.0), (3, 400.0), (3, 400.0), (4, 400.0)].iter().enumerate() {
        orders.push(vec![SV::Int(i as i64 + 1), SV::Int(*u), SV::Real(*a), t(["new", "paid", "sent"][i % 3])]); }
    d.insert("orders".into(), orders);
    d.insert("items".into(), vec![vec![SV::Int(1), SV::Real(10.0), SV::Int(2)], vec![SV::Int(6), SV::Real(20.0), SV::Null], vec![SV::Int(8), SV::Real(30.0), SV::Int(2)]]);
    d.insert("cities".into(), vec![vec![t("Paris"), SV::Int(10)], vec![t("Lyon"), SV::Int(20)]]);
    d
}
fn unit_hash(db: &Db, u: i64) -> String { match db.query(&format!("SELECT MD5(CAST({} AS TEXT))", u)) { Ok((_, rows)) => rows[0][0].canon(), Err(_) => String::new() } }

fn col_index(names: &[String], n: &str) -> Option<usize> { names.iter().position(|x| x == n) }

// ---------------------------------------------------------------- C05
pub fn run_c05(outdir: &str, seed: u64, thorough: bool) -> serde_json::Value {
    let _ = outdir;
    let w = world();
    let mut rng = Rng::new(seed ^ 0xC05);
    let mut st = Stats::default();
    let n = if thorough { 4000 } else { 160 };
    let mut cases: Vec<String> = vec![]; let mut cj: Vec<serde_json::Value> = vec![];
    let mut made = 0; let mut attempts = 0;
    let targeted: Vec<&str> = vec![
        "SELECT o.id AS i, u.age AS a FROM orders AS o FULL JOIN users AS u ON o.user_id = u.id",
        "SELECT o.id AS i, u.age AS a FROM orders AS o RIGHT JOIN users AS u ON o.user_id = u.id",
        "SELECT o.id AS i, u.age AS a FROM orders AS o LEFT JOIN users AS u ON o.user_id = u.id",
        "SELECT i.price AS p, o.amount AS a FROM items AS i FULL JOIN orders AS o ON i.order_id = o.id",
        "SELECT o.id AS i, c.city AS c FROM orders AS o RIGHT JOIN cities AS c ON o.id = c.pop",
        "SELECT t.amount AS a FROM orders AS t ORDER BY t.amount DESC LIMIT 3",
        "SELECT x.a AS a, u.age AS g FROM (SELECT t.amount AS a, t.user_id AS uid FROM orders AS t ORDER BY t.amount DESC LIMIT 3) AS x JOIN users AS u ON x.uid = u.id",
        // set operations whose sides are tracked by different operators (a per-unit aggregation on one side, a projection on the other)
        "SELECT DISTINCT t.status AS s, t.amount AS a FROM orders AS t UNION ALL SELECT o.status AS s, o.amount AS a FROM orders AS o WHERE o.amount > 100",
        "SELECT o.status AS s, o.amount AS a FROM orders AS o WHERE o.amount > 100 UNION ALL SELECT DISTINCT t.status AS s, t.amount AS a FROM orders AS t",
        "SELECT COUNT(t.status) AS s, SUM(t.amount) AS a FROM orders AS t GROUP BY t.status UNION ALL SELECT o.id AS s, o.amount AS a FROM orders AS o",
        "SELECT DISTINCT t.city AS c FROM users AS t UNION SELECT DISTINCT u.city AS c FROM users AS u WHERE u.age > 30",
        "SELECT DISTINCT t.age AS c FROM users AS t EXCEPT SELECT o.user_id AS c FROM orders AS o",
    ];
    while made < n && attempts < n * 30 {
        attempts += 1;
        let mut r = rng.fork();
        let depth = r.range(0, 2) as u32;
        let (sql, _) = if attempts <= targeted.len() { (targeted[attempts - 1].to_string(), vec![]) } else { let mut g = QGen::new(&mut r, &w.specs); g.allow_minmax = true; g.query(depth) };
        let rel = match catch_unwind(AssertUnwindSafe(|| to_relation(&w, &sql))) { Ok(Ok(rel)) => rel, _ => { continue; } };
        let hard = if attempts <= targeted.len() { true } else { r.chance(1, 2) };
        let res = catch_unwind(AssertUnwindSafe(|| rel.rewrite_as_privacy_unit_preserving(&w.relations, None, w.privacy_unit.clone(), crate::rules::dp_params(), Some(if hard { Strategy::Hard } else { Strategy::Soft }))));
        let rw = match res { Ok(Ok(rw)) => rw, Ok(Err(_)) => { st.bump("not_privacy_unit_preserving"); continue; } Err(_) => { st.bump("rewrite_panicked"); continue; } };
        // only relations that really carry a privacy unit (a public query stays as it is)
        let tracked = rw.relation().schema().iter().any(|f| f.name() == "_PRIVACY_UNIT_");
        if !tracked {
            // a rewriting accepted as privacy-unit preserving over a protected table without a unit column attributes its rows to nobody
            if all_nodes(&rel).iter().any(|n| matches!(n, Relation::Table(t) if w.specs.iter().any(|s| s.protected && s.name == t.name()))) {
                st.violation(json!({"kind":"privacy-unit-preserving-rewriting-without-unit-column","query":sql,"strategy":if hard {"Hard"} else {"Soft"},"columns":rw.relation().schema().iter().map(|f| f.name().to_string()).collect::<Vec<_>>()}));
            }
            st.bump("public_result"); continue; }
        // an inner DP aggregation (a published input of a join) depends on every unit by design: it is held
        // fixed in the statement; such rewritings are left to C01 / C02
        if !rw.dp_event().is_no_op() || !noise_sites(rw.relation()).is_empty() { st.bump("has_published_dp_input_skipped"); continue; }
        let text = render(rw.relation());
        made += 1;
        let shape = format!("{}{}", shape_class(&rel), if public_side_preserved(&rel, &w) { "-public-side-preserved" } else if tracked_both_sides(&rel, &w) { "-both-tracked" } else { "" });
        let shape = shape.as_str();
        let skeleton = track_skeleton(rw.relation());
        let before = st.violations_seen();
        for _ in 0..(if thorough { 3 } else { 2 }) {
            let data = gen_dp_data(&mut r, &w.specs, 10, 5);
            let db = Db::new(&w.specs, &data);
            let (names, rows) = match db.query(&text) { Ok(x) => x, Err(e) => { st.bump("rewritten_not_executable_on_sqlite"); if st.notes.len() < 5 { st.notes.push(format!("{} :: {}", e, sql)); } break; } };
            st.evaluations += 1; st.distinct.insert(hash_str(&format!("{}{:?}", sql, data)));
            let (ui, wi) = (col_index(&names, "_PRIVACY_UNIT_").unwrap(), col_index(&names, "_PRIVACY_UNIT_WEIGHT_"));
            st.bump(&format!("shape_{}", shape));
            // every row carries a unit and a weight
            if let Some(bad) = rows.iter().find(|row| row[ui] == SV::Null || wi.map(|w| row[w] == SV::Null).unwrap_or(false)) {
                st.violation(json!({"kind":"null-privacy-unit-or-weight","class":shape,"query":sql,"strategy":if hard {"Hard"} else {"Soft"},"row":bad.iter().map(|x| x.json()).collect::<Vec<_>>(),"columns":names}));
            }
            // the rows of unit u are exactly the rows of the rewriting on the database restricted to u
            for u in units(&data) {
                let du = restrict(&data, u, true);
                let dbu = Db::new(&w.specs, &du);
                let h = unit_hash(&db, u);
                let mine: Rows = rows.iter().filter(|row| row[ui].canon() == h).cloned().collect();
                let alone = match dbu.query(&text) { Ok((_, r2)) => r2, Err(_) => continue };
                // compare without the weight?  no: unit, weight and data columns all have to agree
                if bag(&mine) != bag(&alone) {
                    st.violation(json!({"kind":"tracked-row-depends-on-another-unit","class":shape,"query":sql,"strategy":if hard {"Hard"} else {"Soft"},"unit":u,
                        "rows_in_full_database":mine.iter().take(4).map(|r| r.iter().map(|x| x.json()).collect::<Vec<_>>()).collect::<Vec<_>>(),
                        "rows_on_restricted_database":alone.iter().take(4).map(|r| r.iter().map(|x| x.json()).collect::<Vec<_>>()).collect::<Vec<_>>(),
                        "counts":[mine.len(), alone.len()]}));
                    break;
                }
                st.bump("unit_comparisons");
            }
        }
        let listed = shape.contains("public-side-preserved") || shape.starts_with("limit");
        st.bump(&format!("skeleton_{}", if skeleton.contains("SBad") { "outside_operators" } else if skeleton.contains("SMap true") { "limit" } else if skeleton.contains("SJoinPub true") { "public_side_kept" } else if skeleton.contains("SJoin false") { "join_without_unit_equality" } else if skeleton.contains("SReduce false") { "reduce_without_unit" } else { "inside_fragment" }));
        cases.push(format!("({}, {}, {})", skeleton, coq_bool(st.violations_seen() > before), coq_bool(listed)));
        cj.push(json!({"query":sql,"strategy":if hard {"Hard"} else {"Soft"},"skeleton":skeleton,"class":shape}));
        if made <= 2 { st.sample(json!({"query":sql,"strategy":if hard {"Hard"} else {"Soft"},"shape":shape,"skeleton":skeleton})); }
    }
    attribution_natural_keys(&mut st, &mut rng, thorough);
    tracked_under_qualified_paths(&mut st);
    let header = "From Coq Require Import List Bool. Import ListNotations.\nFrom QV Require Import Rel.Track Corr.Lib Corr.C05.";
    let f = write_shards(outdir, "c05_skeleton", header, "c05_case", "check", &cases, 400);
    std::fs::write(format!("{}/c05_skeleton.json", outdir), serde_json::to_string(&cj).unwrap()).unwrap();
    let mut out = st.to_json("generated queries accepted by rewrite_as_privacy_unit_preserving (both strategies) whose result is privacy-unit tracked, executed on SQLite over generated databases with 1-5 units owning several rows along the two-step foreign-key path; for every unit: rows attributed to it vs the rewriting run on the database restricted to that unit; distinct by (query, database)");
    out["shards"] = json!({"c05_skeleton": f});
    out
}

/// table-level attribution along foreign keys that refer to natural keys: every row of a tracked table carries the
/// unit found by following the declared path on the data (computed here independently), once
fn attribution_natural_keys(st: &mut Stats, rng: &mut Rng, thorough: bool) {
    let w = world_natural_keys();
    let queries = ["SELECT l.price AS p FROM lines AS l", "SELECT c.id AS p FROM carts AS c", "SELECT t.age AS p FROM people AS t",
        "SELECT l.price AS p FROM lines AS l JOIN carts AS c ON l.cart_ref = c.cart_no", "SELECT l.price + 1 AS p FROM lines AS l WHERE l.price > 10"];
    for (qi, sql) in queries.iter().enumerate() {
        for hard in [true, false] {
            let Ok(Ok(rel)) = catch_unwind(AssertUnwindSafe(|| to_relation(&w, sql))) else { st.bump("natural_keys_query_not_compiled"); continue };
            let res = catch_unwind(AssertUnwindSafe(|| rel.rewrite_as_privacy_unit_preserving(&w.relations, None, w.privacy_unit.clone(), crate::rules::dp_params(), Some(if hard { Strategy::Hard } else { Strategy::Soft }))));
            let Ok(Ok(rw)) = res else { st.bump("natural_keys_not_rewritten"); continue };
            if !rw.relation().schema().iter().any(|f| f.name() == "_PRIVACY_UNIT_") { st.bump("natural_keys_public_result"); continue; }
            let text = render(rw.relation());
            for _ in 0..(if thorough { 40 } else { 6 }) {
                let mut r = rng.fork();
                // people, carts (surrogate id and natural cart_no are different permutations of the same range), lines
                let np = r.range(1, 5); let mut pids: Vec<i64> = (0..=20).collect(); shuffle(&mut r, &mut pids); pids.truncate(np as usize);
                let nc = r.range(0, 7); let mut ids: Vec<i64> = (0..=20).collect(); shuffle(&mut r, &mut ids); let mut nos: Vec<i64> = (0..=20).collect(); shuffle(&mut r, &mut nos);
                let carts: Vec<(i64, i64, i64)> = (0..nc as usize).map(|k| (ids[k], nos[k], if r.chance(9, 10) { *r.pick(&pids) } else { r.range(0, 20) })).collect();
                let lines: Vec<(i64, f64)> = (0..r.range(0, 10)).map(|_| (if !carts.is_empty() && r.chance(9, 10) { r.pick(&carts).1 } else { r.range(0, 20) }, (r.range(0, 1000) as f64) / 10.0)).collect();
                let mut data = Data::new();
                data.insert("people".into(), pids.iter().map(|p| vec![SV::Int(*p), SV::Int(18 + (*p % 60))]).collect());
                data.insert("carts".into(), carts.iter().map(|c| vec![SV::Int(c.0), SV::Int(c.1), SV::Int(c.2)]).collect());
                data.insert("lines".into(), lines.iter().map(|l| vec![SV::Int(l.0), SV::Real(l.1)]).collect());
                let db = Db::new(&w.specs, &data);
                let (names, rows) = match db.query(&text) { Ok(x) => x, Err(_) => { st.bump("natural_keys_not_executable_on_sqlite"); break; } };
                st.evaluations += 1; st.distinct.insert(hash_str(&format!("{}{}{:?}", sql, hard, data))); st.bump("natural_keys_attributions");
                let (ui, pi) = (col_index(&names, "_PRIVACY_UNIT_").unwrap(), col_index(&names, "p").unwrap());
                // the owner of a cart is its pid when that person exists; of a line, the owner of the cart with that cart_no
                let cart_owner = |c: &(i64, i64, i64)| -> Option<i64> { if pids.contains(&c.2) { Some(c.2) } else { None } };
                let line_owner = |l: &(i64, f64)| -> Option<i64> { carts.iter().find(|c| c.1 == l.0).and_then(|c| cart_owner(c)) };
                let mut want: Vec<(String, String)> = match qi {
                    0 | 3 => lines.iter().filter_map(|l| line_owner(l).map(|o| (unit_hash(&db, o), SV::Real(l.1).canon()))).collect(),
                    1 => carts.iter().filter_map(|c| cart_owner(c).map(|o| (unit_hash(&db, o), SV::Int(c.0).canon()))).collect(),
                    2 => pids.iter().map(|p| (unit_hash(&db, *p), SV::Int(18 + (*p % 60)).canon())).collect(),
                    _ => lines.iter().filter(|l| l.1 > 10.0).filter_map(|l| line_owner(l).map(|o| (unit_hash(&db, o), SV::Real(l.1 + 1.0).canon()))).collect(),
                };
                let mut got: Vec<(String, String)> = rows.iter().map(|row| (row[ui].canon(), row[pi].canon())).collect();
                want.sort(); got.sort();
                if want != got {
                    st.violation(json!({"kind":"row-attributed-to-another-unit","class":"foreign-key-to-natural-key","query":sql,"strategy":if hard {"Hard"} else {"Soft"},
                        "people":pids,"carts":carts,"lines":lines,"expected_rows":want.len(),"returned_rows":got.len(),"rewritten":text.chars().take(700).collect::<String>()}));
                    break;
                }
            }
        }
    }
}
/// tables registered under a schema-qualified path and named after it (shop_people), protected through the last
/// component of the path (people): each of them, alone or joined, comes out privacy-unit tracked
fn tracked_under_qualified_paths(st: &mut Stats) {
    use qrlew::{builder::{Ready as _, With as _}, hierarchy::Hierarchy, privacy_unit_tracking::PrivacyUnit, relation::Schema, DataType};
    use std::sync::Arc;
    let mk = |t: &str, cols: Vec<(&str, DataType)>| -> (Vec<String>, Arc<Relation>) {
        let schema: Schema = cols.into_iter().collect();
        (vec!["shop".to_string(), t.to_string()], Arc::new(Relation::table().path(["shop", t]).schema(schema).size(100).build())) };
    let rels: Hierarchy<Arc<Relation>> = vec![
        mk("people", vec![("pid", DataType::integer_interval(0, 20)), ("age", DataType::integer_interval(18, 90))]),
        mk("carts", vec![("id", DataType::integer_interval(0, 20)), ("pid", DataType::integer_interval(0, 20)), ("total", DataType::float_interval(0.0, 100.0))])].into_iter().collect();
    let pu = PrivacyUnit::from(vec![("people", vec![], "pid"), ("carts", vec![("pid", "people", "pid")], "pid")]);
    let queries = ["SELECT p.age AS a FROM shop.people AS p", "SELECT c.total AS a FROM shop.carts AS c", "SELECT c.total AS a, p.age AS b FROM shop.carts AS c JOIN shop.people AS p ON c.total > p.age",
        "SELECT c.total AS a FROM shop.carts AS c WHERE c.total > 3"];
    for sql in queries.iter() {
        for hard in [true, false] {
            let res = catch_unwind(AssertUnwindSafe(|| {
                let q = qrlew::sql::parse(sql).map_err(|e| e.to_string())?;
                let rel = Relation::try_from(q.with(&rels)).map_err(|e| e.to_string())?;
                rel.rewrite_as_privacy_unit_preserving(&rels, None, pu.clone(), crate::rules::dp_params(), Some(if hard { Strategy::Hard } else { Strategy::Soft })).map_err(|e| e.to_string())
            }));
            st.evaluations += 1; st.distinct.insert(hash_str(&format!("qualified{}{}", sql, hard))); st.bump("qualified_path_rewritings");
            if let Ok(Ok(rw)) = res {
                let tracked = rw.relation().schema().iter().any(|f| f.name() == "_PRIVACY_UNIT_");
                // a join of two tracked relations compares their units
                let joins_ok = crate::ir::all_nodes(rw.relation()).iter().all(|n| match n { Relation::Join(j) => {
                    let both = j.left().schema().iter().any(|f| f.name() == "_PRIVACY_UNIT_") && j.right().schema().iter().any(|f| f.name() == "_PRIVACY_UNIT_");
                    !both || j.operator().to_string().contains("_PRIVACY_UNIT_") || format!("{:?}", j.operator()).matches("_PRIVACY_UNIT_").count() >= 2 }, _ => true });
                // a tracked relation is never joined with an untracked read of a protected table (both tables are protected here)
                let has_pu = |x: &Relation| x.schema().iter().any(|f| f.name() == "_PRIVACY_UNIT_");
                let reads_table = |x: &Relation| crate::ir::all_nodes(x).iter().any(|n| matches!(n, Relation::Table(_)));
                let reads_raw = crate::ir::all_nodes(rw.relation()).iter().any(|n| match n { Relation::Join(j) =>
                    (has_pu(j.left()) && !has_pu(j.right()) && reads_table(j.right())) || (has_pu(j.right()) && !has_pu(j.left()) && reads_table(j.left())), _ => false });
                if !tracked || !joins_ok || reads_raw {
                    st.violation(json!({"kind":"protected-table-not-tracked","class":"schema-qualified-path","query":sql,"strategy":if hard {"Hard"} else {"Soft"},"result_tracked":tracked,"joins_compare_units":joins_ok,"join_reads_raw_table":reads_raw,
                        "rewritten":render(rw.relation()).chars().take(600).collect::<String>()}));
                }
            } else { st.bump("qualified_path_not_rewritten"); }
        }
    }
}
fn shuffle(r: &mut Rng, v: &mut Vec<i64>) { for i in (1..v.len()).rev() { let j = r.below(i as u64 + 1) as usize; v.swap(i, j); } }

/// the skeleton of a privacy-unit preserving relation, in the syntax of QV/Rel/Track.v (skel)
pub fn track_skeleton(rel: &Relation) -> String {
    use qrlew::expr::{Expr, function::Function};
    use qrlew::relation::{JoinOperator as J, SetOperator};
    fn tracked(rel: &Relation) -> bool { rel.schema().iter().any(|f| f.name().contains("_PRIVACY_UNIT_")) }
    fn is_pu_col(e: &Expr) -> bool { match e { Expr::Column(c) => c.last().map(|n| n.contains("_PRIVACY_UNIT_") && !n.contains("WEIGHT")).unwrap_or(false), _ => false } }
    fn passes_unit(e: &Expr) -> bool { match e { Expr::Function(f) if f.function() == Function::Coalesce => f.arguments().iter().all(|a| passes_unit(a)), e => is_pu_col(e) } }
    fn equates_units(e: &Expr) -> bool { match e {
        Expr::Function(f) if f.function() == Function::And => f.arguments().iter().any(|a| equates_units(a)),
        Expr::Function(f) if f.function() == Function::Eq => { let a = f.arguments(); a.len() == 2 && is_pu_col(&a[0]) && is_pu_col(&a[1]) }
        _ => false } }
    fn b(x: bool) -> &'static str { if x { "true" } else { "false" } }
    fn sk(rel: &Relation) -> String {
        match rel {
            Relation::Map(m) => {
                if !tracked(m.input()) { return "SSrc".into(); }
                let ok = m.schema().iter().zip(m.projection().iter()).filter(|(f, _)| f.name() == "_PRIVACY_UNIT_").all(|(_, e)| passes_unit(e));
                if !ok { return "SBad".into(); }
                let inner = format!("(SMap {} {})", b(m.limit().is_some() || m.offset().is_some()), sk(m.input()));
                if m.filter().is_some() { format!("(SFilter {})", inner) } else { inner }
            }
            Relation::Reduce(r) => { if !tracked(r.input()) { return "SBad".into(); }
                format!("(SReduce {} {})", b(r.group_by().iter().any(|c| c.last().map(|n| n == "_PRIVACY_UNIT_").unwrap_or(false))), sk(r.input())) }
            Relation::Join(j) => {
                let (tl, tr) = (tracked(j.left()), tracked(j.right()));
                let cond = match j.operator() { J::Inner(e) | J::LeftOuter(e) | J::RightOuter(e) | J::FullOuter(e) => Some(e.clone()), J::Cross => None };
                match (tl, tr) {
                    (true, true) => format!("(SJoin {} {} {})", b(cond.map(|e| equates_units(&e)).unwrap_or(false)), sk(j.left()), sk(j.right())),
                    (true, false) => format!("(SJoinPub {} {})", b(matches!(j.operator(), J::RightOuter(_) | J::FullOuter(_))), sk(j.left())),
                    (false, true) => format!("(SJoinPub {} {})", b(matches!(j.operator(), J::LeftOuter(_) | J::FullOuter(_))), sk(j.right())),
                    _ => "SBad".into(),
                }
            }
            Relation::Set(s) => { if !(tracked(s.left()) && tracked(s.right())) { return "SBad".into(); }
                match s.operator() { SetOperator::Union => format!("(SUnion {} {})", sk(s.left()), sk(s.right())), _ => format!("(SSetOp {} {})", sk(s.left()), sk(s.right())) } }
            _ => "SBad".into(),
        }
    }
    sk(rel)
}

/// some outer join has protected tables below both of its inputs
fn tracked_both_sides(rel: &Relation, w: &World) -> bool {
    use qrlew::relation::JoinOperator as J;
    fn protected(rel: &Relation, w: &World) -> bool { all_nodes(rel).iter().any(|n| matches!(n, Relation::Table(t) if w.specs.iter().any(|s| s.protected && s.name == t.name()))) }
    all_nodes(rel).iter().any(|n| matches!(n, Relation::Join(j) if matches!(j.operator(), J::LeftOuter(_) | J::RightOuter(_) | J::FullOuter(_)) && protected(j.left(), w) && protected(j.right(), w)))
}

/// some outer join preserves (keeps the unmatched rows of) an input with no protected table below it:
/// such rows have no privacy unit to carry
fn public_side_preserved(rel: &Relation, w: &World) -> bool {
    use qrlew::relation::JoinOperator as J;
    fn protected(rel: &Relation, w: &World) -> bool { all_nodes(rel).iter().any(|n| matches!(n, Relation::Table(t) if w.specs.iter().any(|s| s.protected && s.name == t.name()))) }
    // an aggregation without GROUP BY over protected data yields a row even on an empty input: treated like a public row
    fn always_one_row(rel: &Relation) -> bool { match rel { Relation::Reduce(r) => r.group_by().is_empty(), Relation::Map(m) => m.filter().is_none() && always_one_row(m.input()), _ => false } }
    all_nodes(rel).iter().any(|n| if let Relation::Join(j) = n { match j.operator() {
        J::LeftOuter(_) => !protected(j.left(), w) || always_one_row(j.left()), J::RightOuter(_) => !protected(j.right(), w) || always_one_row(j.right()),
        J::FullOuter(_) => !protected(j.left(), w) || !protected(j.right(), w) || always_one_row(j.left()) || always_one_row(j.right()), _ => false } } else { false })
}

/// structural class of a query, used to key the known findings narrowly
pub fn shape_class(rel: &Relation) -> String {
    use qrlew::relation::JoinOperator as J;
    let nodes = all_nodes(rel);
    let limit = nodes.iter().any(|n| matches!(n, Relation::Map(m) if m.limit().is_some() || m.offset().is_some()));
    let outer = nodes.iter().any(|n| matches!(n, Relation::Join(j) if matches!(j.operator(), J::LeftOuter(_) | J::RightOuter(_) | J::FullOuter(_))));
    let set = nodes.iter().any(|n| matches!(n, Relation::Set(_)));
    format!("{}{}{}", if limit { "limit" } else { "" }, if outer { if limit { "+outer-join" } else { "outer-join" } } else { "" }, if !limit && !outer { if set { "set" } else { "plain" } } else { "" })
}

// ---------------------------------------------------------------- C01
pub fn run_c01(outdir: &str, seed: u64, thorough: bool) -> serde_json::Value {
    let _ = outdir;
    let w = world();
    let mut rng = Rng::new(seed ^ 0xC01);
    let mut st = Stats::default();
    let n = if thorough { 3000 } else { 120 };
    let mut cases: Vec<String> = vec![]; let cap_cases = if thorough { 20000 } else { 1500 };
    let mut unclipped: Vec<String> = vec![]; let mut problems: Vec<serde_json::Value> = vec![];
    let mut made = 0; let mut attempts = 0;
    while made < n && attempts < n * 30 {
        attempts += 1;
        let mut r = rng.fork();
        let pinned = attempts == 1;
        // joins of two tracked relations on an attribute that is not the unit (rows of different units can match)
        let attr_joins = ["SELECT COUNT(a.id) AS n FROM users AS a JOIN users AS b ON a.city = b.city", "SELECT SUM(o.amount) AS s FROM orders AS o JOIN orders AS p ON o.status = p.status",
            "SELECT a.city AS k, SUM(b.income) AS s FROM users AS a JOIN users AS b ON a.age = b.age GROUP BY a.city", "SELECT COUNT(o.id) AS n, SUM(u.income) AS s FROM orders AS o JOIN users AS u ON o.id = u.age",
            "SELECT SUM(i.price) AS s FROM items AS i JOIN orders AS o ON i.qty = o.user_id"];
        let sql = if pinned || r.chance(1, 6) { let k = if pinned { 5 } else { r.range(1, 6) }; format!("SELECT SUM(x.amount) AS s FROM (SELECT t.amount AS amount FROM orders AS t ORDER BY t.amount DESC LIMIT {}) AS x", k) }
            else if r.chance(1, 7) { st.bump("attribute_join_queries"); r.pick(&attr_joins).to_string() } else { gen_agg_query(&mut r) };
        // the number of groups per unit is not capped (the cap draws RANDOM() ranks, which two executions do not share)
        let p: DpParameters = if pinned { DpParameters::from_epsilon_delta(1.0, 1e-5) } else { let q = gen_params(&mut r);
            // (a zero multiplicity makes every clipping bound 0 and the scale factor the literal 0: that case belongs to C03)
            // one such case in three is kept for the neighbour oracle alone: nothing of a unit may then reach the sums
            let keep_zero = r.chance(1, 3);
            let (m, ms) = (if q.privacy_unit_max_multiplicity == 0.0 && !keep_zero { 100.0 } else { q.privacy_unit_max_multiplicity }, if q.privacy_unit_max_multiplicity_share == 0.0 && !keep_zero { 0.1 } else { q.privacy_unit_max_multiplicity_share });
            DpParameters::new(q.epsilon, q.delta, q.tau_thresholding_share, m, ms, 1000) };
        let rel = match catch_unwind(AssertUnwindSafe(|| to_relation(&w, &sql))) { Ok(Ok(rel)) => rel, _ => continue };
        let rw = match catch_unwind(AssertUnwindSafe(|| rel.rewrite_with_differential_privacy(&w.relations, None, w.privacy_unit.clone(), p.clone()))) { Ok(Ok(rw)) => rw, _ => { st.bump("rewrite_failed"); continue; } };
        let sites: Vec<NoiseSite> = noise_sites(rw.relation()).into_iter().filter(|s| s.column != "_COUNT_DISTINCT_PID_").collect();
        if sites.is_empty() { st.bump("no_noise_site"); continue; }
        made += 1;
        let shape = shape_class(&rel);
        // the relation each noise is added to
        let mut inputs: Vec<(String, Vec<NoiseSite>)> = vec![];
        for n in all_nodes(rw.relation()) { if let Relation::Map(m) = n { let here: Vec<NoiseSite> = sites.iter().filter(|s| s.map == m.name()).cloned().collect(); if !here.is_empty() { inputs.push((set_noise(&render(m.input()), 1e9), here)); } } }
        // the maps holding the _CLIPPED_<x> columns, for the correspondence with the clipping model
        let mut clipmaps: Vec<(String, Vec<String>, String, f64, Vec<String>)> = vec![];
        for n in all_nodes(rw.relation()) { if let Relation::Map(m) = n {
            for s in sites.iter() { if let (Some(x), Some(c)) = (&s.clipped_input, s.clip) {
                if m.schema().iter().any(|f| f.name() == format!("_CLIPPED_{}", x)) && !clipmaps.iter().any(|(_, _, y, _, _)| y == x) {
                    if let Some(keys) = site_group_keys(rw.relation(), s) {
                        clipmaps.push((set_noise(&render(n), 1e9), m.schema().iter().map(|f| f.name().to_string()).collect(), x.clone(), c, keys)); } else { st.bump("group_keys_not_identified"); } } } } } }
        for _ in 0..2 {
            let data = gen_dp_data(&mut r, &w.specs, 14, 4);
            // data may violate declared ranges and multiplicities: clipping must enforce the bound
            let mut data = if pinned { pinned_data() } else { data };
            // one unit far above the declared multiplicity (several users rows with the same id, many orders)
            if !pinned && r.chance(1, 3) { let k = r.range(2, 12) as usize;
                if let Some(u0) = data["users"].get(0).cloned() { for _ in 0..k { data.get_mut("users").unwrap().push(u0.clone()); }
                    let mine: Vec<Vec<SV>> = data["orders"].iter().filter(|o| o[1] == u0[0]).cloned().collect();
                    for (j, o) in mine.iter().cycle().take(if mine.is_empty() { 0 } else { k }).enumerate() { let mut o = o.clone(); if j % 2 == 0 { o[3] = SV::Text("new".into()); } data.get_mut("orders").unwrap().push(o); } } }
            if !pinned && r.chance(1, 2) { if let Some(os) = data.get_mut("orders") { for o in os.iter_mut() { if r.chance(1, 3) { o[2] = SV::Real(*r.pick(&[5000.0, -700.0, 1e6])); } } } }
            let db = Db::new(&w.specs, &data);
            for (text, names, x, c, keys) in clipmaps.iter() {
                let Ok((_, rows)) = db.query(text) else { st.bump("clip_map_not_executable"); continue };
                let (Some(pu), Some(xi), Some(wi)) = (col_index(names, "_PRIVACY_UNIT_"), col_index(names, x), col_index(names, &format!("_CLIPPED_{}", x))) else { continue };
                let keyi: Vec<usize> = keys.iter().filter_map(|k| col_index(names, k)).collect();
                if keyi.len() != keys.len() { st.bump("group_keys_not_identified"); continue; }
                let mut per: BTreeMap<String, BTreeMap<String, (f64, f64)>> = BTreeMap::new();
                for row in rows.iter() { if row[pu] == SV::Null { continue; }
                    let e = per.entry(row[pu].canon()).or_default().entry(keyi.iter().map(|i| row[*i].canon()).collect::<Vec<_>>().join("|")).or_insert((0.0, 0.0));
                    e.0 += row[xi].as_f64().unwrap_or(0.0); e.1 += row[wi].as_f64().unwrap_or(0.0); }
                for (_, groups) in per.iter() { if cases.len() < cap_cases && groups.len() <= 30 && groups.values().all(|(a, b)| a.is_finite() && b.is_finite()) {
                    st.bump(if groups.values().map(|(a, _)| a * a).sum::<f64>() > c * c { "clip_active_units" } else { "clip_inactive_units" });
                    cases.push(format!("({}, [{}])", fq(*c), groups.values().map(|(a, b)| format!("({}, {})", fq(*a), fq(*b))).collect::<Vec<_>>().join("; "))); } }
            }
            for (text, here) in inputs.iter() {
                let (names, base) = match db.query(text) { Ok(x) => x, Err(e) => { st.bump("pre_noise_not_executable"); if st.notes.len() < 5 { st.notes.push(format!("{} :: {}", e, sql)); } continue; } };
                st.evaluations += 1; st.distinct.insert(hash_str(&format!("{}{:?}", text, data)));
                let noised: Vec<usize> = here.iter().filter_map(|s| col_index(&names, &s.column)).collect();
                let keycols: Vec<usize> = (0..names.len()).filter(|i| !noised.contains(i)).collect();
                let key = |row: &Vec<SV>| keycols.iter().map(|i| row[*i].canon()).collect::<Vec<_>>().join("|");
                for u in units(&data) {
                    let dn = restrict(&data, u, false);
                    let dbn = Db::new(&w.specs, &dn);
                    let other = match dbn.query(text) { Ok((_, r2)) => r2, Err(_) => continue };
                    for s in here.iter() {
                        let Some(ci) = col_index(&names, &s.column) else { continue };
                        // when no clipping of the summed column can be found in the plan, the largest constant the
                        // sigma can stand for is sigma / multiplier(whole budget): exceeding it exceeds any admissible C
                        let (c, identified) = match s.clip { Some(c) => (c, true), None => { st.bump("clip_not_identified");
                            if !unclipped.contains(&s.column) { unclipped.push(s.column.clone()); }
                            (s.sigma / ((2.0 * (1.25f64 / p.delta).ln()).sqrt() / p.epsilon), false) } };
                        let mut m: BTreeMap<String, (f64, f64)> = BTreeMap::new();
                        for row in base.iter() { m.entry(key(row)).or_insert((0.0, 0.0)).0 = row[ci].as_f64().unwrap_or(0.0); }
                        for row in other.iter() { m.entry(key(row)).or_insert((0.0, 0.0)).1 = row[ci].as_f64().unwrap_or(0.0); }
                        let norm = m.values().map(|(a, b)| (a - b) * (a - b)).sum::<f64>().sqrt();
                        st.bump("neighbour_comparisons");
                        if norm > c * (1.0 + 1e-9) + 1e-9 {
                            st.violation(json!({"kind": if identified { "sensitivity-exceeds-clip-bound" } else { "sensitivity-exceeds-any-bound-the-noise-was-scaled-by" },"class":shape,"query":sql,"column":s.column,"clip":c,"sigma":s.sigma,"l2_change":norm,"unit":u,"pre_noise_sql":text,"database":data.iter().map(|(k, v)| (k.clone(), v.iter().map(|row| row.iter().map(|x| x.json()).collect::<Vec<_>>()).collect::<Vec<_>>())).collect::<BTreeMap<_, _>>(),
                                "groups": m.iter().take(5).map(|(k, v)| json!([k, v.0, v.1])).collect::<Vec<_>>()}));
                        }
                    }
                }
            }
        }
        let zero_bound = p.privacy_unit_max_multiplicity == 0.0 || p.privacy_unit_max_multiplicity_share == 0.0;
        if zero_bound { st.bump("zero_multiplicity_cases"); }
        if !unclipped.is_empty() && !zero_bound && problems.len() < 5 { problems.push(json!({"what":"correspondence: a noised sum whose input is not clipped per privacy unit (no _CLIPPED_ column / scale factor found below it)","query":sql,"columns":unclipped.clone()})); }
        unclipped.clear();
        if made <= 2 { st.sample(json!({"query":sql,"sites":sites.iter().map(|s| json!({"column":s.column,"sigma":s.sigma,"clip":s.clip})).collect::<Vec<_>>()})); }
    }
    let mut out = st.to_json("DP-compiled aggregation queries (and LIMIT-windowed sums) x DpParameters; the input of every noise-adding map is executed on SQLite on a generated database (values possibly outside the declared ranges, several rows per unit) and on each neighbour obtained by deleting one unit; L2 norm over groups of the change of every noised column against the clipping constant read off the IR; distinct by (pre-noise query, database)");
    let header = "From Coq Require Import QArith ZArith List. Import ListNotations.\nFrom QV Require Import Corr.Lib Corr.C01.\nOpen Scope Z_scope.";
    let f = write_shards(outdir, "c01_clip", header, "c01_case", "check", &cases, 250);
    out["shards"] = json!({"c01_clip": f});
    out["problems"] = json!(problems);
    out
}

// ---------------------------------------------------------------- C09
/// an aggregation query over a trackable source with public-valued keys or none, with the reference
/// query computing the same statistics directly (population variance for VAR / STD)
fn gen_exact_query(r: &mut Rng) -> (String, String, Vec<String>, Vec<String>, Vec<String>) {
    // (from, numeric columns, keys, from clause exposing the unit, unit expression)
    let (from, nums, keys, ufrom, unit): (&str, Vec<&str>, Vec<&str>, &str, &str) = match r.below(8) {
        // outer joins of two tracked tables: the rows of the preserved side without a match are aggregated too
        5 => ("items AS t RIGHT JOIN orders AS o ON t.order_id = o.id", vec!["o.amount", "t.price"], vec!["o.status"], "items AS t RIGHT JOIN orders AS o ON t.order_id = o.id", "o.user_id"),
        6 => ("orders AS t LEFT JOIN items AS i ON i.order_id = t.id", vec!["t.amount", "i.price"], vec!["t.status"], "orders AS t LEFT JOIN items AS i ON i.order_id = t.id", "t.user_id"),
        7 => ("orders AS t RIGHT JOIN users AS u ON t.user_id = u.id", vec!["u.age", "t.amount", "u.income"], vec!["u.city"], "orders AS t RIGHT JOIN users AS u ON t.user_id = u.id", "u.id"),
        0 => ("users AS t", vec!["t.age", "t.income", "t.score"], vec!["t.city", "t.age"], "users AS t", "t.id"),
        1 => ("orders AS t", vec!["t.amount"], vec!["t.status", "t.user_id"], "orders AS t", "t.user_id"),
        2 => ("items AS t", vec!["t.price", "t.qty"], vec!["t.qty"], "items AS t JOIN orders AS zz ON t.order_id = zz.id", "zz.user_id"),
        3 => ("orders AS t JOIN users AS u ON t.user_id = u.id", vec!["t.amount", "u.age", "u.income"], vec!["u.city", "t.status"], "orders AS t JOIN users AS u ON t.user_id = u.id", "t.user_id"),
        _ => ("items AS t JOIN orders AS o ON t.order_id = o.id", vec!["t.price", "o.amount", "t.qty"], vec!["o.status", "t.qty"], "items AS t JOIN orders AS o ON t.order_id = o.id", "o.user_id"),
    };
    let mut shared = vec![]; let mut rowsq: Vec<String> = vec![];
    let mut items = vec![]; let mut ritems = vec![]; let mut kinds: Vec<String> = vec![]; let mut group = vec![];
    if r.chance(2, 3) { let mut ks = keys.clone(); if r.chance(1, 2) { ks.reverse(); } if ks.len() > 1 && r.chance(1, 2) { ks.truncate(1); }
        for (i, k) in ks.iter().enumerate() { items.push(format!("{} AS k{}", k, i)); ritems.push(format!("{} AS k{}", k, i)); group.push(k.to_string()); kinds.push("key".into()); shared.push(String::new()); rowsq.push(String::new()); } }
    let wh = if r.chance(1, 3) { format!(" WHERE {} > {}", r.pick(&nums), r.range(0, 20)) } else { String::new() };
    for i in 0..r.range(1, 4) {
        let c = *r.pick(&nums);
        // also values far below 1 (the clipping bound of the sum is then below 1) and negative values
        let e = match r.below(8) { 0 | 1 => format!("{} + 1", c), 2 => format!("{} / 100000", c), 3 => format!("{} - 2000", c), _ => c.to_string() };
        let (f, kind) = *r.pick(&[("COUNT", "count"), ("SUM", "sum"), ("AVG", "avg"), ("VARIANCE", "var"), ("STDDEV", "std"), ("COUNT", "count"), ("SUM", "sum")]);
        let d = if r.chance(1, 5) && kind != "var" && kind != "std" { "DISTINCT " } else { "" };
        items.push(format!("{}({}{}) AS a{}", f, d, e, i));
        ritems.push(match kind { "var" | "std" => format!("AVG(({e}) * ({e})) - AVG({e}) * AVG({e}) AS a{i}", e = e, i = i), _ => format!("{}({}{}) AS a{}", f, d, e, i) });
        kinds.push(if d.is_empty() { kind.to_string() } else { format!("{}-distinct", kind) });
        // the (unit, value) rows behind the aggregate, for the model
        rowsq.push(format!("SELECT {}{} AS u, {} AS v FROM {}{}", group.iter().enumerate().map(|(i, g)| format!("{} AS k{}, ", g, i)).collect::<String>(), unit, e, ufrom, wh));
        // number of (group, value) pairs held by more than one unit: a DISTINCT aggregate is exact only without them
        shared.push(if d.is_empty() { String::new() } else { format!("SELECT COUNT(*) FROM (SELECT 1 FROM {}{} GROUP BY {}{} HAVING COUNT(DISTINCT {}) > 1)", ufrom, wh,
            group.iter().map(|g| format!("{}, ", g)).collect::<String>(), e, unit) });
    }
    let gb = if group.is_empty() { String::new() } else { format!(" GROUP BY {}", group.join(", ")) };
    (format!("SELECT {} FROM {}{}{}", items.join(", "), from, wh, gb), format!("SELECT {} FROM {}{}{}", ritems.join(", "), from, wh, gb), kinds, shared, rowsq)
}

pub fn run_c09(outdir: &str, seed: u64, thorough: bool) -> serde_json::Value {
    let _ = outdir;
    let w = world();
    let mut rng = Rng::new(seed ^ 0xC09);
    let mut st = Stats::default();
    let n = if thorough { 4000 } else { 150 };
    let mut cases: Vec<String> = vec![]; let cap_cases = if thorough { 20000 } else { 1500 };
    let mut made = 0; let mut attempts = 0;
    while made < n && attempts < n * 30 {
        attempts += 1;
        let mut r = rng.fork();
        let pinned = attempts == 1;
        let (sql, refsql, kinds, shared, rowsq) = if pinned { let q = "SELECT SUM(DISTINCT t.score) AS a0, COUNT(t.score) AS a1 FROM users AS t".to_string();
            (q.clone(), q, vec!["sum-distinct".to_string(), "count".to_string()],
             vec!["SELECT COUNT(*) FROM (SELECT 1 FROM users AS t GROUP BY t.score HAVING COUNT(DISTINCT t.id) > 1)".to_string(), String::new()],
             vec!["SELECT t.id AS u, t.score AS v FROM users AS t".to_string(), "SELECT t.id AS u, t.score AS v FROM users AS t".to_string()]) } else { gen_exact_query(&mut r) };
        // multiplicity bound = size of the relation: no unit can exceed it, clipping stays inactive on in-range data
        let p = DpParameters::new(*r.pick(&[0.1, 1.0, 5.0]), *r.pick(&[1e-5, 1e-3]), *r.pick(&[0.5, 0.1]), 1000.0, 1.0, 5);
        let rel = match catch_unwind(AssertUnwindSafe(|| to_relation(&w, &sql))) { Ok(Ok(rel)) => rel, _ => continue };
        let rw = match catch_unwind(AssertUnwindSafe(|| rel.rewrite_with_differential_privacy(&w.relations, None, w.privacy_unit.clone(), p.clone()))) { Ok(Ok(rw)) => rw, _ => { st.bump("rewrite_failed"); continue; } };
        if noise_sites(rw.relation()).is_empty() { st.bump("no_noise_site"); continue; }
        if !tau_sites(rw.relation()).is_empty() { st.bump("keys_need_thresholding_skipped"); continue; }
        made += 1;
        let text = set_noise(&render(rw.relation()), 0.0);
        // the same query paginated (ORDER BY the keys LIMIT a OFFSET b): its DP rewriting returns the window of the unpaginated DP result
        let nk0 = kinds.iter().filter(|k| *k == "key").count();
        let paged: Option<(String, String, String)> = if nk0 > 0 && !pinned && r.chance(1, 2) {
            let (a, b) = (r.range(1, 3), r.range(0, 2));
            let ord = (0..nk0).map(|i| format!("k{}", i)).collect::<Vec<_>>().join(", ");
            let sqlp = format!("{} ORDER BY {} LIMIT {} OFFSET {}", sql, ord, a, b);
            match catch_unwind(AssertUnwindSafe(|| to_relation(&w, &sqlp).ok().and_then(|rel| rel.rewrite_with_differential_privacy(&w.relations, None, w.privacy_unit.clone(), p.clone()).ok()))) {
                Ok(Some(rwp)) => Some((sqlp, set_noise(&render(rwp.relation()), 0.0), format!("SELECT * FROM ({}) AS z ORDER BY {} LIMIT {} OFFSET {}", text, ord, a, b))),
                _ => { st.bump("paginated_variant_not_rewritten"); None } }
        } else { None };
        for _ in 0..2 {
            // in-range data, every order / item resolving along the privacy-unit path
            let mut data = if pinned { pinned_data() } else { gen_dp_data(&mut r, &w.specs, 12, 5) };
            let ids: Vec<SV> = data["users"].iter().map(|x| x[0].clone()).collect();
            if ids.is_empty() { continue; }
            for o in data.get_mut("orders").unwrap().iter_mut() { o[1] = r.pick(&ids).clone(); }
            let oids: Vec<SV> = data["orders"].iter().map(|x| x[0].clone()).collect();
            if oids.is_empty() { data.get_mut("items").unwrap().clear(); } else { for it in data.get_mut("items").unwrap().iter_mut() { it[0] = r.pick(&oids).clone(); } }
            // order ids unique, so that the join along the path does not duplicate rows
            { let mut seen = BTreeSet::new(); data.get_mut("orders").unwrap().retain(|o| seen.insert(o[0].canon())); }
            let db = Db::new(&w.specs, &data);
            let (_, want) = match db.query(&refsql) { Ok(x) => x, Err(_) => { st.bump("reference_not_executable"); continue; } };
            let (_, got) = match db.query(&text) { Ok(x) => x, Err(e) => { st.bump("rewritten_not_executable_on_sqlite"); if st.notes.len() < 5 { st.notes.push(format!("{} :: {}", e, sql)); } continue; } };
            st.evaluations += 1; st.distinct.insert(hash_str(&format!("{}{:?}", sql, data)));
            let nk = kinds.iter().filter(|k| *k == "key").count();
            let keyed = nk > 0;
            let key = |row: &Vec<SV>| row[..nk].iter().map(|x| x.canon()).collect::<Vec<_>>().join("|");
            // the groups of the DP result are distinct
            { let mut seen = BTreeSet::new(); for grow in got.iter() { if !seen.insert(key(grow)) { st.violation(json!({"kind":"group-returned-twice","query":sql,"group":key(grow)})); break; } } }
            if let Some((sqlp, textp, expected)) = &paged {
                if let (Ok((_, gp)), Ok((_, ep))) = (db.query(textp), db.query(expected)) {
                    st.bump("paginated_windows_compared");
                    let (gk, ek): (Vec<String>, Vec<String>) = (gp.iter().map(|x| key(x)).collect(), ep.iter().map(|x| key(x)).collect());
                    if gk != ek { st.violation(json!({"kind":"paginated-dp-result-is-not-the-window-of-the-dp-result","query":sqlp,"returned_groups":gk,"expected_groups":ek})); }
                } else { st.bump("paginated_variant_not_executable"); }
            }
            let gotm: BTreeMap<String, &Vec<SV>> = got.iter().map(|row| (key(row), row)).collect();
            for row in want.iter() {
                let Some(g) = gotm.get(&key(row)) else { st.violation(json!({"kind":"group-missing-from-dp-result","query":sql,"group":key(row)})); continue };
                for (ci, kind) in kinds.iter().enumerate() {
                    if kind == "key" { continue; }
                    let kind = &kind[..];
                    // the model on the rows behind this value
                    if let (Some(ret), Ok((_, urows))) = (g[ci].as_f64(), db.query(&rowsq[ci])) {
                        let mut uid: BTreeMap<String, i128> = BTreeMap::new();
                        let mine: Vec<String> = urows.iter().filter(|x| !keyed || key(x) == key(row)).map(|x| {
                            let (u, v) = (&x[nk], &x[nk + 1]);
                            let nu = uid.len() as i128; let u = *uid.entry(u.canon()).or_insert(nu);
                            format!("({}, {})", coq_z(u), match v.as_f64() { Some(f) => format!("Some {}", fq(f)), None => "None".into() }) }).collect();
                        if cases.len() < cap_cases && mine.len() <= 40 { let (base, d) = match kind.strip_suffix("-distinct") { Some(b) => (b, true), None => (kind, false) };
                            let (a, std) = match base { "count" => ("ACount", false), "sum" => ("ASum", false), "avg" => ("AAvg", false), "var" => ("AVar", false), _ => ("AVar", true) };
                            cases.push(format!("({}, {}, {}, [{}], {})", a, coq_bool(d), coq_bool(std), mine.join("; "), fq(ret))); }
                    }
                    let (a, b) = (row[ci].as_f64(), g[ci].as_f64());
                    let (Some(mut a), Some(b)) = (a, b) else { if row[ci] == SV::Null { continue; } else { st.violation(json!({"kind":"dp-result-null","query":sql,"column":ci,"expected":row[ci].json()})); continue; } };
                    if kind == "var" { a = a.max(0.0); } if kind == "std" { a = a.max(0.0).sqrt(); }
                    st.bump(&format!("compared_{}", kind));
                    if (a - b).abs() > 1e-6 * a.abs().max(b.abs()).max(1.0) {
                        let class = if kind.ends_with("-distinct") && db.query(&shared[ci]).ok().and_then(|(_, rows)| rows.get(0).and_then(|x| x[0].as_f64())).map(|c| c > 0.0).unwrap_or(false)
                            { "distinct-value-shared-by-units".to_string() } else { kind.to_string() };
                        st.violation(json!({"kind":"dp-result-differs-without-noise-and-clipping","class":class,"query":sql,"group":key(row),"column":ci,"expected":a,"returned":b,
                            "epsilon":p.epsilon,"tables":data.iter().map(|(k, v)| (k.clone(), v.len())).collect::<BTreeMap<_, _>>()}));
                    }
                }
            }
            // additional groups: public keys without data carry zero counts and sums
            if keyed { for grow in got.iter() { if !want.iter().any(|row| key(row) == key(grow)) {
                for (ci, kind) in kinds.iter().enumerate() { if (kind.starts_with("count") || kind.starts_with("sum")) && grow[ci].as_f64().map(|x| x.abs() > 1e-9).unwrap_or(false) {
                    st.violation(json!({"kind":"extra-group-with-data","query":sql,"group":key(grow),"value":grow[ci].json()})); } } } } }
        }
        if made <= 2 { st.sample(json!({"query":sql,"reference":refsql})); }
    }
    let mut out = st.to_json("aggregation queries (count / sum / avg / variance / stddev and DISTINCT forms, nullable columns, joins along the privacy-unit path, public-valued keys or none) compiled with a multiplicity bound equal to the relation size; rewritten SQL with every Box-Muller factor replaced by 0 executed on SQLite over in-range databases, against a reference query (population variance for VAR / STD); distinct by (query, database)");
    let header = "From Coq Require Import QArith ZArith List. Import ListNotations.\nFrom QV Require Import DP.Exact Corr.Lib Corr.C09.\nOpen Scope Z_scope.";
    let f = write_shards(outdir, "c09_exact", header, "c09_case", "check", &cases, 250);
    out["shards"] = json!({"c09_exact": f});
    out
}

// ---------------------------------------------------------------- C04
/// inverse of the standard normal CDF (Acklam), independent of statrs
pub fn inv_norm(p: f64) -> f64 {
    let a = [-3.969683028665376e+01, 2.209460984245205e+02, -2.759285104469687e+02, 1.383577518672690e+02, -3.066479806614716e+01, 2.506628277459239e+00];
    let b = [-5.447609879822406e+01, 1.615858368580409e+02, -1.556989798598866e+02, 6.680131188771972e+01, -1.328068155288572e+01];
    let c = [-7.784894002430293e-03, -3.223964580411365e-01, -2.400758277161838e+00, -2.549732539343734e+00, 4.374664141464968e+00, 2.938163982698783e+00];
    let d = [7.784695709041462e-03, 3.224671290700398e-01, 2.445134137142996e+00, 3.754408661907416e+00];
    if p < 0.02425 { let q = (-2.0 * p.ln()).sqrt(); (((((c[0]*q+c[1])*q+c[2])*q+c[3])*q+c[4])*q+c[5]) / ((((d[0]*q+d[1])*q+d[2])*q+d[3])*q+1.0) }
    else if p <= 1.0 - 0.02425 { let q = p - 0.5; let r = q*q; (((((a[0]*r+a[1])*r+a[2])*r+a[3])*r+a[4])*r+a[5])*q / (((((b[0]*r+b[1])*r+b[2])*r+b[3])*r+b[4])*r+1.0) }
    else { let q = (-2.0 * (1.0 - p).ln()).sqrt(); -(((((c[0]*q+c[1])*q+c[2])*q+c[3])*q+c[4])*q+c[5]) / ((((d[0]*q+d[1])*q+d[2])*q+d[3])*q+1.0) }
}

pub fn run_c04(outdir: &str, seed: u64, thorough: bool) -> serde_json::Value {
    let _ = outdir;
    let w = world();
    let mut rng = Rng::new(seed ^ 0xC04);
    let mut st = Stats::default();
    let n = if thorough { 2500 } else { 100 };
    let ww = world_weighted();
    let templates: Vec<(&str, &str)> = vec![
        // (query, the (unit, key) pairs of the rows reaching the aggregation); queries on visits run in the weighted world
        ("SELECT t.place AS k, COUNT(t.user_id) AS n FROM visits AS t GROUP BY t.place", "SELECT t.user_id AS u, t.place AS k FROM visits AS t"),
        ("SELECT t.place AS k, SUM(t.spent) AS s FROM visits AS t WHERE t.spent > 1 GROUP BY t.place", "SELECT t.user_id AS u, t.place AS k FROM visits AS t WHERE t.spent > 1"),
        ("SELECT t.order_id AS k, COUNT(t.price) AS n FROM items AS t GROUP BY t.order_id", "SELECT o.user_id AS u, i.order_id AS k FROM items AS i JOIN orders AS o ON i.order_id = o.id JOIN users AS us ON o.user_id = us.id"),
        ("SELECT t.id AS k, SUM(t.amount) AS s FROM orders AS t GROUP BY t.id", "SELECT o.user_id AS u, o.id AS k FROM orders AS o JOIN users AS us ON o.user_id = us.id"),
        ("SELECT t.amount AS k, COUNT(t.id) AS n FROM orders AS t GROUP BY t.amount", "SELECT o.user_id AS u, o.amount AS k FROM orders AS o JOIN users AS us ON o.user_id = us.id"),
        ("SELECT t.income AS k, COUNT(t.id) AS n FROM users AS t GROUP BY t.income", "SELECT us.id AS u, us.income AS k FROM users AS us"),
        ("SELECT t.status AS p, t.amount AS k, COUNT(t.id) AS n FROM orders AS t GROUP BY t.status, t.amount", "SELECT o.user_id AS u, o.amount AS k FROM orders AS o JOIN users AS us ON o.user_id = us.id"),
        ("SELECT t.amount + 1 AS k, COUNT(t.id) AS n FROM orders AS t WHERE t.amount > 15 GROUP BY t.amount + 1", "SELECT o.user_id AS u, o.amount + 1 AS k FROM orders AS o JOIN users AS us ON o.user_id = us.id WHERE o.amount > 15"),
    ];
    let mut cases: Vec<String> = vec![];
    for i in 0..n {
        let mut r = rng.fork();
        let (sql, rowsq) = templates[i % templates.len()];
        let w = if sql.contains("visits") { &ww } else { &w };
        let cu = *r.pick(&[1u64, 2, 5]);
        let p = DpParameters::new(*r.pick(&[0.5, 1.0, 5.0, 20.0]), *r.pick(&[1e-6, 1e-3, 0.3, 0.9]), *r.pick(&[0.5, 0.1, 0.9, 1.0]), 1000.0, 1.0, cu);
        let rel = match catch_unwind(AssertUnwindSafe(|| to_relation(&w, sql))) { Ok(Ok(rel)) => rel, _ => continue };
        let rw = match catch_unwind(AssertUnwindSafe(|| rel.rewrite_with_differential_privacy(&w.relations, None, w.privacy_unit.clone(), p.clone()))) { Ok(Ok(rw)) => rw, Ok(Err(_)) => { st.bump("rewrite_err"); continue; } Err(_) => { st.bump("rewrite_panicked"); continue; } };
        let taus = tau_sites(rw.relation());
        if taus.len() != 1 { st.bump("no_single_tau_site"); continue; }
        let (tau, sigma) = (taus[0].tau, taus[0].sigma.unwrap_or(f64::NAN));
        // the threshold in the plan is at least the tau of the share reserved for the key release
        let (e, d) = (p.epsilon * p.tau_thresholding_share, p.delta * p.tau_thresholding_share);
        let sig_want = (2.0 * (1.25f64 / d).ln()).sqrt() / e * (cu as f64).sqrt();
        let q = (1.0 - d).powf(1.0 / cu as f64);
        // ... computed for the noise the plan really draws: a larger sigma than the budget requires needs a larger threshold too
        let tau_want = 1.0 + (if sigma.is_finite() { sigma.max(sig_want) } else { sig_want }) * inv_norm(q).max(0.0);
        st.evaluations += 1;
        if !(tau >= tau_want - 1e-6 * tau_want.abs().max(1.0)) || !(sigma >= sig_want * (1.0 - 1e-9)) {
            st.violation(json!({"kind":"threshold-below-required-tau","query":sql,"epsilon":p.epsilon,"delta":p.delta,"share":p.tau_thresholding_share,"cu":cu,"tau_in_plan":tau,"tau_required":tau_want,"sigma_in_plan":sigma,"sigma_required":sig_want}));
        }
        if tau < 1.0 { st.violation(json!({"kind":"threshold-below-one","class":"delta-share-above-one-half","query":sql,"epsilon":p.epsilon,"delta":p.delta,"share":p.tau_thresholding_share,"cu":cu,"tau_in_plan":tau})); }
        let base = render(rw.relation());
        for z in [0.0f64, -1.0, 1.5] {
            let mut data = gen_dp_data(&mut r, &w.specs, 14, 5);
            // keys shared by several units, keys owned by one unit with many rows
            let amounts = [10.0, 20.0, 30.0];
            for o in data.get_mut("orders").unwrap().iter_mut() { if r.chance(2, 3) { o[2] = SV::Real(*r.pick(&amounts)); } }
            // visits: few units and few places, a unit holding a place through several rows of different weights
            if let Some(vs) = data.get_mut("visits") { let n0 = vs.len();
                for v in vs.iter_mut() { v[0] = SV::Int(r.range(1, 6)); if r.chance(3, 4) { v[1] = SV::Real(*r.pick(&[100.0, 200.0, 300.0, 400.0])); } }
                for j in 0..n0 { if r.chance(1, 2) { let mut v = vs[j].clone(); v[3] = SV::Real(*r.pick(&[0.5, 1.0, 2.0, 3.0])); vs.push(v); } } }
            { let mut seen = BTreeSet::new(); data.get_mut("orders").unwrap().retain(|o| seen.insert(o[0].canon())); }
            let db = Db::new(&w.specs, &data);
            let text = set_noise(&base, z);
            let (names, rows) = match db.query(&text) { Ok(x) => x, Err(e) => { st.bump("rewritten_not_executable_on_sqlite"); if st.notes.len() < 5 { st.notes.push(format!("{} :: {}", e, sql)); } continue; } };
            let ki = col_index(&names, "k").unwrap();
            let released: BTreeSet<String> = rows.iter().map(|row| row[ki].canon()).collect();
            let (_, urows) = match db.query(rowsq) { Ok(x) => x, Err(_) => continue };
            let mut holders: BTreeMap<String, BTreeSet<String>> = BTreeMap::new();
            for row in urows.iter() { if row[0] != SV::Null { holders.entry(row[1].canon()).or_default().insert(row[0].canon()); } }
            let units_of: BTreeMap<String, f64> = holders.iter().map(|(k, v)| (k.clone(), v.len() as f64)).collect();
            // the same rows for the model, units and keys numbered
            {
                let mut uid: BTreeMap<String, i128> = BTreeMap::new(); let mut kid: BTreeMap<String, i128> = BTreeMap::new();
                let mut pairs = vec![];
                for row in urows.iter() { if row[0] == SV::Null { continue; }
                    let nu = uid.len() as i128; let u = *uid.entry(row[0].canon()).or_insert(nu);
                    let nk = kid.len() as i128; let k = *kid.entry(row[1].canon()).or_insert(nk);
                    pairs.push((u, k)); }
                let rel: Vec<i128> = released.iter().map(|k| kid.get(k).cloned().unwrap_or(-1)).collect();
                // a float comparison within rounding distance of the threshold is not compared
                let borderline = units_of.values().any(|n| ((n + sigma * z) - tau).abs() < 1e-9 * tau.abs().max(1.0));
                if !borderline && sigma.is_finite() && tau.is_finite() {
                    cases.push(format!("({}%nat, {}, {}, {}, {}, {})", cu, fq(tau), fq(sigma), fq(z),
                        coq_list(&pairs, |(u, k)| format!("({}, {})", coq_z(*u), coq_z(*k))), coq_list(&rel, |k| coq_z(*k))));
                }
            }
            // the counts the threshold is applied to: whatever ranks are drawn, a unit is counted in exactly min(Cu, its
            // number of keys) groups, so the counts add up to the sum of these numbers
            if let Some(counting) = crate::ir::all_nodes(rw.relation()).into_iter().find(|n| matches!(n, Relation::Reduce(_)) && n.schema().iter().any(|f| f.name() == "_COUNT_DISTINCT_PID_")) {
                if let Ok((cn, crow)) = db.query(&render(counting)) {
                    if let Some(ci) = col_index(&cn, "_COUNT_DISTINCT_PID_") {
                        let total: f64 = crow.iter().filter_map(|x| x[ci].as_f64()).sum();
                        let mut keys_of: BTreeMap<String, BTreeSet<String>> = BTreeMap::new();
                        for row in urows.iter() { if row[0] != SV::Null { keys_of.entry(row[0].canon()).or_default().insert(row[1].canon()); } }
                        let want: f64 = keys_of.values().map(|ks| (ks.len() as f64).min(cu as f64)).sum();
                        st.bump("contribution_totals_compared");
                        if (total - want).abs() > 1e-9 {
                            st.violation(json!({"kind":"units-counted-in-more-groups-than-the-limit","query":sql,"cu":cu,"sum_of_counts":total,"sum_of_min_cu_keys_per_unit":want,"units":keys_of.len()}));
                        }
                    }
                }
            }
            // how many distinct keys each unit holds: capping can only matter above Cu
            st.distinct.insert(hash_str(&format!("{}{:?}{}", sql, data, z)));
            for k in released.iter() {
                let nk = units_of.get(k).cloned().unwrap_or(0.0);
                st.bump("released_keys");
                // necessary condition: even without capping the noisy count must exceed tau
                if !(nk + sigma * z > tau - 1e-9) {
                    st.violation(json!({"kind":"key-released-below-threshold","query":sql,"key":k,"distinct_units":nk,"noise":sigma * z,"tau":tau,"cu":cu,"delta":p.delta,"share":p.tau_thresholding_share}));
                }
                if nk <= 1.0 && z <= 0.0 {
                    st.violation(json!({"kind":"single-unit-key-released-without-positive-noise","class": if tau < 1.0 { "delta-share-above-one-half" } else { "other" },"query":sql,"key":k,"distinct_units":nk,"tau":tau,"delta":p.delta,"share":p.tau_thresholding_share}));
                }
            }
            st.bump(if released.is_empty() { "nothing_released" } else { "some_released" });
        }
        if i < 2 { st.sample(json!({"query":sql,"tau":tau,"sigma":sigma,"cu":cu,"epsilon":p.epsilon,"delta":p.delta,"share":p.tau_thresholding_share})); }
    }
    let header = "From Coq Require Import QArith ZArith List. Import ListNotations.\nFrom QV Require Import Corr.Lib Corr.C04.\nOpen Scope Z_scope.";
    let f = write_shards(outdir, "c04_release", header, "c04_case", "check", &cases, if thorough { 400 } else { 80 });
    let mut out = st.to_json("grouped queries whose keys are private-valued (one with a mixed public / private key, one computed key under a filter) x DpParameters (epsilon, delta up to 0.9, share up to 1, Cu in {1,2,5}); tau and sigma read off the plan against an independent recomputation (own inverse normal CDF); rewritten SQL executed on SQLite with the noise factor fixed to 0, -1 and 1.5 over databases with keys shared by several units and keys owned by one unit; released keys against the distinct-unit counts; distinct by (query, database, noise)");
    out["shards"] = json!({"c04_release": f});
    out
}
