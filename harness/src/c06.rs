//! C06: range propagation — correspondence for the integer expression language of QV/Fn/IntExpr.v,
//! and the soundness oracle over every scalar function and aggregate (run in isolated batches).
use crate::common::*;
use crate::typegen::*;
use qrlew::{
    data_type::{function::Function as _, value::Value, DataType, Variant as _},
    expr::{aggregate::Aggregate, function::Function as F, Expr},
};
use serde_json::json;
use std::panic::{catch_unwind, AssertUnwindSafe};
use std::sync::Arc;

const RULE: &str = "integer expression trees (depth <= 3) over 3 interval-set typed columns x 4 rows (correspondence); every scalar function x argument types drawn per category (numeric / text / boolean, optional or not) x sampled rows; every aggregate x element types x lists (oracle). non-trivial: the value evaluates; distinct by (function or expression, types, values)";

pub fn run(outdir: &str, seed: u64, thorough: bool) -> serde_json::Value {
    run_batches("C06", outdir, seed, thorough, if thorough { 64 } else { 16 }, if thorough { 900 } else { 240 }, RULE)
}

// ---------- integer expressions ----------
#[derive(Clone, Debug)]
enum IE { Var(usize), Const(i64), Bin(&'static str, Box<IE>, Box<IE>) }
const OPS: [&str; 9] = ["Plus", "Minus", "Mul", "Least", "Greatest", "Gt", "Lt", "GtEq", "LtEq"];
fn gen_ie(r: &mut Rng, depth: u32) -> IE {
    if depth == 0 || r.chance(1, 4) {
        if r.chance(2, 3) { IE::Var(r.below(3) as usize) } else { IE::Const(*r.pick(&[0, 1, -1, 2, 3, 10, -7, 100, i64::MAX, i64::MIN, 1 << 40])) }
    } else { IE::Bin(*r.pick(&OPS), Box::new(gen_ie(r, depth - 1)), Box::new(gen_ie(r, depth - 1))) }
}
fn ie_coq(e: &IE) -> String {
    match e { IE::Var(n) => format!("(EVar {})", n), IE::Const(z) => format!("(EConst {})", coq_z(*z as i128)),
        IE::Bin(op, l, r) => format!("(EBin {} {} {})", op, ie_coq(l), ie_coq(r)) }
}
fn ie_expr(e: &IE) -> Expr {
    match e {
        IE::Var(n) => Expr::col(["a", "b", "c"][*n]), IE::Const(z) => Expr::val(*z),
        IE::Bin(op, l, r) => { let (l, r) = (ie_expr(l), ie_expr(r)); match *op {
            "Plus" => Expr::plus(l, r), "Minus" => Expr::minus(l, r), "Mul" => Expr::multiply(l, r), "Least" => Expr::least(l, r), "Greatest" => Expr::greatest(l, r),
            "Gt" => Expr::gt(l, r), "Lt" => Expr::lt(l, r), "GtEq" => Expr::gt_eq(l, r), _ => Expr::lt_eq(l, r) } }
    }
}
fn int_set(r: &mut Rng) -> Vec<(i64, i64)> {
    // one set in ten holds many separated points (more boxes than the capacity once combined with another set)
    if r.chance(1, 10) { let k = r.range(50, 100); let step = r.range(2, 5); return (0..k).map(|v| (v * step, v * step)).collect(); }
    let n = r.range(1, 3);
    (0..n).map(|_| match r.below(6) {
        0 => (i64::MIN, i64::MAX), 1 => { let a = r.range(-50, 50); (a, a) },
        2 => (r.range(-1 << 62, -1 << 40), r.range(1 << 40, 1 << 62)), 3 => (i64::MAX - r.range(0, 5), i64::MAX), 4 => (i64::MIN, i64::MIN + r.range(0, 5)),
        _ => { let a = r.range(-30, 30); let b = r.range(-30, 30); if a <= b { (a, b) } else { (b, a) } } }).collect()
}
fn dt_to_ivs(t: &DataType) -> Option<Vec<[i64; 2]>> {
    match t {
        DataType::Integer(i) => Some(i.iter().map(|[a, b]| [*a, *b]).collect()),
        DataType::Boolean(b) => Some(b.iter().map(|[a, b]| [*a as i64, *b as i64]).collect()),
        _ => None,
    }
}
fn val_to_z(v: &Value) -> Option<i64> { match v { Value::Integer(i) => Some(**i), Value::Boolean(b) => Some(**b as i64), _ => None } }

// ---------- function sweep ----------
#[derive(Clone, Copy, PartialEq)]
enum Cat { Num, Txt, Boo, Any2 }
fn functions() -> Vec<(F, usize, Cat)> {
    use Cat::*;
    vec![(F::Opposite, 1, Num), (F::Exp, 1, Num), (F::Ln, 1, Num), (F::Log, 1, Num), (F::Abs, 1, Num), (F::Sin, 1, Num), (F::Cos, 1, Num), (F::Sqrt, 1, Num),
         (F::Ceil, 1, Num), (F::Floor, 1, Num), (F::Sign, 1, Num), (F::CastAsText, 1, Num), (F::CastAsFloat, 1, Num), (F::CastAsInteger, 1, Num), (F::CastAsBoolean, 1, Num),
         (F::Not, 1, Boo), (F::CharLength, 1, Txt), (F::Lower, 1, Txt), (F::Upper, 1, Txt), (F::Md5, 1, Txt), (F::CastAsInteger, 1, Txt), (F::CastAsFloat, 1, Txt), (F::CastAsText, 1, Txt),
         (F::Plus, 2, Num), (F::Minus, 2, Num), (F::Multiply, 2, Num), (F::Divide, 2, Num), (F::Modulo, 2, Num), (F::Gt, 2, Num), (F::Lt, 2, Num), (F::GtEq, 2, Num), (F::LtEq, 2, Num),
         (F::Eq, 2, Num), (F::NotEq, 2, Num), (F::Pow, 2, Num), (F::Least, 2, Num), (F::Greatest, 2, Num), (F::Round, 2, Num), (F::Trunc, 2, Num),
         (F::BitwiseOr, 2, Num), (F::BitwiseAnd, 2, Num), (F::BitwiseXor, 2, Num), (F::And, 2, Boo), (F::Or, 2, Boo), (F::Xor, 2, Boo),
         (F::Gt, 2, Txt), (F::Lt, 2, Txt), (F::Eq, 2, Txt), (F::GtEq, 2, Txt), (F::LtEq, 2, Txt), (F::NotEq, 2, Txt), (F::StringConcat, 2, Txt), (F::Rtrim, 2, Txt), (F::Ltrim, 2, Txt), (F::Like, 2, Txt), (F::Ilike, 2, Txt), (F::RegexpContains, 2, Txt),
         (F::Coalesce, 2, Any2), (F::IsNull, 1, Any2), (F::Case, 3, Any2), (F::Substr, 2, Any2), (F::Position, 2, Txt)]
}
fn arg_ty(r: &mut Rng, c: Cat) -> Ty {
    let base = match c {
        // (one integer type in six is bounded on one side only: a filter `a <= 10` on an unbounded column)
        Cat::Num => match r.below(5) { 0 | 1 => if r.chance(1, 6) { Ty::Int(vec![if r.chance(1, 2) { (i64::MIN, r.range(-60, 60)) } else { (r.range(-60, 60), i64::MAX) }]) } else { Ty::Int({ let n = r.range(1, 2); (0..n).map(|_| int_interval(r)).collect() }) }, 2 | 3 => Ty::Float({ let n = r.range(1, 2); (0..n).map(|_| float_interval(r)).collect() }), _ => Ty::Bool(vec![false, true]) },
        Cat::Txt => if r.chance(1, 3) { Ty::Text(None) } else { let n = r.range(1, 4); Ty::Text(Some((0..n).map(|_| r.pick(&["a", "B", "Z", "abc", "1", "12", "-3", "1.5", "true", "x y", ""]).to_string()).collect())) },
        Cat::Boo => Ty::Bool(match r.below(3) { 0 => vec![true], 1 => vec![false], _ => vec![false, true] }),
        Cat::Any2 => gen_ty(r, 0),
    };
    if r.chance(1, 5) { Ty::Opt(Box::new(base)) } else { base }
}

fn aggregates() -> Vec<Aggregate> {
    vec![Aggregate::Min, Aggregate::Max, Aggregate::Median, Aggregate::First, Aggregate::Last, Aggregate::Mean, Aggregate::MeanDistinct, Aggregate::Count, Aggregate::CountDistinct,
         Aggregate::Sum, Aggregate::SumDistinct, Aggregate::Std, Aggregate::StdDistinct, Aggregate::Var, Aggregate::VarDistinct]
}

pub fn child(k: usize, outdir: &str, seed: u64, thorough: bool) -> serde_json::Value {
    let mut rng = Rng::new(seed.wrapping_mul(1000003) ^ (k as u64) ^ 0xC06);
    let mut st = Stats::default();
    let mut cases = vec![]; let mut cj = vec![];
    let scale = if thorough { 6 } else { 1 };
    // (A) integer expression correspondence
    for i in 0..(60 * scale) {
        let mut r = rng.fork();
        let e = gen_ie(&mut r, 3);
        let sets: Vec<Vec<(i64, i64)>> = (0..3).map(|_| int_set(&mut r)).collect();
        let dts: Vec<DataType> = sets.iter().map(|s| to_dt(&Ty::Int(s.clone()))).collect();
        let tenv: Vec<Vec<[i64; 2]>> = dts.iter().map(|d| dt_to_ivs(d).unwrap()).collect();
        let st_ty = DataType::structured([("a", dts[0].clone()), ("b", dts[1].clone()), ("c", dts[2].clone())]);
        let ex = ie_expr(&e);
        progress(outdir, &format!("int expr {} on {}", ex, st_ty));
        let img = catch_unwind(AssertUnwindSafe(|| ex.super_image(&st_ty).ok().and_then(|t| dt_to_ivs(&t))));
        let img = match img { Ok(x) => x, Err(_) => { st.bump("intexpr_image_panicked"); None } };
        let mut rows = vec![];
        for _ in 0..4 {
            let vs: Vec<i64> = sets.iter().map(|s| { let (a, b) = *r.pick(s); match r.below(4) { 0 => a, 1 => b, 2 => ((a as i128 + b as i128) / 2) as i64, _ => r.range(a, b) } }).collect();
            let row = Value::structured([("a", Value::integer(vs[0])), ("b", Value::integer(vs[1])), ("c", Value::integer(vs[2]))]);
            let y = catch_unwind(AssertUnwindSafe(|| ex.value(&row).ok().and_then(|v| val_to_z(&v)))).unwrap_or(None);
            // oracle: the value lies in the propagated range
            if let (Some(y), Some(t)) = (y, &img) { if !t.iter().any(|[a, b]| *a <= y && y <= *b) {
                st.violation(json!({"kind":"range-excludes-value","function":"integer expression","expression":ex.to_string(),"types":st_ty.to_string(),"row":vs,"value":y,"range":t})); } }
            if y.is_some() && img.is_none() { st.violation(json!({"kind":"range-propagation-failed-although-value-evaluates","function":"integer expression","expression":ex.to_string(),"types":st_ty.to_string(),"row":vs})); }
            rows.push((vs, y));
        }
        let pr = |l: &Vec<[i64; 2]>| coq_list(l, |[a, b]| format!("({},{})", coq_z(*a as i128), coq_z(*b as i128)));
        cases.push(format!("({}, {}, {}, {})", coq_list(&tenv, |l| pr(l)), ie_coq(&e),
            coq_list(&rows, |(vs, y)| format!("({}, {})", coq_list(vs, |v| coq_z(*v as i128)), coq_opt(y, |v| coq_z(*v as i128)))), coq_opt(&img, |l| pr(l))));
        cj.push(json!({"expression": ex.to_string(), "types": st_ty.to_string(), "rows": rows, "image": img}));
        st.case(&format!("{}{}", ex, st_ty), rows.iter().any(|x| x.1.is_some()));
        st.bump("intexpr_cases");
        if i < 1 && k == 0 { st.sample(json!({"stream":"integer expression","expression":ex.to_string(),"types":st_ty.to_string(),"image":img,"rows":rows})); }
    }
    // (B) every scalar function
    let fs = functions();
    for i in 0..(250 * scale) {
        let mut r = rng.fork();
        // (the first rounds: every function once, then at random)
        let (f, n, c) = if (i as usize) < fs.len() { fs[i as usize] } else { *r.pick(&fs) };
        let tys: Vec<Ty> = if (f == F::Round || f == F::Trunc) && n == 2 {
                // a precision ranging over an interval: the extremal result may sit at an interior precision
                let x = (r.range(-999, 999) as f64) / 100.0 + 0.005 * (r.range(0, 1) as f64);
                vec![Ty::Float(vec![(x, x + (r.range(0, 40) as f64) / 100.0)]), Ty::Int(vec![(r.range(-3, 0), r.range(1, 4))])] }
            else if f == F::Case { vec![Ty::Bool(vec![false, true]), arg_ty(&mut r, Cat::Num), arg_ty(&mut r, Cat::Num)] }
            else if f == F::Substr { vec![arg_ty(&mut r, Cat::Txt), Ty::Int(vec![(0, 5)])] }
            else if f == F::Pow { vec![arg_ty(&mut r, Cat::Num), if r.chance(1, 2) { Ty::Int(vec![(-3, 3)]) } else { let a = (r.range(-6, 4) as f64) / 2.0; Ty::Float(vec![(a, a + (r.range(1, 6) as f64) / 2.0)]) }] }
            else if c == Cat::Num && n == 2 && r.chance(1, 6) {
                // many-valued arguments: more boxes than an interval set holds (100 points x 2 or 3 separated values)
                st.bump("many_valued_argument_cases");
                let k = r.range(60, 110);
                let first = if r.chance(1, 2) { Ty::Int((0..k).map(|v| (v, v)).collect()) } else { Ty::Float((0..k.min(100)).map(|v| (v as f64 / 2.0, v as f64 / 2.0)).collect()) };
                let base = *r.pick(&[1000i64, 37, 250]);
                let second = if r.chance(1, 2) { Ty::Int((0..r.range(2, 3)).map(|j| (j * base, j * base)).collect()) } else { Ty::Float((0..r.range(2, 4)).map(|j| ((j * base) as f64 + 0.5, (j * base) as f64 + 0.5)).collect()) };
                if r.chance(1, 2) { vec![first, second] } else { vec![second, first] } }
            else if c == Cat::Num && r.chance(1, 4) {
                // small float ranges around zero (crossing it, touching it, on either side): interior points matter
                (0..n).map(|_| { let a = (r.range(-12, 8) as f64) / 4.0; let b = a + (r.range(1, 16) as f64) / 4.0; Ty::Float(vec![(a, b)]) }).collect() }
            else { (0..n).map(|_| arg_ty(&mut r, c)).collect() };
        let dts: Vec<DataType> = tys.iter().map(to_dt).collect();
        progress(outdir, &format!("function {:?} on {}", f, dts.iter().map(|d| d.to_string()).collect::<Vec<_>>().join(", ")));
        let img = catch_unwind(AssertUnwindSafe(|| f.super_image(&dts).map_err(|e| e.to_string())));
        for _ in 0..4 {
            let vs: Vec<Value> = tys.iter().map(|t| sample(t, &mut r)).collect();
            let y = catch_unwind(AssertUnwindSafe(|| f.value(&vs).ok()));
            // the Optional wrapper turns an evaluation error into none: that is not a value the expression produces
            let y = match y { Ok(Some(v)) if v == Value::none() && !vs.iter().any(|a| *a == Value::none()) => Ok(None), other => other };
            st.evaluations += 1;
            let key = format!("{:?}|{}|{}", f, dts.iter().map(|d| d.to_string()).collect::<Vec<_>>().join(","), vs.iter().map(|v| v.to_string()).collect::<Vec<_>>().join(","));
            // which of the listed weaknesses of sin / cos a deviation falls under
            fn span(t: &Ty) -> (usize, f64, f64) { match t { Ty::Int(v) => (v.len(), v.iter().map(|x| x.0 as f64).fold(f64::INFINITY, f64::min), v.iter().map(|x| x.1 as f64).fold(f64::NEG_INFINITY, f64::max)),
                Ty::Float(v) => (v.len(), v.iter().map(|x| x.0).fold(f64::INFINITY, f64::min), v.iter().map(|x| x.1).fold(f64::NEG_INFINITY, f64::max)), Ty::Opt(x) => span(x), _ => (1, 0.0, 0.0) } }
            let (sn, slo, shi) = span(&tys[0]);
            // an integer range is enumerated into points before the period shift: it behaves as a union
            let enumerated = { fn is_int(t: &Ty) -> bool { match t { Ty::Int(_) | Ty::Bool(_) => true, Ty::Opt(x) => is_int(x), _ => false } } is_int(&tys[0]) };
            let pclass = if slo.abs() > 4.5e15 || shi.abs() > 4.5e15 { "huge-argument" } else if (sn > 1 || enumerated) && shi - slo > 6.3 { "wide-union" } else { "other" };
            let desc = |kind: &str, extra: serde_json::Value| json!({"kind":kind,"function":format!("{:?}", f),"all_arguments_null":vs.iter().all(|a| *a == Value::none()),
                "integer_value_float_range":extra.get("range").and_then(|x| x.as_str()).map(|x| x.starts_with("float") || x.starts_with("option(float")).unwrap_or(false) && extra.get("value").and_then(|x| x.as_str()).map(|x| x.parse::<i64>().is_ok()).unwrap_or(false) && vs.iter().any(|a| matches!(a, Value::Float(x) if x.fract() == 0.0)),
                "periodic_class": if extra.get("ulp_close").and_then(|b| b.as_bool()).unwrap_or(false) { "ulp" } else { pclass },
                "some_argument_null":vs.iter().any(|a| *a == Value::none()) && !vs.iter().all(|a| *a == Value::none()),
                "optional_and_plain_arguments":vs.iter().any(|a| matches!(a, Value::Optional(_))) && !vs.iter().all(|a| matches!(a, Value::Optional(_))),"negative_zero":vs.iter().any(|a| matches!(a, Value::Float(x) if **x == 0.0)) && (dts.iter().any(|d| d.to_string().contains("-0")) || vs.iter().any(|a| matches!(a, Value::Float(x) if **x == 0.0 && x.is_sign_negative()))),"ulp_close":extra.get("ulp_close").and_then(|b| b.as_bool()).unwrap_or(false),"types":dts.iter().map(|d| d.to_string()).collect::<Vec<_>>(),"arguments":vs.iter().map(|v| v.to_string()).collect::<Vec<_>>(),"detail":extra});
            match (&y, &img) {
                (Err(_), _) => { st.bump("value_panicked"); }
                (Ok(None), _) => { st.bump("value_not_defined"); }
                (Ok(Some(y)), Ok(Ok(t))) => { st.distinct.insert(hash_str(&key)); st.bump("value_and_range");
                    if !member(t, y) { st.violation(desc("range-excludes-value", json!({"value":y.to_string(),"range":t.to_string(),"ulp_close":ulp_close(t, y)}))); } }
                (Ok(Some(y)), Ok(Err(e))) => { st.distinct.insert(hash_str(&key)); st.violation(desc("range-propagation-failed-although-value-evaluates", json!({"value":y.to_string(),"error":e}))); }
                (Ok(Some(y)), Err(_)) => { st.distinct.insert(hash_str(&key)); st.violation(desc("range-propagation-panicked-although-value-evaluates", json!({"value":y.to_string()}))); }
            }
        }
        if i < 1 && k == 0 { st.sample(json!({"stream":"function","function":format!("{:?}", f),"types":dts.iter().map(|d| d.to_string()).collect::<Vec<_>>(),"range":img.as_ref().ok().and_then(|x| x.as_ref().ok()).map(|t| t.to_string())})); }
    }
    // (C) every aggregate
    let ags = aggregates();
    for j in 0..(80 * scale) {
        let mut r = rng.fork();
        // (the first rounds: every aggregate once on a long list of distinct values)
        let a = if (j as usize) < ags.len() { ags[j as usize] } else { *r.pick(&ags) };
        let elem = match r.below(7) { 0 => Ty::Int(vec![{ let x = r.range(-20, 20); (x, x + r.range(0, 30)) }]), 1 => Ty::Float(vec![{ let x = (r.range(-40, 40) as f64) / 4.0; (x, x + (r.range(0, 80) as f64) / 4.0) }]),
            2 => Ty::Int(vec![(0, 1)]), 3 => Ty::Float(vec![(0.1, 0.1)]),
            // non-convex element types: value sets and unions of intervals (a mean, a variance ... falls in the gaps)
            4 => Ty::Float({ let n = r.range(2, 4); let mut x = (r.range(-40, 0) as f64) / 4.0; (0..n).map(|_| { let a = x; x += (r.range(4, 60) as f64) / 4.0; (a, a) }).collect() }),
            5 => Ty::Float({ let n = r.range(2, 3); let mut x = (r.range(-40, 0) as f64) / 4.0; (0..n).map(|_| { let a = x; let b = a + (r.range(0, 8) as f64) / 4.0; x = b + (r.range(4, 60) as f64) / 4.0; (a, b) }).collect() }),
            _ => Ty::Int({ let n = r.range(2, 3); let mut x = r.range(-30, 0); (0..n).map(|_| { let a = x; let b = a + r.range(0, 3); x = b + r.range(2, 20); (a, b) }).collect() }) };
        let elem = if r.chance(1, 6) { Ty::Opt(Box::new(elem)) } else { elem };
        // one case in eight: a wide integer range and a long list of pairwise distinct values (more values than the 128 an
        // interval set holds: counts, distinct counts and sums of many elements)
        let wide = (j as usize) < ags.len() || r.chance(1, 8);
        let wide_lo = r.range(-50, 50);
        let elem = if wide { Ty::Int(vec![(wide_lo, wide_lo + r.range(400, 3000))]) } else { elem };
        let lo = r.range(0, 3) as usize; let hi = if wide { r.range(130, 400) as usize } else { lo + r.range(0, 5) as usize };
        let lt = DataType::list(to_dt(&elem), lo, hi);
        progress(outdir, &format!("aggregate {:?} on {}", a, lt));
        let img = catch_unwind(AssertUnwindSafe(|| a.super_image(&lt).map_err(|e| e.to_string())));
        for _ in 0..3 {
            let n = if (j as usize) < ags.len() { hi } else { r.range(lo.max(1) as i64, hi.max(1) as i64) as usize };
            let xs: Vec<Value> = if wide { let step = r.range(1, 3); (0..n).map(|i| Value::integer(wide_lo + i as i64 * step)).collect() } else { (0..n).map(|_| sample(&elem, &mut r)).collect() };
            let l = Value::list(xs.clone());
            if !lt.contains(&l) { st.bump("aggregate_sample_outside_type"); continue; }
            let y = catch_unwind(AssertUnwindSafe(|| a.value(&l).ok()));
            let y = match y { Ok(Some(v)) if v == Value::none() => Ok(None), other => other };
            st.evaluations += 1;
            let desc = |kind: &str, extra: serde_json::Value| json!({"kind":kind,"function":format!("{:?}", a),"ulp_close":extra.get("ulp_close").and_then(|b| b.as_bool()).unwrap_or(false),"types":[lt.to_string()],"arguments":[l.to_string()],"detail":extra});
            match (&y, &img) {
                (Err(_), _) => { st.bump("aggregate_value_panicked"); }
                (Ok(None), _) => { st.bump("aggregate_value_not_defined"); }
                (Ok(Some(y)), Ok(Ok(t))) => { st.distinct.insert(hash_str(&format!("{:?}{}{}", a, lt, l))); st.bump("aggregate_value_and_range");
                    let nan = matches!(y, Value::Float(f) if f.is_nan());
                    if !nan && !member(t, y) { st.violation(desc("range-excludes-value", json!({"value":y.to_string(),"range":t.to_string(),"ulp_close":ulp_close(t, y)}))); } }
                (Ok(Some(y)), Ok(Err(e))) => st.violation(desc("range-propagation-failed-although-value-evaluates", json!({"value":y.to_string(),"error":e}))),
                (Ok(Some(y)), Err(_)) => st.violation(desc("range-propagation-panicked-although-value-evaluates", json!({"value":y.to_string()}))),
            }
        }
    }
    let header = "From QV Require Import Intervals.Model Fn.IntExpr Corr.Lib Corr.C06.";
    let f = write_shards(outdir, "c06_intexpr", header, "c06_case", "intexpr_check", &cases, 1000);
    let mut out = st.to_child_json(RULE);
    out["shards"] = json!({"c06_intexpr": f});
    out["case_json"] = json!({"c06_intexpr": cj});
    let _ = Arc::new(0);
    out
}
