//! C11: interval algebra — correspondence cases for QV/Intervals/Model.v and the law oracle.
use crate::common::*;
use qrlew::data_type::intervals::Intervals;
use serde_json::json;
use std::panic::{catch_unwind, AssertUnwindSafe};

type Ivs = Vec<[i64; 2]>;

#[derive(Clone, Copy, PartialEq)]
pub enum Kind { Int, Float }

/// the implementation under test, behind one interface for i64 and f64 (f64 through the order embedding)
#[derive(Clone)]
enum Imp { I(Intervals<i64>), F(Intervals<f64>) }
impl Imp {
    fn empty(k: Kind) -> Imp { match k { Kind::Int => Imp::I(Intervals::empty()), Kind::Float => Imp::F(Intervals::empty()) } }
    fn get(&self) -> Ivs {
        match self {
            Imp::I(s) => s.iter().map(|[a, b]| [*a, *b]).collect(),
            Imp::F(s) => s.iter().map(|[a, b]| [f64_key(*a), f64_key(*b)]).collect(),
        }
    }
    fn union_interval(self, lo: i64, hi: i64) -> Imp {
        match self { Imp::I(s) => Imp::I(s.union_interval(lo, hi)), Imp::F(s) => Imp::F(s.union_interval(key_f64(lo), key_f64(hi))) }
    }
    fn intersection_interval(self, lo: i64, hi: i64) -> Imp {
        match self { Imp::I(s) => Imp::I(s.intersection_interval(lo, hi)), Imp::F(s) => Imp::F(s.intersection_interval(key_f64(lo), key_f64(hi))) }
    }
    fn union(self, o: Imp) -> Imp {
        match (self, o) { (Imp::I(a), Imp::I(b)) => Imp::I(a.union(b)), (Imp::F(a), Imp::F(b)) => Imp::F(a.union(b)), _ => unreachable!() }
    }
    fn intersection(self, o: Imp) -> Imp {
        match (self, o) { (Imp::I(a), Imp::I(b)) => Imp::I(a.intersection(b)), (Imp::F(a), Imp::F(b)) => Imp::F(a.intersection(b)), _ => unreachable!() }
    }
    fn is_subset_of(&self, o: &Imp) -> bool {
        match (self, o) { (Imp::I(a), Imp::I(b)) => a.is_subset_of(b), (Imp::F(a), Imp::F(b)) => a.is_subset_of(b), _ => unreachable!() }
    }
    fn contains(&self, v: i64) -> bool {
        match self { Imp::I(a) => a.contains(&v), Imp::F(a) => a.contains(&key_f64(v)) }
    }
    fn from_list(k: Kind, l: &[[i64; 2]]) -> Imp {
        l.iter().fold(Imp::empty(k), |s, [a, b]| s.union_interval(*a, *b))
    }
}

#[derive(Clone, Debug)]
pub enum Op { UnionI(i64, i64), InterI(i64, i64), UnionS(Ivs), InterS(Ivs) }

fn ivs_coq(l: &Ivs) -> String { coq_list(l, |[a, b]| format!("({},{})", coq_z(*a as i128), coq_z(*b as i128))) }
fn op_coq(o: &Op) -> String {
    match o {
        Op::UnionI(a, b) => format!("UnionI {} {}", coq_z(*a as i128), coq_z(*b as i128)),
        Op::InterI(a, b) => format!("InterI {} {}", coq_z(*a as i128), coq_z(*b as i128)),
        Op::UnionS(t) => format!("UnionS {}", ivs_coq(t)),
        Op::InterS(t) => format!("InterS {}", ivs_coq(t)),
    }
}
fn op_json(o: &Op) -> serde_json::Value {
    match o {
        Op::UnionI(a, b) => json!(["UnionI", a, b]),
        Op::InterI(a, b) => json!(["InterI", a, b]),
        Op::UnionS(t) => json!(["UnionS", t]),
        Op::InterS(t) => json!(["InterS", t]),
    }
}

fn mem(v: i64, l: &Ivs) -> bool { l.iter().any(|[a, b]| *a <= v && v <= *b) }
fn wf(l: &Ivs) -> bool {
    l.len() < 128 && l.iter().all(|[a, b]| a <= b) && l.windows(2).all(|w| w[0][1] < w[1][0])
}

/// value profiles
struct Prof { kind: Kind, lo: i64, hi: i64, extremes: bool }
fn bound(r: &mut Rng, p: &Prof) -> i64 {
    let v = if p.extremes && r.chance(1, 6) {
        *r.pick(&[i64::MIN, i64::MIN + 1, -1, 0, 1, i64::MAX - 1, i64::MAX])
    } else { r.range(p.lo, p.hi) };
    match p.kind {
        Kind::Int => v,
        Kind::Float => {
            // quarter steps, with the extremes mapped to +-MAX, +-0 and subnormals
            let x = if v == i64::MIN { f64::MIN } else if v == i64::MAX { f64::MAX }
                else if v == i64::MIN + 1 { -f64::MIN_POSITIVE / 4.0 } else if v == i64::MAX - 1 { f64::MIN_POSITIVE / 4.0 }
                else { (v as f64) / 4.0 };
            f64_key(x)
        }
    }
}
fn interval(r: &mut Rng, p: &Prof) -> (i64, i64) {
    let a = bound(r, p);
    let b = if r.chance(1, 4) { a } else { bound(r, p) };
    if a <= b { (a, b) } else { (b, a) }
}
fn rand_list(r: &mut Rng, p: &Prof, n: usize) -> Ivs {
    (0..n).map(|_| { let (a, b) = interval(r, p); [a, b] }).collect()
}
/// many disjoint pieces, to approach / cross the capacity of 128
fn comb(r: &mut Rng, p: &Prof, n: usize) -> Ivs {
    let start = r.range(-50, 50);
    let step = r.range(2, 5);
    let width = r.range(0, step - 1).min(step - 2).max(0);
    let mut v: Ivs = (0..n as i64).map(|i| {
        let a = start + i * step;
        match p.kind { Kind::Int => [a, a + width], Kind::Float => [f64_key(a as f64), f64_key((a + width) as f64)] }
    }).collect();
    // random insertion order
    for i in (1..v.len()).rev() { let j = r.below(i as u64 + 1) as usize; v.swap(i, j); }
    v
}

pub fn run(outdir: &str, seed: u64, thorough: bool) -> serde_json::Value {
    let mut rng = Rng::new(seed ^ 0xC11);
    let mut st = Stats::default();
    let n_hist = if thorough { 20000 } else { 1500 };
    let n_pair = if thorough { 40000 } else { 3000 };
    let mut hist_cases: Vec<String> = vec![];
    let mut hist_json: Vec<serde_json::Value> = vec![];

    for h in 0..n_hist {
        let mut r = rng.fork();
        let kind = if r.chance(1, 3) { Kind::Float } else { Kind::Int };
        let prof = match r.below(4) {
            0 => Prof { kind, lo: 0, hi: 40, extremes: false },
            1 => Prof { kind, lo: -300, hi: 300, extremes: true },
            2 => Prof { kind, lo: -1_000_000, hi: 1_000_000, extremes: true },
            _ => Prof { kind, lo: 0, hi: 12, extremes: false },
        };
        let big = r.chance(1, 4);
        let nops = if big { r.range(1, 40) } else if r.chance(1, 20) { r.range(100, 400) } else { r.range(1, 30) } as usize;
        let mut ops: Vec<Op> = vec![];
        for _ in 0..nops {
            let o = match r.below(if big { 10 } else { 8 }) {
                0..=2 => { let (a, b) = interval(&mut r, &prof); Op::UnionI(a, b) }
                3..=4 => { let (a, b) = interval(&mut r, &prof); Op::InterI(a, b) }
                5 => { let n = r.range(0, 6) as usize; Op::UnionS(Imp::from_list(kind, &rand_list(&mut r, &prof, n)).get()) }
                6 => { let n = r.range(0, 6) as usize; Op::InterS(Imp::from_list(kind, &rand_list(&mut r, &prof, n)).get()) }
                7 => { // malformed: inverted bounds (both sides must panic)
                    if r.chance(1, 10) { let (a, b) = interval(&mut r, &prof); if a < b { Op::UnionI(b, a) } else { Op::InterI(a, b) } }
                    else { let (a, b) = interval(&mut r, &prof); Op::UnionI(a, b) } }
                8 => { let n = r.range(60, 200) as usize; Op::UnionS(Imp::from_list(kind, &comb(&mut r, &prof, n)).get()) }
                _ => { let n = r.range(60, 140) as usize; Op::InterS(Imp::from_list(kind, &comb(&mut r, &prof, n)).get()) }
            };
            ops.push(o);
        }
        // run the implementation, step by step
        let mut cur = Imp::empty(kind);
        let mut digests: Vec<Option<(usize, i128)>> = vec![];
        let mut crossed = false;
        let mut maxlen = 0usize;
        let mut panicked = false;
        let mut executed = 0usize;
        for o in &ops {
            let before = cur.get();
            let c = cur.clone();
            let res = catch_unwind(AssertUnwindSafe(|| match o {
                Op::UnionI(a, b) => c.union_interval(*a, *b),
                Op::InterI(a, b) => c.intersection_interval(*a, *b),
                Op::UnionS(t) => c.union(Imp::from_list(kind, t)),
                Op::InterS(t) => c.intersection(Imp::from_list(kind, t)),
            }));
            executed += 1;
            match res {
                Ok(n) => {
                    let l = n.get();
                    // direct oracle on the implementation: invariants and no lost point
                    if !wf(&l) {
                        st.violation(json!({"kind":"not-well-formed","type": if kind==Kind::Int {"i64"} else {"f64"},"before":before,"op":op_json(o),"after":l}));
                    }
                    let (arg, is_union): (Ivs, bool) = match o {
                        Op::UnionI(a, b) => (vec![[*a, *b]], true), Op::InterI(a, b) => (vec![[*a, *b]], false),
                        Op::UnionS(t) => (t.clone(), true), Op::InterS(t) => (t.clone(), false) };
                    let mut pts: Vec<i64> = vec![];
                    for [a, b] in before.iter().chain(arg.iter()) { for d in [-1i64, 0, 1] { pts.push(a.saturating_add(d)); pts.push(b.saturating_add(d)); } }
                    for v in pts {
                        let must = if is_union { mem(v, &before) || mem(v, &arg) } else { mem(v, &before) && mem(v, &arg) };
                        if must && !mem(v, &l) {
                            st.violation(json!({"kind":"lost-point","type": if kind==Kind::Int {"i64"} else {"f64"},"before":before,"op":op_json(o),"after":l,"point":v}));
                            break;
                        }
                    }
                    if before.len() + arg.len() >= 128 && l.len() <= 1 { crossed = true; }
                    maxlen = maxlen.max(l.len());
                    let sum: i128 = l.iter().map(|[a, b]| *a as i128 + *b as i128).sum();
                    digests.push(Some((l.len(), sum)));
                    cur = n;
                }
                Err(e) => {
                    let inverted = matches!(o, Op::UnionI(a, b) | Op::InterI(a, b) if a > b);
                    if !inverted {
                        st.violation(json!({"kind":"panic","before":before,"op":op_json(o),"message":panic_msg(e)}));
                    }
                    digests.push(None); panicked = true; break;
                }
            }
        }
        let ops_run = &ops[..executed];
        let fin = if panicked { None } else { Some(cur.get()) };
        let case = format!("({}, {}, {})",
            coq_list(ops_run, op_coq),
            coq_list(&digests, |d| coq_opt(d, |(n, s)| format!("({}%N,{})", n, coq_z(*s)))),
            coq_opt(&fin, ivs_coq));
        let canon = format!("{:?}", ops_run);
        st.case(&canon, ops_run.len() >= 2 && maxlen >= 2);
        st.bump(if kind == Kind::Int { "hist_i64" } else { "hist_f64" });
        if crossed { st.bump("hist_crossed_capacity"); }
        if panicked { st.bump("hist_panicked_inverted_bounds"); }
        st.add("hist_ops_total", executed as u64);
        st.bump(&format!("hist_maxlen_{}", if maxlen < 4 { "lt4" } else if maxlen < 32 { "4to31" } else if maxlen < 100 { "32to99" } else { "100to127" }));
        if h < 2 { st.sample(json!({"stream":"history","ops": ops_run.iter().take(12).map(op_json).collect::<Vec<_>>(),"final":fin})); }
        hist_json.push(json!({"ops": ops_run.iter().map(op_json).collect::<Vec<_>>(), "final": fin, "kind": if kind==Kind::Int {"i64"} else {"f64"}}));
        hist_cases.push(case);
    }

    // pairs: union / intersection / subset / contains
    let mut pair_cases: Vec<String> = vec![];
    let mut pair_json: Vec<serde_json::Value> = vec![];
    for p in 0..n_pair {
        let mut r = rng.fork();
        let kind = if r.chance(1, 3) { Kind::Float } else { Kind::Int };
        let prof = match r.below(3) {
            0 => Prof { kind, lo: 0, hi: 30, extremes: false },
            1 => Prof { kind, lo: -200, hi: 200, extremes: true },
            _ => Prof { kind, lo: 0, hi: 400, extremes: false },
        };
        let mk = |r: &mut Rng| -> Ivs {
            match r.below(10) {
                0 => comb(r, &prof, r.clone().range(40, 127) as usize),
                1 => comb(r, &prof, r.clone().range(100, 180) as usize),
                _ => { let n = r.range(0, 8) as usize; rand_list(r, &prof, n) }
            }
        };
        let la = mk(&mut r);
        // B: independent, or derived from A (superset / subset-ish) so that the subset test is often true
        let lb = match r.below(4) {
            0 => { let mut l = la.clone(); let n = r.range(0, 3) as usize; l.extend(rand_list(&mut r, &prof, n)); l }
            1 => la.iter().filter(|_| r.chance(2, 3)).cloned().collect(),
            _ => mk(&mut r),
        };
        let a = Imp::from_list(kind, &la);
        let b = Imp::from_list(kind, &lb);
        let (ga, gb) = (a.get(), b.get());
        let mut cands: Vec<i64> = vec![];
        for [x, y] in ga.iter().chain(gb.iter()).take(6) { cands.extend([x.saturating_sub(1), *x, *y, y.saturating_add(1)]); }
        if cands.is_empty() { cands.push(0); }
        let v = *r.pick(&cands);
        let v = if kind == Kind::Float && (v == i64::MIN || v == i64::MAX || v.abs() > 0x7FF0_0000_0000_0000) { 0 } else { v };
        let res = catch_unwind(AssertUnwindSafe(|| {
            let u = a.clone().union(b.clone()).get();
            let i = a.clone().intersection(b.clone()).get();
            (u, i, a.is_subset_of(&b), b.is_subset_of(&a), a.contains(v), b.contains(v))
        }));
        match res {
            Ok((u, i, sab, sba, ca, cb)) => {
                // the four laws, with membership computed directly on the interval lists
                let pts: Vec<i64> = ga.iter().chain(gb.iter()).flat_map(|[x, y]| [x.saturating_sub(1), *x, *y, y.saturating_add(1)]).collect();
                for w in pts.iter().cloned().chain(std::iter::once(v)) {
                    let (ma, mb) = (mem(w, &ga), mem(w, &gb));
                    let bad = if (ma || mb) && !mem(w, &u) { Some("union-lost-point") }
                        else if ma && mb && !mem(w, &i) { Some("intersection-lost-point") }
                        else if sab && ma && !mb { Some("subset-unsound") }
                        else if sba && mb && !ma { Some("subset-unsound") }
                        else { None };
                    if let Some(kd) = bad {
                        st.violation(json!({"kind":kd,"type": if kind==Kind::Int {"i64"} else {"f64"},"a":ga,"b":gb,"point":w,"union":u,"intersection":i,"a_subset_b":sab,"b_subset_a":sba}));
                        break;
                    }
                }
                if ca != mem(v, &ga) || cb != mem(v, &gb) {
                    st.violation(json!({"kind":"contains-wrong","a":ga,"b":gb,"point":v,"contains_a":ca,"contains_b":cb}));
                }
                if !wf(&u) || !wf(&i) { st.violation(json!({"kind":"not-well-formed","a":ga,"b":gb,"union":u,"intersection":i})); }
                pair_cases.push(format!("({}, {}, {}, ({}, {}, ({}, {}, {}, {})))",
                    ivs_coq(&ga), ivs_coq(&gb), coq_z(v as i128), ivs_coq(&u), ivs_coq(&i),
                    coq_bool(sab), coq_bool(sba), coq_bool(ca), coq_bool(cb)));
                pair_json.push(json!({"a":ga,"b":gb,"v":v,"union":u,"intersection":i,"a_subset_b":sab,"b_subset_a":sba}));
                st.case(&format!("{:?}{:?}{}", ga, gb, v), ga.len() >= 1 && gb.len() >= 1);
                if sab { st.bump("pair_a_subset_b_true"); }
                if ga.len() + gb.len() >= 128 { st.bump("pair_sizes_sum_ge_capacity"); }
                st.bump(if kind == Kind::Int { "pair_i64" } else { "pair_f64" });
                if p < 2 { st.sample(json!({"stream":"pair","a":ga,"b":gb,"v":v,"union":u,"intersection":i,"a_subset_b":sab})); }
            }
            Err(e) => st.violation(json!({"kind":"panic","a":ga,"b":gb,"message":panic_msg(e)})),
        }
    }

    // ---- DataType level: the four laws on the implementation, all modelled variants, cross-variant pairs ----
    {
        use crate::typegen::*;
        use qrlew::data_type::{injection::{Injection as _, InjectInto as _}, value::Value, DataType, DataTyped as _, Variant as _};
        // membership up to the canonical injection the type-level operations themselves use (typegen::embed)
        let mem_dt = |t: &DataType, v: &Value| -> bool { member(t, v) };
        let nd = if thorough { 60000 } else { 4000 };
        for k in 0..nd {
            let mut r = rng.fork();
            let ta = gen_ty(&mut r, 2);
            // B: independent, or a widened / narrowed copy of A so that subset and intersection are often non-trivial
            let tb = match r.below(3) { 0 => gen_ty(&mut r, 2), 1 => widen(&ta, &mut r), _ => { let x = gen_ty(&mut r, 1); if r.chance(1, 2) && !matches!(x, Ty::Opt(_)) { Ty::Opt(Box::new(x)) } else { x } } };
            let (a, b) = (to_dt(&ta), to_dt(&tb));
            // discriminating class for the known finding on struct unions: a struct on one side, different shapes
            let big = |t: &Ty| format!("{:?}", t).contains("90071992547409") || format!("{:?}", t).contains("92233720368547758");
            let negz = |t: &Ty| format!("{:?}", t).contains("-0.0");
            let class = if big(&ta) || big(&tb) { "integer-above-2p53-into-float" } else if negz(&ta) || negz(&tb) { "negative-zero" } else if shape(&ta) != shape(&tb) && (is_composite(&ta) || is_composite(&tb)) { "composite-types-of-different-shape" } else { "other" };
            let va: Vec<Value> = (0..3).map(|_| sample(&ta, &mut r)).collect();
            let vb: Vec<Value> = (0..3).map(|_| sample(&tb, &mut r)).collect();
            let res = catch_unwind(AssertUnwindSafe(|| (a.is_subset_of(&b), a.super_union(&b).ok(), a.super_intersection(&b).ok())));
            st.evaluations += 1;
            let (sub, un, inter) = match res { Ok(x) => x, Err(e) => { st.bump("dt_panicked"); if st.notes.len() < 5 { st.notes.push(format!("panic on {} vs {}: {}", a, b, panic_msg(e))); } continue; } };
            st.distinct.insert(hash_str(&format!("{}|{}", a, b)));
            st.bump(if sub { "dt_subset_true" } else { "dt_subset_false" });
            if un.is_some() { st.bump("dt_union_ok"); } if inter.is_some() { st.bump("dt_intersection_ok"); }
            for v in va.iter().chain(vb.iter()) {
                let own = v.data_type();
                if !own.contains(v) { st.violation(json!({"kind":"value-not-in-own-type","value":v.to_string(),"own_type":own.to_string()})); }
            }
            for v in va.iter() {
                if !a.contains(v) { continue; }
                if sub && !mem_dt(&b, v) { st.violation(json!({"kind":"dt-subset-unsound","class":class,"a":a.to_string(),"b":b.to_string(),"value":v.to_string()})); }
                if let Some(u) = &un { if !mem_dt(u, v) { st.bump(&format!("dtviol_union_{}", class)); st.violation(json!({"kind":"dt-union-lost-value","class":class,"a":a.to_string(),"b":b.to_string(),"union":u.to_string(),"value":v.to_string(),"from":"a"})); } }
                if let Some(i) = &inter { if mem_dt(&b, v) && !mem_dt(i, v) { st.violation(json!({"kind":"dt-intersection-lost-value","class":class,"a":a.to_string(),"b":b.to_string(),"intersection":i.to_string(),"value":v.to_string()})); } }
            }
            for v in vb.iter() {
                if !b.contains(v) { continue; }
                if let Some(u) = &un { if !mem_dt(u, v) { st.violation(json!({"kind":"dt-union-lost-value","class":class,"a":a.to_string(),"b":b.to_string(),"union":u.to_string(),"value":v.to_string(),"from":"b"})); } }
                if let Some(i) = &inter { if mem_dt(&a, v) && !mem_dt(i, v) { st.violation(json!({"kind":"dt-intersection-lost-value","class":class,"a":a.to_string(),"b":b.to_string(),"intersection":i.to_string(),"value":v.to_string()})); } }
            }
            if k < 1 { st.sample(json!({"stream":"datatype-laws","a":a.to_string(),"b":b.to_string(),"a_subset_b":sub,"union":un.map(|u| u.to_string()),"intersection":inter.map(|u| u.to_string())})); }
        }
    }
    // ---- degenerate types: Null, Any, the types inferred from empty and small values, lists over an empty element type ----
    {
        use crate::typegen::*;
        use qrlew::data_type::{value::Value, DataType, DataTyped as _, Variant as _};
        let empty_list = Value::list(Vec::<Value>::new());
        let degenerate: Vec<(DataType, Vec<Value>)> = vec![
            (empty_list.data_type(), vec![empty_list.clone()]),
            (DataType::list(DataType::Null, 0, 0), vec![empty_list.clone()]),
            (DataType::list(DataType::Null, 0, 3), vec![empty_list.clone()]),
            (DataType::list(DataType::integer_interval(0, 10), 0, 0), vec![empty_list.clone()]),
            (DataType::list(DataType::integer_interval(0, 10), 0, 2), vec![empty_list.clone(), Value::list(vec![Value::integer(3)])]),
            (Value::list(vec![Value::integer(3), Value::integer(4)]).data_type(), vec![Value::list(vec![Value::integer(3), Value::integer(4)])]),
            (DataType::optional(DataType::Null), vec![Value::none()]),
            (Value::none().data_type(), vec![Value::none()]),
            (DataType::Null, vec![]),
            (DataType::integer_interval(5, 5), vec![Value::integer(5)]),
        ];
        let targets: Vec<DataType> = vec![DataType::list(DataType::integer_interval(0, 10), 2, 5), DataType::list(DataType::integer_interval(0, 10), 1, 1), DataType::list(DataType::integer_interval(0, 10), 0, 5),
            DataType::list(DataType::text(), 1, 3), DataType::list(DataType::Null, 1, 2), DataType::optional(DataType::integer_interval(0, 10)), DataType::integer_interval(0, 10), DataType::Null, DataType::Any,
            DataType::list(DataType::optional(DataType::float_interval(0.0, 1.0)), 0, 1), DataType::optional(DataType::list(DataType::integer_interval(0, 10), 2, 2))];
        let n_gen = if thorough { 400 } else { 40 };
        let mut all_targets = targets.clone();
        for _ in 0..n_gen { let mut r = rng.fork(); all_targets.push(to_dt(&gen_ty(&mut r, 2))); }
        for (a, ws) in degenerate.iter() {
            for b in all_targets.iter() {
                let res = catch_unwind(AssertUnwindSafe(|| (a.is_subset_of(b), b.is_subset_of(a), a.super_union(b).ok(), a.super_intersection(b).ok())));
                st.evaluations += 1; st.distinct.insert(hash_str(&format!("deg{}|{}", a, b))); st.bump("dt_degenerate_pairs");
                let Ok((sab, _sba, un, inter)) = res else { st.bump("dt_panicked"); continue };
                // two composite types of different variants: the listed finding on approximate intersections
                let composite = |t: &DataType| matches!(t, DataType::Optional(_) | DataType::List(_) | DataType::Struct(_));
                let class = if std::mem::discriminant(a) != std::mem::discriminant(b) && (composite(a) || composite(b)) { "composite-types-of-different-shape" } else { "degenerate-type" };
                for v in ws.iter() {
                    if !a.contains(v) { st.violation(json!({"kind":"value-not-in-own-type","class":class,"value":v.to_string(),"own_type":a.to_string()})); continue; }
                    if sab && !member(b, v) { st.violation(json!({"kind":"dt-subset-unsound","class":class,"a":a.to_string(),"b":b.to_string(),"value":v.to_string()})); }
                    if let Some(u) = &un { if !member(u, v) { st.violation(json!({"kind":"dt-union-lost-value","class":class,"a":a.to_string(),"b":b.to_string(),"union":u.to_string(),"value":v.to_string(),"from":"a"})); } }
                    // (for these witnesses "in b" is the library's own contains: an empty list is not the one-element list holding it)
                    if let Some(i) = &inter { if b.contains(v) && !member(i, v) { st.violation(json!({"kind":"dt-intersection-lost-value","class":class,"a":a.to_string(),"b":b.to_string(),"intersection":i.to_string(),"value":v.to_string()})); } }
                }
            }
        }
    }
    // ---- tagged unions (DataType::Union): fields shared by both sides or private to one ----
    {
        use crate::typegen::*;
        use qrlew::data_type::{value::Value, DataType, Variant as _};
        let nu = if thorough { 6000 } else { 400 };
        for _ in 0..nu {
            let mut r = rng.fork();
            let names = ["a", "b", "l", "r"];
            let mk = |r: &mut Rng| -> Vec<(String, Ty)> { let mut fs: Vec<(String, Ty)> = vec![]; for n in names.iter() { if r.chance(1, 2) { fs.push((n.to_string(), gen_ty(r, 0))); } } if fs.is_empty() { fs.push(("a".to_string(), gen_ty(r, 0))); } fs };
            let fa = mk(&mut r);
            // the other side: its own fields, often sharing a name with a type of the same kind that is wider, narrower or disjoint
            let mut fb = mk(&mut r);
            for (n, t) in fa.iter() { if r.chance(1, 2) { fb.retain(|(m, _)| m != n); fb.push((n.clone(), match r.below(3) { 0 => widen(t, &mut r), 1 => t.clone(), _ => gen_ty(&mut r, 0) })); } }
            let a = DataType::union(fa.iter().map(|(n, t)| (n.as_str(), to_dt(t))).collect::<Vec<_>>());
            let b = DataType::union(fb.iter().map(|(n, t)| (n.as_str(), to_dt(t))).collect::<Vec<_>>());
            // witnesses: (tag, value); membership in a union type is membership of the value in the type of its tag, up to the
            // canonical injections (typegen::member), as for the other variants
            let wa: Vec<(String, Value)> = fa.iter().map(|(n, t)| (n.clone(), sample(t, &mut r))).collect();
            let wb: Vec<(String, Value)> = fb.iter().map(|(n, t)| (n.clone(), sample(t, &mut r))).collect();
            let umem = |t: &DataType, w: &(String, Value)| -> bool { match t { DataType::Union(u) => u.field(&w.0).map(|(_, ft)| member(ft, &w.1)).unwrap_or(false), _ => false } };
            let res = catch_unwind(AssertUnwindSafe(|| (a.is_subset_of(&b), a.super_union(&b).ok(), a.super_intersection(&b).ok())));
            st.evaluations += 1; st.distinct.insert(hash_str(&format!("un{}|{}", a, b))); st.bump("dt_union_variant_pairs");
            let Ok((sab, un, inter)) = res else { st.bump("dt_panicked"); continue };
            let inb = |v: &(String, Value)| umem(&b, v);
            let ina = |v: &(String, Value)| umem(&a, v);
            for v in wa.iter() {
                if !ina(v) { continue; }
                if sab && !inb(v) { st.violation(json!({"kind":"dt-subset-unsound","class":"tagged-unions","a":a.to_string(),"b":b.to_string(),"value":format!("{{{}: {}}}", v.0, v.1)})); }
                if let Some(u) = &un { if !umem(u, v) { st.violation(json!({"kind":"dt-union-lost-value","class":"tagged-unions","a":a.to_string(),"b":b.to_string(),"union":u.to_string(),"value":format!("{{{}: {}}}", v.0, v.1),"from":"a"})); } }
                if let Some(i) = &inter { if inb(v) && !umem(i, v) { st.violation(json!({"kind":"dt-intersection-lost-value","class":"tagged-unions","a":a.to_string(),"b":b.to_string(),"intersection":i.to_string(),"value":format!("{{{}: {}}}", v.0, v.1)})); } }
            }
            for v in wb.iter() {
                if !inb(v) { continue; }
                if let Some(u) = &un { if !umem(u, v) { st.violation(json!({"kind":"dt-union-lost-value","class":"tagged-unions","a":a.to_string(),"b":b.to_string(),"union":u.to_string(),"value":format!("{{{}: {}}}", v.0, v.1),"from":"b"})); } }
            }
        }
    }
    {
        use qrlew::data_type::{value::Value, DataType, Variant as _};
        use crate::typegen::member;
        // pinned witnesses of the known findings
        let a = DataType::list(DataType::optional(DataType::boolean()), 0, 1);
        let b = DataType::optional(DataType::float_min(-5.5));
        let i = a.super_intersection(&b).ok();
        let v = Value::none();
        st.known.push(json!({"finding":"C11-intersection-composite-different-shape","reproduced": i.as_ref().map(|i| member(&a, &v) && member(&b, &v) && !member(i, &v)).unwrap_or(false),
            "a":a.to_string(),"b":b.to_string(),"intersection":i.map(|x| x.to_string()),"value":"none"}));
        let a = DataType::integer_value(9007199254740993); let b = DataType::float_values([5.0, 9007199254740992.0]);
        let i = a.super_intersection(&b).ok(); let v = Value::integer(9007199254740993);
        st.known.push(json!({"finding":"C11-int-float-above-2p53","reproduced": i.as_ref().map(|i| member(&a, &v) && member(&b, &v) && !member(i, &v)).unwrap_or(false),
            "a":a.to_string(),"b":b.to_string(),"intersection":i.map(|x| x.to_string()),"value":"9007199254740993"}));
    }
    let header = "From QV Require Import Intervals.Model Corr.Lib Corr.C11.";
    let f1 = write_shards(outdir, "c11_hist", header, "list op * list (option (N * Z)) * option (list (Z * Z))", "hist_check", &hist_cases, if thorough { 400 } else { 100 });
    let f2 = write_shards(outdir, "c11_pair", header, "list (Z*Z) * list (Z*Z) * Z * (list (Z*Z) * list (Z*Z) * (bool * bool * bool * bool))", "pair_check", &pair_cases, if thorough { 800 } else { 200 });
    std::fs::write(format!("{}/c11_hist.json", outdir), serde_json::to_string(&hist_json).unwrap()).unwrap();
    std::fs::write(format!("{}/c11_pair.json", outdir), serde_json::to_string(&pair_json).unwrap()).unwrap();
    let mut out = st.to_json("histories: random operation lists on Intervals<i64>/<f64> from the empty set (non-trivial: >= 2 operations and some state with >= 2 intervals; distinct by operation list); pairs: two sets and a point (non-trivial: both non-empty; distinct by (A,B,v))");
    out["shards"] = json!({"c11_hist": f1, "c11_pair": f2});
    out
}
