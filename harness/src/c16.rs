//! C16: compilation is deterministic and rendering is a fixpoint.
//! Correspondence: the real namer (counter requests) and Encoder against QV/Namer/Model.v.
//! Oracle: the same SQL compiled again after other compilations and counter requests, from several
//! threads, rendered twice, re-parsed and rendered again; schemas compared, results compared on SQLite.
use crate::c08::render;
use crate::common::*;
use crate::sqlite::*;
use crate::world::*;
use qrlew::{namer, encoder::{Encoder, BASE_37}, data_type::DataTyped, relation::{Relation, Variant as _}};
use serde_json::json;
use std::panic::{catch_unwind, AssertUnwindSafe};

fn schema_sig(rel: &Relation) -> Vec<(String, String)> { rel.schema().iter().map(|f| (f.name().to_string(), f.data_type().to_string())).collect() }

fn compile(w: &World, sql: &str) -> Option<Relation> { match catch_unwind(AssertUnwindSafe(|| to_relation(w, sql))) { Ok(Ok(r)) => Some(r), _ => None } }

/// select lists with unnamed items (implicit aliases), some of them repeated
fn unnamed_query(r: &mut Rng) -> String {
    let (t, cols): (&str, Vec<&str>) = match r.below(3) { 0 => ("users", vec!["age", "income", "id"]), 1 => ("orders", vec!["amount", "id", "user_id"]), _ => ("items", vec!["price", "order_id"]) };
    let agg = r.chance(1, 3);
    let mut items: Vec<String> = vec![];
    for _ in 0..r.range(1, 4) {
        let c = *r.pick(&cols);
        let e = match r.below(4) { 0 => format!("t.{} + {}", c, r.range(1, 3)), 1 => format!("t.{} * 2", c), 2 => format!("CASE WHEN t.{} > 3 THEN 1 ELSE 0 END", c), _ => format!("t.{}", c) };
        items.push(if agg { format!("{}({})", r.pick(&["SUM", "COUNT", "MAX", "AVG"]), e) } else { e });
    }
    if r.chance(1, 2) { let k = r.below(items.len() as u64) as usize; let dup = items[k].clone(); items.push(dup); }
    if r.chance(1, 3) { let k = r.below(items.len() as u64) as usize; items[k] = format!("{} AS named{}", items[k], k); }
    format!("SELECT {} FROM {} AS t{}", items.join(", "), t, if r.chance(1, 3) { " WHERE t.id > 3" } else { "" }).replace("t.id > 3", if t == "items" { "t.order_id > 3" } else { "t.id > 3" })
}

pub fn run(outdir: &str, seed: u64, thorough: bool) -> serde_json::Value {
    let w = world();
    let mut rng = Rng::new(seed ^ 0xC16);
    let mut st = Stats::default();

    // ---- correspondence: counter requests on the real namer
    let prefixes = ["map", "field", "", "UNIFORM_SAMPLING", "join", "x y"];
    let mut seqs: Vec<String> = vec![];
    for _ in 0..(if thorough { 2000 } else { 300 }) {
        let mut r = rng.fork();
        namer::reset();
        let mut reqs = vec![]; let mut outs = vec![];
        for _ in 0..r.range(1, 14) {
            let p = *r.pick(&prefixes);
            match r.below(8) {
                0 => { namer::reset(); reqs.push("RReset".to_string()); outs.push("OUnit".to_string()); }
                1 | 2 => { let id = namer::new_id(p); reqs.push(format!("RId {}", coq_string(p))); outs.push(format!("OId {}%N", id)); }
                _ => { let n = namer::new_name(p); reqs.push(format!("RNew {}", coq_string(p))); outs.push(format!("OName {}", coq_string(&n))); }
            }
        }
        seqs.push(format!("([{}], [{}])", reqs.join("; "), outs.join("; ")));
        st.bump("namer_sequences");
    }
    let enc = Encoder::new(BASE_37, 4);
    let mut encs: Vec<String> = vec![];
    for i in 0..(if thorough { 4000 } else { 600 }) {
        let x: u64 = match i { 0 => 0, 1 => u64::MAX, 2 => 37u64.pow(4), 3 => 37u64.pow(4) - 1, _ => rng.next() >> rng.below(64) };
        encs.push(format!("({}%N, {})", x, coq_string(&enc.encode(x))));
    }
    let header = "From Coq Require Import String List NArith. Import ListNotations.\nFrom QV Require Import Namer.Model Corr.Lib Corr.C16.\nOpen Scope string_scope.";
    let f1 = write_shards(outdir, "c16_namer", header, "seq_case", "seq_check", &seqs, 500);
    let f2 = write_shards(outdir, "c16_encode", header, "enc_case", "enc_check", &encs, 1000);

    // ---- oracle on the implementation
    let n = if thorough { 3000 } else { 200 };
    let targeted = ["SELECT RANDOM() AS r, t.age AS a FROM users AS t", "SELECT t.age AS a FROM users AS t WHERE RANDOM() < 0.5",
        // joins whose condition is built from a set of shared columns
        "SELECT * FROM (SELECT t.id AS k1, t.age AS k2, t.city AS a FROM users AS t) AS x NATURAL JOIN (SELECT u.id AS k1, u.age AS k2, u.income AS b FROM users AS u) AS y",
        "SELECT * FROM (SELECT t.id AS k1, t.age AS k2, t.city AS k3, t.score AS a FROM users AS t) AS x NATURAL LEFT JOIN (SELECT u.id AS k1, u.age AS k2, u.city AS k3, u.income AS b FROM users AS u) AS y",
        "SELECT * FROM (SELECT t.id AS k1, t.age AS k2, t.city AS a FROM users AS t) AS x JOIN (SELECT u.id AS k1, u.age AS k2, u.income AS b FROM users AS u) AS y USING (k1, k2)",
        "SELECT * FROM cities NATURAL JOIN users",
        // functions without argument whose value is the clock or a constant: their type may not depend on when a thread started
        "SELECT x.a AS a, x.ts AS ts FROM (SELECT t.age AS a, CURRENT_TIMESTAMP AS ts FROM users AS t WHERE t.age > 20) AS x ORDER BY x.a LIMIT 10",
        "SELECT t.age AS a, CURRENT_DATE AS d, CURRENT_TIME AS c FROM users AS t", "SELECT t.age * PI() AS a FROM users AS t",
        // set operations whose operands name their columns differently (the output names are generated)
        "SELECT t.age AS a FROM users AS t UNION ALL SELECT o.user_id AS b FROM orders AS o", "SELECT t.age AS a, t.id AS i FROM users AS t UNION SELECT o.user_id AS b, o.id AS j FROM orders AS o",
        "SELECT t.age AS a FROM users AS t EXCEPT SELECT o.user_id AS b FROM orders AS o", "SELECT x.a AS c FROM (SELECT t.age AS a FROM users AS t INTERSECT SELECT o.user_id AS b FROM orders AS o) AS x",
        "SELECT t.city AS c, COUNT(DISTINCT t.age) AS a, SUM(DISTINCT t.income) AS b, COUNT(t.id) AS n FROM users AS t GROUP BY t.city"];
    // ... and the constructs the tree generator does not produce (the templates of C08)
    let targeted: Vec<String> = targeted.iter().map(|q| q.to_string()).chain(crate::c08::templates().into_iter().filter(|(n, _)| *n != "string-literal-adjacent-quotes").map(|(_, q)| q.replace("{k}", "4"))).collect();
    let mut made = 0; let mut attempts = 0;
    while made < n && attempts < n * 20 {
        attempts += 1;
        let mut r = rng.fork();
        let depth = r.range(0, 2) as u32;
        let sql = if attempts <= targeted.len() { targeted[attempts - 1].to_string() } else if r.chance(1, 4) { unnamed_query(&mut r) } else { let mut g = QGen::new(&mut r, &w.specs); g.bool_items = true; g.query(depth).0 };
        let class = if sql.to_uppercase().contains("RANDOM()") { "random" } else { "plain" };
        let Some(rel1) = compile(&w, &sql) else { st.bump("not_compiled"); continue };
        made += 1; st.evaluations += 1; st.distinct.insert(hash_str(&sql));
        let text1 = render(&rel1);
        // (a) again, after other compilations and counter requests
        for _ in 0..r.range(0, 5) { namer::new_name(*r.pick(&prefixes)); namer::new_id("UNIFORM_SAMPLING"); }
        if r.chance(1, 2) { let mut g = QGen::new(&mut r, &w.specs); let other = g.query(1).0; let _ = compile(&w, &other); }
        if r.chance(1, 4) { namer::reset(); }
        let Some(rel2) = compile(&w, &sql) else { st.violation(json!({"kind":"second-compilation-fails","class":class,"query":sql})); continue };
        st.bump("recompiled");
        if rel1 != rel2 || rel1.to_string() != rel2.to_string() || schema_sig(&rel1) != schema_sig(&rel2) || text1 != render(&rel2) {
            st.violation(json!({"kind":"second-compilation-differs","class":class,"query":sql,"first":rel1.name(),"second":rel2.name(),
                "first_sql":text1.chars().take(300).collect::<String>(),"second_sql":render(&rel2).chars().take(300).collect::<String>()}));
        }
        // (b) from several threads, each with its own interleaved other compilations
        if made % 4 == 0 || attempts <= targeted.len() {
            let results: Vec<Option<(String, String, Vec<(String, String)>)>> = std::thread::scope(|sc| {
                let hs: Vec<_> = (0..4u64).map(|t| { let sql = sql.clone(); let s2 = seed ^ t; sc.spawn(move || {
                    let w = world(); let mut r = Rng::new(s2);
                    for _ in 0..(t as usize) { let mut g = QGen::new(&mut r, &w.specs); let o = g.query(1).0; let _ = compile(&w, &o); namer::new_name("map"); }
                    compile(&w, &sql).map(|rel| (rel.to_string(), render(&rel), schema_sig(&rel))) }) }).collect();
                hs.into_iter().map(|h| h.join().ok().flatten()).collect() });
            st.bump("thread_rounds");
            for res in results { match res {
                Some((d, t, s)) => if d != rel1.to_string() || t != text1 || s != schema_sig(&rel1) { st.violation(json!({"kind":"compilation-in-another-thread-differs","class":class,"query":sql})); break; },
                None => { st.violation(json!({"kind":"compilation-in-another-thread-fails","class":class,"query":sql})); break; } } }
        }
        // (c0) the rendering names every CTE once: two definitions under one name cannot be read back as the relation they came from
        if let Ok(q) = qrlew::sql::parse(&text1) { if let Some(with) = &q.with {
            let mut seen = std::collections::BTreeSet::new();
            for c in with.cte_tables.iter() { if !seen.insert(c.alias.name.value.clone()) { st.violation(json!({"kind":"rendered-sql-defines-a-cte-twice","class":class,"query":sql,"cte":c.alias.name.value,"rendered":text1.chars().take(600).collect::<String>()})); break; } }
        } }
        // (c) rendering twice
        if render(&rel1) != text1 { st.violation(json!({"kind":"rendering-twice-differs","class":class,"query":sql})); }
        // (d) re-parse the rendered text: same output schema, same results; and once more
        match compile(&w, &text1) {
            None => { st.violation(json!({"kind":"rendered-sql-does-not-compile","class":class,"query":sql,"rendered":text1.chars().take(400).collect::<String>()})); }
            Some(rel3) => {
                st.bump("reparsed");
                let (s1, s3) = (schema_sig(&rel1), schema_sig(&rel3));
                if s1.iter().map(|x| &x.0).collect::<Vec<_>>() != s3.iter().map(|x| &x.0).collect::<Vec<_>>() {
                    st.violation(json!({"kind":"reparsed-schema-names-differ","class":class,"query":sql,"schema":s1,"reparsed":s3}));
                } else if s1 != s3 {
                    st.violation(json!({"kind":"reparsed-schema-types-differ","class":class,"query":sql,"schema":s1.iter().zip(s3.iter()).filter(|(a, b)| a != b).take(3).collect::<Vec<_>>(),"rendered":text1.chars().take(3000).collect::<String>()}));
                }
                // the declared size is part of the meaning: a LIMIT / OFFSET window repeated by the rendering changes it
                if rel1.size() != rel3.size() { st.violation(json!({"kind":"reparsed-size-differs","class":class,"query":sql,"size":rel1.size().to_string(),"reparsed":rel3.size().to_string(),"rendered":text1.chars().take(600).collect::<String>()})); }
                let text3 = render(&rel3);
                if r.chance(1, 2) {
                    let data = gen_data(&mut r, &w.specs, 8);
                    let db = Db::new(&w.specs, &data);
                    if let (Ok((_, a)), Ok((_, b))) = (db.query(&text1), db.query(&text3)) {
                        st.bump("executed_pairs");
                        // ORDER BY / LIMIT windows are compared as bags only when the window is total (left to C08)
                        // (the number of rows of a window does not depend on the order)
                        if class != "random" && a.len() != b.len() { st.violation(json!({"kind":"reparsed-query-returns-other-row-count","class":class,"query":sql,"rows":[a.len(), b.len()]})); }
                        else if !sql.to_uppercase().contains("LIMIT") && class != "random" && bag(&a) != bag(&b) { st.violation(json!({"kind":"reparsed-query-returns-other-rows","class":class,"query":sql})); }
                    }
                }
                if let Some(rel4) = compile(&w, &text3) { if schema_sig(&rel4) != s3 { st.violation(json!({"kind":"second-reparse-schema-differs","class":class,"query":sql})); } }
            }
        }
        if made <= 2 { st.sample(json!({"query":sql,"name":rel1.name()})); }
    }
    // (e) order of calls within one thread: B compiled after A in a fresh thread vs B compiled alone in a fresh
    // thread, for every ordered pair of a pool that varies arities, casts and optional arguments of the
    // functions whose implementations are built on demand
    let pool = ["SELECT CONCAT(t.city, t.city) AS x FROM users AS t", "SELECT CONCAT(t.city, t.city, t.city) AS x FROM users AS t",
        "SELECT CONCAT(t.city, '-', o.status, '!') AS x FROM users AS t JOIN orders AS o ON t.id = o.user_id",
        "SELECT COALESCE(t.score, 0) AS x FROM users AS t", "SELECT COALESCE(t.score, t.income) AS x FROM users AS t", "SELECT COALESCE(i.qty, 1) AS x FROM items AS i",
        "SELECT CAST(t.age AS TEXT) AS x FROM users AS t", "SELECT CAST(t.income AS INTEGER) AS x FROM users AS t", "SELECT CAST(t.id AS FLOAT) AS x FROM users AS t", "SELECT CAST(t.city AS TEXT) AS x FROM users AS t",
        "SELECT SUBSTR(t.city, 2) AS x FROM users AS t", "SELECT SUBSTR(t.city, 1, 2) AS x FROM users AS t",
        "SELECT ROUND(t.income) AS x FROM users AS t", "SELECT ROUND(t.income, 1) AS x FROM users AS t",
        "SELECT t.city IN ('Paris', 'Lyon') AS x FROM users AS t", "SELECT t.age IN (18, 19, 20) AS x FROM users AS t",
        "SELECT LEAST(t.age, 30) AS x FROM users AS t", "SELECT GREATEST(t.age, t.id, 40) AS x FROM users AS t",
        "SELECT CASE WHEN t.age > 30 THEN t.city ELSE 'none' END AS x FROM users AS t", "SELECT CASE WHEN t.age > 30 THEN 1 WHEN t.age > 20 THEN 2 ELSE 3 END AS x FROM users AS t",
        "SELECT t.city AS c, COUNT(t.id) AS n, SUM(t.income) AS s FROM users AS t GROUP BY t.city", "SELECT o.status AS c, AVG(o.amount) AS n FROM orders AS o GROUP BY o.status",
        "SELECT t.age AS a FROM users AS t UNION ALL SELECT o.user_id AS b FROM orders AS o", "SELECT t.id AS i FROM users AS t EXCEPT SELECT o.id AS j FROM orders AS o"];
    let alone: Vec<Option<(String, String, Vec<(String, String)>)>> = pool.iter().map(|q| { let q = q.to_string();
        std::thread::spawn(move || { let w = world(); compile(&w, &q).map(|rel| (format!("{:?}", rel), render(&rel), schema_sig(&rel))) }).join().ok().flatten() }).collect();
    for (i, a) in pool.iter().enumerate() {
        for (j, b) in pool.iter().enumerate() {
            if i == j || alone[j].is_none() || alone[i].is_none() { continue; }
            if !thorough && (i * 31 + j * 17 + seed as usize) % 2 == 0 && !(a.contains("CONCAT") && b.contains("CONCAT")) && !(a.contains("COALESCE") && b.contains("COALESCE")) { continue; }
            let (qa, qb) = (a.to_string(), b.to_string());
            let after = std::thread::spawn(move || { let w = world(); let _ = compile(&w, &qa); compile(&w, &qb).map(|rel| (format!("{:?}", rel), render(&rel), schema_sig(&rel))) }).join().ok().flatten();
            st.evaluations += 1; st.bump("history_pairs");
            st.distinct.insert(hash_str(&format!("{}|{}", a, b)));
            match (&after, &alone[j]) {
                (Some(x), Some(y)) => if x != y {
                    let what = if x.2 != y.2 { "schema" } else if x.1 != y.1 { "rendered SQL" } else { "relation" };
                    st.violation(json!({"kind":"compilation-depends-on-earlier-compilation","class":"plain","earlier":a,"query":b,"differs_in":what,
                        "schema_alone":y.2,"schema_after":x.2}));
                },
                (None, _) => st.violation(json!({"kind":"compilation-after-another-fails","class":"plain","earlier":a,"query":b})),
                _ => {}
            }
        }
    }
    // (f) the same text compiled many times in a row, nothing else happening: every compilation gives the same relation
    // (a type computed through a hash map keyed by values whose equality and hash disagree changes with the hasher's seed,
    // about once in sixty compilations)
    let repeated = ["SELECT s4.e3 + s4.c2 AS x FROM (SELECT t1.qty AS c2, -(-t1.qty) AS e3 FROM items AS t1) AS s4",
        "SELECT s8.a6 AS g9, SUM(s8.g5 + 7) AS a10, MIN(- s8.a6) AS a12 FROM (SELECT s4.c2 AS g5, COUNT(*) AS a6, STDDEV(s4.e3 + s4.c2) AS a7 FROM (SELECT t1.qty AS c2, -(-t1.qty) AS e3 FROM items AS t1) AS s4 GROUP BY s4.c2) AS s8 GROUP BY s8.a6",
        "SELECT t.age + CAST(t.age AS FLOAT) AS x, ABS(t.id) - t.id AS y FROM users AS t", "SELECT -(-t.age) * t.age AS x, CASE WHEN t.age > 30 THEN -(-t.id) ELSE t.id END AS y FROM users AS t",
        "SELECT o.amount AS a, u.age AS b FROM orders AS o JOIN users AS u ON o.user_id = u.id WHERE -(-u.age) > o.user_id"];
    for q in repeated.iter() {
        let Some(first) = compile(&w, q) else { st.bump("repeated_query_not_compiled"); continue };
        let (d0, t0) = (format!("{:?}", first), render(&first));
        let reps = if thorough { 1500 } else { 400 };
        st.evaluations += 1; st.distinct.insert(hash_str(&format!("repeat{}", q))); st.add("repeated_compilations", reps as u64);
        for i in 0..reps {
            let Some(rel) = compile(&w, q) else { st.violation(json!({"kind":"second-compilation-fails","class":"plain","query":q})); break };
            if rel != first || format!("{:?}", rel) != d0 || render(&rel) != t0 {
                let (s0, s1) = (schema_sig(&first), schema_sig(&rel));
                st.violation(json!({"kind":"compilation-differs-from-one-time-to-the-next","class":"plain","query":q,"repetition":i,"schema_first":s0,"schema_now":s1,"first":first.name(),"now":rel.name()}));
                break;
            }
        }
    }
    let mut out = st.to_json("generated queries of the supported fragment, select lists with unnamed and repeated items (implicit aliases), and two queries with RANDOM(): compiled, compiled again after 0-5 counter requests / another compilation / a reset, compiled in 4 threads with interleaved other compilations, rendered twice, rendered text re-parsed (schema names, order, types; results on SQLite) and re-parsed once more; ordered pairs of a 22-query pool of on-demand function implementations (CONCAT / COALESCE / CAST / SUBSTR / ROUND / IN / LEAST / CASE arities): the second compiled after the first in a fresh thread vs alone; distinct by query text");
    out["shards"] = json!({"c16_namer": f1, "c16_encode": f2});
    out
}
