mod common;
mod c11;
mod c15;
mod c16;
mod c17;
mod c18;
mod world;
mod rules;
mod ir;
mod c03;
mod typegen;
mod c12;
mod c06;
mod c10;
mod sqlite;
mod c08;
mod c07;
mod evalx;
mod c14;
mod dp;

fn main() {
    let args: Vec<String> = std::env::args().collect();
    if args.len() < 3 { eprintln!("usage: qvh <property> <outdir> [--seed N] [--tier quick|thorough]"); std::process::exit(2); }
    let prop = args[1].clone();
    let outdir = args[2].clone();
    let mut seed: u64 = 1;
    let mut thorough = false;
    let mut i = 3;
    while i < args.len() {
        match args[i].as_str() {
            "--seed" => { seed = args[i + 1].parse().unwrap_or(1); i += 1; }
            "--tier" => { thorough = args[i + 1] == "thorough"; i += 1; }
            _ => {}
        }
        i += 1;
    }
    if prop != "SHOW" && prop != "PROBE" && prop != "TRANSLATE" && prop != "TABREF" && prop != "X18" && prop != "REPARSE" && prop != "REPEAT" && prop != "FLAKY" && prop != "IMG" { std::fs::create_dir_all(&outdir).unwrap(); }
    // panics are outcomes, not noise
    if std::env::var("QV_DEBUG").is_err() { common::install_panic_recorder(); }
    if prop == "IMG" {
        // developer aid: image of x / y and x ^ y on two float intervals "a,b" "c,d"
        use qrlew::data_type::{function::Function as _, DataType};
        let iv = |t: &str| { let v: Vec<f64> = t.split(',').map(|x| x.parse().unwrap()).collect(); DataType::float_interval(v[0], v[1]) };
        let (a, b) = (iv(&outdir), iv(args.get(3).map(|s| s.as_str()).unwrap_or("0,1")));
        let st = DataType::structured([("x", a.clone()), ("y", b.clone())]);
        for (n, e) in [("divide", qrlew::expr::Expr::divide(qrlew::expr::Expr::col("x"), qrlew::expr::Expr::col("y"))), ("pow", qrlew::expr::Expr::pow(qrlew::expr::Expr::col("x"), qrlew::expr::Expr::col("y")))] {
            println!("{} {:?}", n, e.super_image(&st).map(|t| t.to_string()));
        }
        return;
    }
    if prop == "PROBE" { common::install_panic_recorder(); c17::probe(&outdir, args.get(3).map(|s| s.as_str()).unwrap_or("postgresql")); return; }
    if prop == "FLAKY" {
        use qrlew::data_type::{function::{self, Function as _}, DataType};
        use qrlew::expr::Expr;
        let fl = DataType::float_values((1..=10).map(|x| x as f64).collect::<Vec<f64>>());
        let it = DataType::integer_interval(1, 10);
        let sets = vec![("float-values + int-interval", DataType::structured([("0", fl.clone()), ("1", it.clone())])), ("opt", DataType::structured([("0", DataType::optional(fl.clone())), ("1", DataType::optional(it.clone()))]))];
        for (nm, set) in sets.iter() {
            let first = function::plus().super_image(set).map(|t| t.to_string());
            let mut seen = std::collections::BTreeMap::new();
            for _ in 0..20000 { let t = function::plus().super_image(set).map(|t| t.to_string()); *seen.entry(format!("{:?}", t)).or_insert(0) += 1; }
            println!("plus on {}: first {:?}; distinct outcomes {:?}", nm, first, seen);
        }
        {
            let args = [DataType::optional(fl.clone()), DataType::optional(it.clone())];
            let mut seen = std::collections::BTreeMap::new();
            for _ in 0..20000 { let t = qrlew::expr::function::Function::Plus.super_image(&args).map(|t| t.to_string()); *seen.entry(format!("{:?}", t)).or_insert(0) += 1; }
            println!("expr-level function Plus: {:?}", seen);
            let set = DataType::structured_from_data_types(args.clone());
            let mut seen = std::collections::BTreeMap::new();
            for _ in 0..20000 { let t = set.flatten_optional().to_string(); *seen.entry(t).or_insert(0) += 1; }
            println!("flatten_optional: {:?}", seen);
            let inner = DataType::structured_from_data_types([fl.clone(), it.clone()]);
            let mut seen = std::collections::BTreeMap::new();
            for _ in 0..20000 { let t = function::plus().super_image(&inner).map(|t| t.to_string()); *seen.entry(format!("{:?}", t)).or_insert(0) += 1; }
            println!("plus on flattened: {:?}", seen);
        }
        let st = DataType::structured([("e3", DataType::optional(fl.clone())), ("c2", DataType::optional(it.clone()))]);
        let e = Expr::plus(Expr::col("e3"), Expr::col("c2"));
        let mut seen = std::collections::BTreeMap::new();
        for _ in 0..20000 { let t = e.super_image(&st).map(|t| t.to_string()); *seen.entry(format!("{:?}", t)).or_insert(0) += 1; }
        println!("expr: {:?}", seen);
        return;
    }
    if prop == "REPEAT" {
        use qrlew::relation::Variant as _;
        let w = world::world();
        let n: usize = args.get(3).and_then(|s| s.parse().ok()).unwrap_or(1000);
        let first = world::to_relation(&w, &outdir).unwrap();
        let (d0, t0) = (format!("{:?}", first), c08::render(&first));
        for i in 0..n {
            let rel = world::to_relation(&w, &outdir).unwrap();
            let (d, t) = (format!("{:?}", rel), c08::render(&rel));
            if d != d0 || t != t0 || rel != first {
                println!("differs at {}: eq={} debug_eq={} text_eq={}", i, rel == first, d == d0, t == t0);
                { let (a, b): (Vec<&str>, Vec<&str>) = (d0.split(',').collect(), d.split(',').collect()); for (x, y) in a.iter().zip(b.iter()) { if x != y { println!("{} | {}", x, y); } } }
                return;
            }
        }
        println!("{} compilations identical", n);
        return;
    }
    if prop == "REPARSE" {
        use qrlew::relation::Variant as _;
        let w = world::world();
        let n: usize = args.get(3).and_then(|s| s.parse().ok()).unwrap_or(0);
        let mut r = common::Rng::new(5);
        for _ in 0..n { let mut g = world::QGen::new(&mut r, &w.specs); g.bool_items = true; let q = g.query(2).0; let _ = std::panic::catch_unwind(std::panic::AssertUnwindSafe(|| world::to_relation(&w, &q))); }
        let rel = world::to_relation(&w, &outdir).unwrap();
        let text = c08::render(&rel);
        let back = world::to_relation(&w, &text).unwrap();
        println!("{}\n{}\n{}", rel.schema(), back.schema(), text);
        return;
    }
    if prop == "X18" { c18::show(&outdir, args.get(3).and_then(|s| s.parse().ok()).unwrap_or(8)); return; }
    if prop == "TABREF" { c15::tabref(&outdir, args.get(3).map(|s| s.as_str()).unwrap_or("sch.t1")); return; }
    if prop == "TRANSLATE" { c17::show(&outdir, args.get(3).map(|s| s.as_str()).unwrap_or("postgresql")); return; }
    if prop == "SHOW" {
        // developer aid: qvh SHOW "<sql>" [dp|pup|plain]
        use qrlew::relation::Variant as _;
        let w = world::world();
        let rel = world::to_relation(&w, &outdir).unwrap();
        let mode = args.get(3).map(|s| s.as_str()).unwrap_or("plain");
        match mode {
            "dp" => { let rw = rel.rewrite_with_differential_privacy(&w.relations, None, w.privacy_unit.clone(), rules::dp_params()).unwrap();
                      println!("{}\n{}", qrlew::ast::Query::from(rw.relation()).to_string().replace("), ", "),\n"), rw.dp_event()); }
            "pup" => { let rw = rel.rewrite_as_privacy_unit_preserving(&w.relations, None, w.privacy_unit.clone(), rules::dp_params(), None).unwrap();
                      println!("{}", qrlew::ast::Query::from(rw.relation()).to_string().replace("), ", "),\n")); }
            "exec" => { let rw = rel.rewrite_with_differential_privacy(&w.relations, None, w.privacy_unit.clone(), rules::dp_params()).unwrap();
                      let sql = sqlite::set_noise(&qrlew::ast::Query::from(rw.relation()).to_string(), 0.0);
                      let mut r = common::Rng::new(7); let data = sqlite::gen_data(&mut r, &w.specs, 12); let db = sqlite::Db::new(&w.specs, &data);
                      println!("{:?}", db.query(&sql)); println!("{:?}", db.query(&outdir)); }
            _ => { println!("{}\n{}\nsize={}", qrlew::ast::Query::from(&rel).to_string().replace("), ", "),\n"), rel.schema(), rel.size()); }
        }
        return;
    }
    let out = match prop.as_str() {
        "C11" => c11::run(&outdir, seed, thorough),
        "C15" => c15::run(&outdir, seed, thorough),
        "C13" | "C02" => rules::run(&prop, &outdir, seed, thorough),
        "C03" => c03::run(&outdir, seed, thorough),
        "C12" => c12::run(&outdir, seed, thorough),
        "C06" => c06::run(&outdir, seed, thorough),
        "C10" => c10::run(&outdir, seed, thorough),
        "C08" => c08::run(&outdir, seed, thorough),
        "C07" | "C14" => c07::run(&prop, &outdir, seed, thorough),
        p if p.starts_with("C06@") => c06::child(p[4..].parse().unwrap(), &outdir, seed, thorough),
        "C05" => dp::run_c05(&outdir, seed, thorough),
        "C01" => dp::run_c01(&outdir, seed, thorough),
        "C09" => dp::run_c09(&outdir, seed, thorough),
        "C16" => c16::run(&outdir, seed, thorough),
        "C17" => c17::run(&outdir, seed, thorough),
        "C18" => c18::run(&outdir, seed, thorough),
        p if p.starts_with("C18@") => c18::child(p[4..].parse().unwrap(), &outdir, seed, thorough),
        "GEN-DIALECTS" => { c17::generate(&outdir); return; }
        "GEN-PARENS" => { if let Err(e) = c08::generate_parens(&outdir) { eprintln!("{}", e); std::process::exit(1); } return; }
        "C04" => dp::run_c04(&outdir, seed, thorough),
        "GEN-FNMETA" => { if let Err(e) = c14::generate(&outdir) { eprintln!("{}", e); std::process::exit(1); } return; }
        "GEN-RULES" => { if let Err(e) = rules::generate(&outdir) { eprintln!("{}", e); std::process::exit(1); } return; }
        _ => { eprintln!("unknown property {}", prop); std::process::exit(2); }
    };
    std::fs::write(format!("{}/oracle.json", outdir), serde_json::to_string_pretty(&out).unwrap()).unwrap();
}
