mod common;
mod c11;
mod c15;

fn main() {
    let args: Vec<String> = std::env::args().collect();
    if args.len() < 3 { eprintln!("usage: qvh <property> <outdir> [--seed N] [--tier quick|thorough]"); std::process::exit(2); }
    let prop = args[1].clone();
    let outdir = args[2].clone();
    let mut seed: u64 = 1;
    let mut thorough = false;
    let mut i = 3;
    while i < args.len() {
        match args[i].as_str() {
            "--seed" => { seed = args[i + 1].parse().unwrap_or(1); i += 1; }
            "--tier" => { thorough = args[i + 1] == "thorough"; i += 1; }
            _ => {}
        }
        i += 1;
    }
    std::fs::create_dir_all(&outdir).unwrap();
    // panics are outcomes, not noise
    std::panic::set_hook(Box::new(|_| {}));
    let out = match prop.as_str() {
        "C11" => c11::run(&outdir, seed, thorough),
        "C15" => c15::run(&outdir, seed, thorough),
        _ => { eprintln!("unknown property {}", prop); std::process::exit(2); }
    };
    std::fs::write(format!("{}/oracle.json", outdir), serde_json::to_string_pretty(&out).unwrap()).unwrap();
}
