//! The fixed schema the query-level streams work on, a random query generator of the
//! supported SQL fragment, and helpers to build relations.
use crate::common::*;
use qrlew::{
    builder::{Ready as _, With as _},
    hierarchy::Hierarchy,
    privacy_unit_tracking::PrivacyUnit,
    relation::{field::Constraint, Relation, Schema, Variant as _},
    sql::parse,
    synthetic_data::SyntheticData,
    expr::Identifier,
    DataType,
};
use std::sync::Arc;

#[derive(Clone, Debug)]
pub enum ColTy { Int(i64, i64), Float(f64, f64), TextVals(Vec<&'static str>), OptInt(i64, i64), OptFloat(f64, f64) }
#[derive(Clone, Debug)]
pub struct ColSpec { pub name: &'static str, pub ty: ColTy, pub unique: bool }
#[derive(Clone, Debug)]
pub struct TableSpec { pub name: &'static str, pub path: &'static str, pub cols: Vec<ColSpec>, pub size: i64, pub protected: bool }

pub fn table_specs() -> Vec<TableSpec> {
    let c = |name, ty| ColSpec { name, ty, unique: false };
    let u = |name, ty| ColSpec { name, ty, unique: true };
    vec![
        TableSpec { name: "users", path: "users_tab", protected: true, size: 30, cols: vec![
            u("id", ColTy::Int(0, 50)), c("age", ColTy::Int(18, 90)), c("city", ColTy::TextVals(vec!["Paris", "Lyon", "Nice"])),
            u("income", ColTy::Float(0.0, 1000.0)), c("score", ColTy::OptFloat(0.0, 10.0))] },
        TableSpec { name: "orders", path: "orders_tab", protected: true, size: 60, cols: vec![
            u("id", ColTy::Int(0, 200)), c("user_id", ColTy::Int(0, 50)), c("amount", ColTy::Float(0.0, 500.0)),
            c("status", ColTy::TextVals(vec!["new", "paid", "sent"]))] },
        TableSpec { name: "items", path: "items_tab", protected: true, size: 90, cols: vec![
            c("order_id", ColTy::Int(0, 200)), c("price", ColTy::Float(0.0, 100.0)), c("qty", ColTy::OptInt(1, 10))] },
        TableSpec { name: "cities", path: "cities_tab", protected: false, size: 5, cols: vec![
            u("city", ColTy::TextVals(vec!["Paris", "Lyon", "Nice", "Lille"])), c("pop", ColTy::Int(0, 1_000_000))] },
    ]
}

pub fn col_type(ty: &ColTy) -> DataType {
    match ty {
        ColTy::Int(a, b) => DataType::integer_interval(*a, *b),
        ColTy::Float(a, b) => DataType::float_interval(*a, *b),
        ColTy::TextVals(v) => DataType::text_values(v.iter().map(|s| s.to_string()).collect::<Vec<_>>()),
        ColTy::OptInt(a, b) => DataType::optional(DataType::integer_interval(*a, *b)),
        ColTy::OptFloat(a, b) => DataType::optional(DataType::float_interval(*a, *b)),
    }
}

pub struct World {
    pub specs: Vec<TableSpec>,
    pub relations: Hierarchy<Arc<Relation>>,
    pub privacy_unit: PrivacyUnit,
    pub synthetic: SyntheticData,
}

pub fn world() -> World {
    let specs = table_specs();
    // as io::Database::relations does, every table is reachable by its qrlew name and by its SQL path
    let relations: Hierarchy<Arc<Relation>> = specs.iter().flat_map(|t| {
        let schema: Schema = t.cols.iter().map(|c| {
            // orders.user_id and items.order_id are declared as foreign keys (a constraint that says nothing about uniqueness)
            if c.unique { (c.name, col_type(&c.ty), Some(Constraint::Unique)) }
            else if (t.name == "orders" && c.name == "user_id") || (t.name == "items" && c.name == "order_id") { (c.name, col_type(&c.ty), Some(Constraint::ForeignKey)) }
            else { (c.name, col_type(&c.ty), None) }
        }).collect();
        let rel: Arc<Relation> = Arc::new(Relation::table().name(t.name).path([t.path]).schema(schema).size(t.size).build());
        vec![(vec![t.name.to_string()], rel.clone()), (vec![t.path.to_string()], rel)]
    }).collect();
    let privacy_unit = PrivacyUnit::from(vec![
        ("users", vec![], "id"),
        ("orders", vec![("user_id", "users", "id")], "id"),
        ("items", vec![("order_id", "orders", "id"), ("user_id", "users", "id")], "id"),
    ]);
    let synthetic = SyntheticData::new(Hierarchy::from([
        (vec!["users_tab"], Identifier::from("sd_users")),
        (vec!["orders_tab"], Identifier::from("sd_orders")),
        (vec!["items_tab"], Identifier::from("sd_items")),
        (vec!["cities_tab"], Identifier::from("sd_cities")),
    ]));
    World { specs, relations, privacy_unit, synthetic }
}

/// a second schema: one protected table whose privacy unit carries a weight column (rows of a unit
/// with different weights)
pub fn world_weighted() -> World {
    let c = |name, ty| ColSpec { name, ty, unique: false };
    let mut specs = table_specs();
    specs.push(TableSpec { name: "visits", path: "visits_tab", protected: true, size: 40, cols: vec![
        c("user_id", ColTy::Int(0, 50)), c("place", ColTy::Float(0.0, 1000.0)), c("spent", ColTy::Float(0.0, 100.0)), c("w", ColTy::Float(0.5, 3.0))] });
    let relations: Hierarchy<Arc<Relation>> = specs.iter().flat_map(|t| {
        let schema: Schema = t.cols.iter().map(|c| {
            // the unit column of visits is declared as a foreign key (a constraint that is not a uniqueness constraint)
            if c.unique { (c.name, col_type(&c.ty), Some(Constraint::Unique)) } else if t.name == "visits" && c.name == "user_id" { (c.name, col_type(&c.ty), Some(Constraint::ForeignKey)) } else { (c.name, col_type(&c.ty), None) }
        }).collect();
        let rel: Arc<Relation> = Arc::new(Relation::table().name(t.name).path([t.path]).schema(schema).size(t.size).build());
        vec![(vec![t.name.to_string()], rel.clone()), (vec![t.path.to_string()], rel)]
    }).collect();
    let privacy_unit = PrivacyUnit::from(vec![("visits", vec![], "user_id", "w")]);
    let synthetic = SyntheticData::new(Hierarchy::from([(vec!["visits_tab"], Identifier::from("sd_visits"))]));
    World { specs, relations, privacy_unit, synthetic }
}

/// a third schema: foreign keys that refer to natural keys with their own names (a cart has a surrogate id and a
/// cart_no its lines refer to), all key values in the same small range
pub fn world_natural_keys() -> World {
    let c = |name, ty| ColSpec { name, ty, unique: false };
    let u = |name, ty| ColSpec { name, ty, unique: true };
    let specs = vec![
        TableSpec { name: "people", path: "people_tab", protected: true, size: 30, cols: vec![u("pid", ColTy::Int(0, 20)), c("age", ColTy::Int(18, 90))] },
        TableSpec { name: "carts", path: "carts_tab", protected: true, size: 30, cols: vec![u("id", ColTy::Int(0, 20)), u("cart_no", ColTy::Int(0, 20)), c("pid", ColTy::Int(0, 20))] },
        TableSpec { name: "lines", path: "lines_tab", protected: true, size: 60, cols: vec![c("cart_ref", ColTy::Int(0, 20)), c("price", ColTy::Float(0.0, 100.0))] },
    ];
    let relations: Hierarchy<Arc<Relation>> = specs.iter().flat_map(|t| {
        let schema: Schema = t.cols.iter().map(|c| {
            if c.unique { (c.name, col_type(&c.ty), Some(Constraint::Unique)) } else { (c.name, col_type(&c.ty), None) }
        }).collect();
        let rel: Arc<Relation> = Arc::new(Relation::table().name(t.name).path([t.path]).schema(schema).size(t.size).build());
        vec![(vec![t.name.to_string()], rel.clone()), (vec![t.path.to_string()], rel)]
    }).collect();
    let privacy_unit = PrivacyUnit::from(vec![
        ("people", vec![], "pid"),
        ("carts", vec![("pid", "people", "pid")], "pid"),
        ("lines", vec![("cart_ref", "carts", "cart_no"), ("pid", "people", "pid")], "pid"),
    ]);
    let synthetic = SyntheticData::new(Hierarchy::from([(vec!["people_tab"], Identifier::from("sd_people"))]));
    World { specs, relations, privacy_unit, synthetic }
}

// ---------- query generation ----------

#[derive(Clone, Debug)]
pub struct Col { pub name: String, pub num: bool }

pub struct QGen<'a> { pub r: &'a mut Rng, pub specs: &'a [TableSpec], pub fresh: u32, pub allow_minmax: bool, pub allow_set: bool, pub allow_outer: bool,
    /// boolean projections (comparisons, NOT) in the outermost select list
    pub bool_items: bool }

impl<'a> QGen<'a> {
    pub fn new(r: &'a mut Rng, specs: &'a [TableSpec]) -> Self { QGen { r, specs, fresh: 0, allow_minmax: true, allow_set: true, allow_outer: true, bool_items: false } }
    fn name(&mut self, p: &str) -> String { self.fresh += 1; format!("{}{}", p, self.fresh) }

    /// something that can stand after FROM, with the alias it must be referred by
    fn source(&mut self, depth: u32) -> (String, String, Vec<Col>) {
        if depth == 0 || self.r.chance(2, 5) {
            let t = self.r.pick(self.specs).clone();
            let alias = self.name("t");
            let cols = t.cols.iter().map(|c| Col { name: c.name.to_string(), num: !matches!(c.ty, ColTy::TextVals(_)) }).collect();
            (format!("{} AS {}", t.name, alias), alias, cols)
        } else {
            let saved = self.bool_items; self.bool_items = false;
            let (q, cols) = self.query(depth - 1);
            self.bool_items = saved;
            let alias = self.name("s");
            (format!("({}) AS {}", q, alias), alias, cols)
        }
    }

    fn num_expr(&mut self, alias: &str, cols: &[Col]) -> Option<String> {
        let nums: Vec<&Col> = cols.iter().filter(|c| c.num).collect();
        if nums.is_empty() { return None; }
        let c = self.r.pick(&nums).name.clone();
        let k = self.r.range(1, 9);
        Some(match self.r.below(11) {
            6 => format!("- {}.{}", alias, c),
            7 => format!("-(-{}.{})", alias, c),
            8 => format!("ABS({}.{} - {})", alias, c, k * 10),
            9 => format!("{}.{} / {}", alias, c, k + 1),
            10 => format!("COALESCE({}.{}, {})", alias, c, k),
            0 => format!("{}.{} + {}", alias, c, k),
            1 => format!("{} * {}.{}", k, alias, c),
            2 => format!("{}.{} - {}", alias, c, k),
            3 => { let d = self.r.pick(&nums).name.clone(); format!("{}.{} + {}.{}", alias, c, alias, d) }
            4 => format!("CASE WHEN {}.{} > {} THEN 1 ELSE 0 END", alias, c, k * 10),
            _ => format!("{}.{}", alias, c),
        })
    }

    fn predicate(&mut self, alias: &str, cols: &[Col]) -> Option<String> {
        let c = self.r.pick(cols).clone();
        Some(if c.num {
            let k = self.r.range(0, 100);
            match self.r.below(9) { 0 => format!("{}.{} > {}", alias, c.name, k), 1 => format!("{}.{} <= {}", alias, c.name, k),
                2 => format!("{}.{} > {} AND {}.{} < {}", alias, c.name, k, alias, c.name, k + 50), 3 => format!("{}.{} IN ({}, {}, {})", alias, c.name, k, k + 1, k + 2),
                4 => format!("{}.{} >= {}", alias, c.name, k), 5 => format!("{} < {}.{}", k, alias, c.name), 6 => format!("{}.{} BETWEEN {} AND {}", alias, c.name, k, k + 40),
                7 => format!("NOT ({}.{} < {})", alias, c.name, k), _ => format!("{}.{} < {} OR {}.{} > {}", alias, c.name, k, alias, c.name, k + 30) }
        } else {
            match self.r.below(5) { 0 => format!("{}.{} = 'Paris'", alias, c.name), 1 => format!("{}.{} IN ('Paris', 'paid', 'new')", alias, c.name),
                2 => format!("{}.{} >= 'Nice'", alias, c.name), 3 => format!("{}.{} <= 'paid'", alias, c.name), _ => format!("NOT ({}.{} = 'new')", alias, c.name) }
        })
    }

    /// a full SELECT with the names and kinds of its output columns
    pub fn query(&mut self, depth: u32) -> (String, Vec<Col>) {
        let kind = self.r.below(if depth == 0 { 6 } else { 10 });
        match kind {
            // join
            6 | 7 => {
                let (ls, la, lc) = self.source(depth);
                let (rs, ra, rc) = self.source(depth);
                let ln: Vec<&Col> = lc.iter().filter(|c| c.num).collect();
                let rn: Vec<&Col> = rc.iter().filter(|c| c.num).collect();
                if ln.is_empty() || rn.is_empty() { return self.simple(depth); }
                let jk = if self.allow_outer { match self.r.below(6) { 0 => "LEFT JOIN", 1 => "RIGHT JOIN", 2 => "FULL JOIN", _ => "JOIN" } } else { "JOIN" };
                // the equality is written with either side first, sometimes with a second conjunct
                let (lcn, rcn) = (self.r.pick(&ln).name.clone(), self.r.pick(&rn).name.clone());
                let eq = if self.r.chance(1, 2) { format!("{}.{} = {}.{}", la, lcn, ra, rcn) } else { format!("{}.{} = {}.{}", ra, rcn, la, lcn) };
                let on = if self.r.chance(1, 5) { let k = self.r.range(0, 50); if self.r.chance(1, 2) { format!("{} AND {}.{} > {}", eq, la, self.r.pick(&ln).name, k) } else { format!("{}.{} <= {} AND {}", ra, self.r.pick(&rn).name, k + 50, eq) } } else { eq };
                let mut items = vec![]; let mut out = vec![];
                for (a, cs) in [(&la, &lc), (&ra, &rc)] {
                    for c in cs.iter() { if self.r.chance(1, 2) || out.is_empty() { let n = self.name("c"); items.push(format!("{}.{} AS {}", a, c.name, n)); out.push(Col { name: n, num: c.num }); } }
                }
                let from = if jk == "JOIN" && self.r.chance(1, 8) { format!("{} CROSS JOIN {}", ls, rs) } else { format!("{} {} {} ON {}", ls, jk, rs, on) };
                (format!("SELECT {} FROM {}", items.join(", "), from), out)
            }
            // set operation
            8 if self.allow_set => {
                let (ls, la, lc) = self.source(depth);
                let (rs, ra, rc) = self.source(depth);
                let (Some(le), Some(re)) = (self.num_expr(&la, &lc), self.num_expr(&ra, &rc)) else { return self.simple(depth); };
                let op = *self.r.pick(&["UNION", "UNION ALL", "INTERSECT", "EXCEPT"]);
                let n = self.name("u");
                (format!("SELECT {} AS {} FROM {} {} SELECT {} AS {} FROM {}", le, n, ls, op, re, n, rs), vec![Col { name: n, num: true }])
            }
            // aggregation
            3 | 4 | 5 | 9 => {
                let (s, a, cs) = self.source(depth);
                let mut items = vec![]; let mut out = vec![]; let mut group = vec![];
                if self.r.chance(2, 3) {
                    let g = self.r.pick(&cs).clone();
                    let n = self.name("g");
                    items.push(format!("{}.{} AS {}", a, g.name, n)); group.push(format!("{}.{}", a, g.name)); out.push(Col { name: n, num: g.num });
                }
                let nagg = self.r.range(1, 3);
                for _ in 0..nagg {
                    let n = self.name("a");
                    let aggs: &[&str] = if self.allow_minmax { &["SUM", "COUNT", "AVG", "SUM", "COUNT", "MIN", "MAX", "VARIANCE", "STDDEV"] } else { &["SUM", "COUNT", "AVG", "VARIANCE", "STDDEV"] };
                    let f = *self.r.pick(aggs);
                    let Some(e) = self.num_expr(&a, &cs) else { items.push(format!("COUNT(*) AS {}", n)); out.push(Col { name: n, num: true }); continue; };
                    let dist = if self.r.chance(1, 6) && f != "MIN" && f != "MAX" { "DISTINCT " } else { "" };
                    if self.r.chance(1, 6) { items.push(format!("COUNT(*) AS {}", n)); } else { items.push(format!("{}({}{}) AS {}", f, dist, e, n)); }
                    out.push(Col { name: n, num: true });
                }
                let wh = if self.r.chance(1, 3) { self.predicate(&a, &cs).map(|p| format!(" WHERE {}", p)).unwrap_or_default() } else { String::new() };
                let gb = if group.is_empty() { String::new() } else { format!(" GROUP BY {}", group.join(", ")) };
                (format!("SELECT {} FROM {}{}{}", items.join(", "), s, wh, gb), out)
            }
            _ => self.simple(depth),
        }
    }

    fn simple(&mut self, depth: u32) -> (String, Vec<Col>) {
        let (s, a, cs) = self.source(depth);
        let mut items = vec![]; let mut out = vec![];
        for c in cs.iter() {
            if self.r.chance(1, 2) { let n = self.name("c"); items.push(format!("{}.{} AS {}", a, c.name, n)); out.push(Col { name: n, num: c.num }); }
        }
        if self.r.chance(1, 2) || items.is_empty() {
            if let Some(e) = self.num_expr(&a, &cs) { let n = self.name("e"); items.push(format!("{} AS {}", e, n)); out.push(Col { name: n, num: true }); }
        }
        if items.is_empty() { let c = &cs[0]; let n = self.name("c"); items.push(format!("{}.{} AS {}", a, c.name, n)); out.push(Col { name: n, num: c.num }); }
        if self.bool_items && self.r.chance(1, 3) {
            if let Some(p) = self.predicate(&a, &cs) { if !p.contains(" AND ") && !p.contains(" OR ") { let n = self.name("b"); items.push(format!("{} AS {}", p, n)); out.push(Col { name: n, num: true }); } }
        }
        let wh = if self.r.chance(1, 2) { self.predicate(&a, &cs).map(|p| format!(" WHERE {}", p)).unwrap_or_default() } else { String::new() };
        (format!("SELECT {} FROM {}{}", items.join(", "), s, wh), out)
    }
}

pub fn to_relation(w: &World, sql: &str) -> Result<Relation, String> {
    let q = parse(sql).map_err(|e| format!("parse: {}", e))?;
    Relation::try_from(q.with(&w.relations)).map_err(|e| format!("relation: {}", e))
}
