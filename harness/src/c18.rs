//! C18: compilation is total on the supported fragment: results or errors, never panics, overflows,
//! divisions by zero or loops.  Every stage runs under catch_unwind inside a child process with an
//! address-space limit and a watchdog, so that aborts and hangs are outcomes too.
use crate::c08::render;
use crate::common::*;
use crate::world::*;
use qrlew::{
    builder::{Ready as _, With as _},
    differential_privacy::DpParameters,
    hierarchy::Hierarchy,
    privacy_unit_tracking::PrivacyUnit,
    relation::{Relation, Schema, Variant as _},
    sql::parse,
    synthetic_data::SyntheticData,
    expr::Identifier,
    DataType,
};
use serde_json::json;
use std::panic::{catch_unwind, AssertUnwindSafe};
use std::sync::Arc;

const RULE: &str = "queries of the documented fragment (generated trees; expression trees over arithmetic, comparison, logical, string, cast and conditional functions with extreme constants; aggregates; joins incl. comma joins; t.*; derived tables; VALUES; set operations; LIMIT / OFFSET) over schemas with unbounded and extreme integer and float columns (i64::MIN..MAX, +-f64::MAX), zero-width and zero-containing ranges, 140-value sets, empty value sets, nullable columns x DpParameters including zero budgets: parse -> relation (schema, size) -> render -> privacy-unit preserving rewriting -> DP rewriting -> render, each under catch_unwind in a child process with a watchdog; distinct by (schema variant, query)";

pub fn run(outdir: &str, seed: u64, thorough: bool) -> serde_json::Value {
    let mut out = run_batches("C18", outdir, seed, thorough, if thorough { 64 } else { 16 }, if thorough { 900 } else { 200 }, RULE);
    // correspondence: which interval calls abort on the real implementation
    use qrlew::data_type::intervals::Intervals;
    let mut rng = Rng::new(seed ^ 0x18C);
    let mut cases = vec![];
    for _ in 0..(if thorough { 3000 } else { 400 }) {
        let mut r = rng.fork();
        let pick = |r: &mut Rng| -> i64 { match r.below(6) { 0 => i64::MIN, 1 => i64::MAX, 2 => 0, _ => r.range(-20, 20) } };
        let n = r.range(0, 5);
        let mut l: Vec<(i64, i64)> = vec![];
        for _ in 0..n { let (a, b) = (pick(&mut r), pick(&mut r)); l.push((a.min(b), a.max(b))); }
        let (mn, mx) = (pick(&mut r), pick(&mut r));
        let is_union = r.chance(1, 2);
        let s = l.iter().fold(Intervals::<i64>::empty(), |s, (a, b)| s.union_interval(*a, *b));
        let aborted = catch_unwind(AssertUnwindSafe(|| if is_union { s.clone().union_interval(mn, mx) } else { s.clone().intersection_interval(mn, mx) })).is_err();
        cases.push(format!("({}, {}, {}, {}, {})", coq_list(&l, |(a, b)| format!("({}, {})", coq_z(*a as i128), coq_z(*b as i128))), coq_bool(is_union), coq_z(mn as i128), coq_z(mx as i128), coq_bool(aborted)));
    }
    let header = "From Coq Require Import List ZArith Bool. Import ListNotations.\nFrom QV Require Import Corr.Lib Corr.C18.\nOpen Scope Z_scope.";
    let f = write_shards(outdir, "c18_abort", header, "c18_case", "check", &cases, 500);
    out["shards"] = json!({"c18_abort": f});
    out
}

fn extreme_world(variant: u64) -> World {
    let c = |name, ty| ColSpec { name, ty, unique: false };
    // the specs only carry names for the query generator; the types are below
    let specs = vec![
        TableSpec { name: "nums", path: "nums", protected: true, size: 100, cols: vec![c("id", ColTy::Int(0, 1000)), c("i_full", ColTy::Int(0, 1)), c("i_ext", ColTy::Int(0, 1)), c("i_zero", ColTy::Int(-5, 5)), c("i_pt", ColTy::Int(0, 0)),
            c("i_many", ColTy::Int(0, 1)), c("f_full", ColTy::Float(0.0, 1.0)), c("f_ext", ColTy::Float(0.0, 1.0)), c("f_zero", ColTy::Float(-1.0, 1.0)), c("f_pt", ColTy::Float(0.0, 0.0)), c("f_opt", ColTy::OptFloat(-10.0, 10.0)),
            c("s", ColTy::TextVals(vec!["a"])), c("k", ColTy::TextVals(vec!["a", "b"]))] },
        TableSpec { name: "other", path: "other", protected: true, size: 50, cols: vec![c("id", ColTy::Int(0, 1000)), c("v", ColTy::Float(0.0, 1.0)), c("k", ColTy::TextVals(vec!["a", "b"]))] },
    ];
    let many: Vec<i64> = (0..140).map(|i| 3 * i).collect();
    let nums: Schema = vec![
        ("id", DataType::integer_interval(0, 1000)),
        ("i_full", if variant % 2 == 0 { DataType::integer() } else { DataType::integer_interval(i64::MIN, i64::MAX) }),
        ("i_ext", DataType::integer_interval(i64::MAX - 3, i64::MAX)),
        ("i_zero", DataType::integer_interval(-5, 5)),
        ("i_pt", DataType::integer_interval(0, 0)),
        ("i_many", DataType::integer_values(many)),
        ("f_full", if variant % 3 == 0 { DataType::float() } else { DataType::float_interval(-f64::MAX, f64::MAX) }),
        ("f_ext", DataType::float_interval(f64::MAX / 2.0, f64::MAX)),
        ("f_zero", DataType::float_interval(-1.0, 1.0)),
        ("f_pt", DataType::float_value(0.0)),
        ("f_opt", DataType::optional(DataType::float_interval(-10.0, 10.0))),
        ("s", if variant % 4 == 3 { DataType::text_values(Vec::<String>::new()) } else { DataType::text() }),
        ("k", DataType::text_values(["a".to_string(), "b".to_string()])),
    ].into_iter().collect();
    let other: Schema = vec![("id", DataType::integer_interval(0, 1000)), ("v", if variant % 2 == 0 { DataType::float() } else { DataType::float_interval(0.0, 0.0) }), ("k", DataType::text_values(["a".to_string(), "b".to_string()]))].into_iter().collect();
    let r1: Arc<Relation> = Arc::new(Relation::table().name("nums").path(["nums"]).schema(nums).size(100).build());
    let r2: Arc<Relation> = Arc::new(Relation::table().name("other").path(["other"]).schema(other).size(50).build());
    let relations: Hierarchy<Arc<Relation>> = [(vec!["nums".to_string()], r1), (vec!["other".to_string()], r2)].into_iter().collect();
    let privacy_unit = PrivacyUnit::from(vec![("nums", vec![], "id"), ("other", vec![("id", "nums", "id")], "id")]);
    let synthetic = SyntheticData::new(Hierarchy::from([(vec!["nums"], Identifier::from("sd_nums")), (vec!["other"], Identifier::from("sd_other"))]));
    World { specs, relations, privacy_unit, synthetic }
}

const NUMC: [&str; 11] = ["t.id", "t.i_full", "t.i_ext", "t.i_zero", "t.i_pt", "t.i_many", "t.f_full", "t.f_ext", "t.f_zero", "t.f_pt", "t.f_opt"];
const CONSTS: [&str; 12] = ["0", "1", "-1", "2", "9223372036854775807", "-9223372036854775807", "0.0", "0.5", "1e308", "-1e308", "1e-320", "NULL"];

fn num_expr(r: &mut Rng, depth: u32) -> String {
    if depth == 0 || r.chance(1, 4) { return if r.chance(3, 4) { r.pick(&NUMC).to_string() } else { r.pick(&CONSTS).to_string() }; }
    let a = num_expr(r, depth - 1);
    match r.below(28) {
        0 => format!("({} + {})", a, num_expr(r, depth - 1)), 1 => format!("({} - {})", a, num_expr(r, depth - 1)), 2 => format!("({} * {})", a, num_expr(r, depth - 1)),
        3 => format!("({} / {})", a, num_expr(r, depth - 1)), 4 => format!("({} % {})", a, num_expr(r, depth - 1)), 5 => format!("POW({}, {})", a, num_expr(r, depth - 1)),
        6 => format!("ABS({})", a), 7 => format!("EXP({})", a), 8 => format!("LN({})", a), 9 => format!("LOG({})", a), 10 => format!("SQRT({})", a), 11 => format!("SIN({})", a), 12 => format!("COS({})", a),
        13 => format!("CEIL({})", a), 14 => format!("FLOOR({})", a), 15 => format!("ROUND({})", a), 16 => format!("SIGN({})", a), 17 => format!("(- {})", a),
        18 => format!("GREATEST({}, {})", a, num_expr(r, depth - 1)), 19 => format!("LEAST({}, {})", a, num_expr(r, depth - 1)),
        20 => format!("CAST({} AS INTEGER)", a), 21 => format!("CAST({} AS FLOAT)", a), 22 => format!("CHAR_LENGTH(CAST({} AS TEXT))", a),
        23 => format!("CASE WHEN {} THEN {} ELSE {} END", pred(r, depth - 1), a, num_expr(r, depth - 1)), 24 => format!("COALESCE({}, {})", a, num_expr(r, depth - 1)),
        25 => format!("TRUNC({})", a), 26 => format!("CAST({} AS BOOLEAN)", a), _ => format!("ROUND({}, 2)", a),
    }
}
fn pred(r: &mut Rng, depth: u32) -> String {
    let a = num_expr(r, depth);
    match r.below(9) {
        0 => format!("{} > {}", a, num_expr(r, depth)), 1 => format!("{} = {}", a, num_expr(r, depth)), 2 => format!("{} <= {}", a, num_expr(r, depth)),
        3 => format!("{} IN ({}, {})", a, r.pick(&CONSTS), r.pick(&CONSTS)), 4 => format!("{} BETWEEN {} AND {}", a, r.pick(&CONSTS), r.pick(&CONSTS)), 5 => format!("{} IS NULL", a),
        6 => format!("t.s LIKE 'a%'"), 7 => format!("({} > 0 AND {} < 3)", a, num_expr(r, depth)), _ => format!("NOT ({} <> {})", a, num_expr(r, depth)),
    }
}
fn text_expr(r: &mut Rng) -> String {
    match r.below(8) { 0 => "LOWER(t.s)".into(), 1 => "UPPER(t.k)".into(), 2 => "CONCAT(t.s, t.k)".into(), 3 => "SUBSTR(t.s, 1, 2)".into(), 4 => "MD5(t.s)".into(), 5 => "CAST(t.i_full AS TEXT)".into(), 6 => "POSITION('a' IN t.s)".into(), _ => "t.s".into() }
}

fn gen_query(r: &mut Rng, w: &World) -> String {
    match r.below(14) {
        0 | 1 | 2 => format!("SELECT {} AS a, {} AS b FROM nums AS t{}", num_expr(r, 3), num_expr(r, 2), if r.chance(1, 2) { format!(" WHERE {}", pred(r, 2)) } else { String::new() }),
        3 | 4 => { let f = *r.pick(&["SUM", "AVG", "COUNT", "MIN", "MAX", "VARIANCE", "STDDEV"]); let d = if r.chance(1, 5) { "DISTINCT " } else { "" };
            format!("SELECT {}{}({}{}) AS a, COUNT(*) AS n FROM nums AS t{}{}", if r.chance(1, 2) { "t.k AS k, " } else { "" }, f, d, num_expr(r, 2), if r.chance(1, 3) { format!(" WHERE {}", pred(r, 1)) } else { String::new() }, "").replace("t.k AS k, ", "t.k AS k, ") + if r.chance(1, 2) { "" } else { "" } }
        5 => format!("SELECT t.k AS k, SUM({}) AS a FROM nums AS t GROUP BY t.k", num_expr(r, 2)),
        6 => format!("SELECT {} AS g, COUNT(*) AS n FROM nums AS t GROUP BY {}", NUMC[r.below(11) as usize], "1").replace("GROUP BY 1", &format!("GROUP BY {}", "g")),
        7 => format!("SELECT t.i_zero AS a, o.v AS v FROM nums AS t JOIN other AS o ON t.id = o.id WHERE {}", pred(r, 1)),
        8 => "SELECT t.i_zero AS a, o.v AS v FROM nums AS t, other AS o WHERE t.id = o.id".to_string(),
        9 => format!("SELECT t.* FROM nums AS t WHERE {}", pred(r, 1)),
        10 => format!("SELECT x.c AS c FROM (VALUES (1), (2), ({})) AS x (c)", r.pick(&CONSTS)),
        11 => format!("SELECT {} AS a FROM nums AS t UNION SELECT o.v AS a FROM other AS o", num_expr(r, 1)),
        12 => format!("SELECT {} AS t0, {} AS a FROM nums AS t ORDER BY {} LIMIT {} OFFSET {}", text_expr(r), num_expr(r, 1), NUMC[r.below(11) as usize], r.pick(&["0", "3", "9223372036854775807"]), r.pick(&["0", "2", "100", "101", "5000", "9223372036854775807"])),
        _ => { let depth = r.range(0, 2) as u32; let mut g = QGen::new(r, &w.specs); g.query(depth).0 }
    }
}

fn site(msg: &str) -> String { panic_site(msg) }

pub fn child(k: usize, outdir: &str, seed: u64, thorough: bool) -> serde_json::Value {
    let mut rng = Rng::new(seed.wrapping_mul(1000003) ^ (k as u64) ^ 0xC18);
    let mut st = Stats::default();
    let n = if thorough { 400 } else { 60 };
    let pinned = ["SELECT t.i_zero / t.i_zero AS a FROM nums AS t", "SELECT t.i_zero AS a, o.v AS v FROM nums AS t, other AS o WHERE t.id = o.id", "SELECT t.* FROM nums AS t",
        "SELECT x.c AS c FROM (VALUES (1), (2)) AS x (c)", "SELECT t.i_full % t.i_zero AS a FROM nums AS t", "SELECT CAST(t.f_full AS INTEGER) AS a FROM nums AS t",
        "SELECT ABS(t.i_full) AS a FROM nums AS t", "SELECT SUM(t.f_full) AS a FROM nums AS t", "SELECT t.k AS k, COUNT(*) AS n FROM nums AS t GROUP BY t.k",
        "SELECT t.id AS a FROM nums AS t ORDER BY t.id LIMIT 5 OFFSET 1000", "SELECT t.id AS a FROM nums AS t ORDER BY t.id OFFSET 101",
        // windows beyond i64::MAX, quotients of two float ranges that contain zero (0 / 0 at a corner)
        "SELECT t.id AS a FROM nums AS t LIMIT 18446744073709551615", "SELECT t.id AS a FROM nums AS t LIMIT 9223372036854775808", "SELECT t.id AS a FROM nums AS t LIMIT 3 OFFSET 18446744073709551615",
        "SELECT t.f_zero / t.f_zero AS a FROM nums AS t", "SELECT t.f_pt / t.f_zero AS a FROM nums AS t", "SELECT SUM(t.f_zero / t.f_opt) AS a FROM nums AS t",
        // a NaN operand (witness of the listed finding C18-reversed-interval-assert)
        "SELECT (LOG(-9223372036854775807) / t.f_zero) AS a, t.i_pt AS b FROM nums AS t", "SELECT LOG(-1) * t.f_zero AS a FROM nums AS t",
        // string functions on constants and value-set columns (evaluated while typing): windows that end before they start,
        // negative positions, bounds inside a multi-byte character, empty strings
        "SELECT SUBSTR(t.k, 2, -1) AS a, SUBSTR(t.k, -3, 5) AS b, SUBSTR(t.k, 9, 2) AS c FROM nums AS t", "SELECT SUBSTR('h\u{e9}ron', 2, 2) AS a, SUBSTRING('h\u{e9}ron' FROM 2 FOR 3) AS b, SUBSTR('h\u{e9}ron', 2) AS c FROM nums AS t",
        "SELECT SUBSTR('alpha', -1) AS a, SUBSTR('', 0, 0) AS b, SUBSTR('alpha', 3, 0) AS c, SUBSTR('alpha', 5, 9223372036854775807) AS d FROM nums AS t",
        "SELECT LTRIM('\u{e9}\u{e9}a', '\u{e9}') AS a, RTRIM(t.k, '') AS b, UPPER('h\u{e9}ron') AS c, CHAR_LENGTH('h\u{e9}ron') AS d, POSITION('\u{e9}' IN 'h\u{e9}ron') AS e FROM nums AS t",
        // a CTE named like the table its body reads
        "WITH nums AS (SELECT t.id AS id FROM nums AS t) SELECT s.id AS a FROM nums AS s"];
    for i in 0..n {
        let mut r = rng.fork();
        let variant = r.below(12);
        let w = extreme_world(variant);
        let sql = if k == 0 && i < pinned.len() { pinned[i].to_string() } else { gen_query(&mut r, &w) };
        if parse(&sql).is_err() { st.bump("not_valid_sql"); continue; }
        progress(outdir, &format!("variant {} :: {}", variant, sql));
        st.evaluations += 1; st.distinct.insert(hash_str(&format!("{}{}", variant, sql)));
        // the arithmetic operators the text contains: an abort inside the range propagation of `/` or `%` is a
        // listed finding only for queries that divide or take a remainder
        let ops = match (sql.contains('/'), sql.contains('%')) { (true, true) => "division+modulo", (true, false) => "division", (false, true) => "modulo", _ => "no-division" };
        let fail = |st: &mut Stats, stage: &str| { st.violation(json!({"kind":"panic","class":ops,"stage":stage,"construct":site(&last_panic()),"panic":last_panic(),"query":sql,"schema_variant":variant})); };
        // relation, schema, size
        let rel = match catch_unwind(AssertUnwindSafe(|| to_relation(&w, &sql))) { Ok(Ok(rel)) => { st.bump("relation_built"); rel } Ok(Err(_)) => { st.bump("relation_error_value"); continue; } Err(_) => { fail(&mut st, "relation"); continue; } };
        if catch_unwind(AssertUnwindSafe(|| { let _ = rel.schema().to_string(); let _ = rel.size().to_string(); let _ = rel.to_string(); })).is_err() { fail(&mut st, "schema"); }
        match catch_unwind(AssertUnwindSafe(|| render(&rel))) { Ok(_) => st.bump("rendered"), Err(_) => fail(&mut st, "render") }
        // rewritings
        // every field of the parameters at its corners, independently (half of the time), or one of six presets
        let p = if r.chance(1, 2) { DpParameters::new(*r.pick(&[1.0, 1e-300, 1e6, 0.5]), *r.pick(&[1e-5, 1e-300, 0.999, 1e-9]), *r.pick(&[0.5, 0.0, 1.0, 0.9]), *r.pick(&[100.0, 0.0, 1.0, 1e18, f64::MAX]), *r.pick(&[0.1, 0.0, 1.0]), *r.pick(&[5u64, 0, 1, u64::MAX])) } else { match r.below(6) { 0 => DpParameters::new(0.0, 0.0, 0.5, 100.0, 0.1, 5), 1 => DpParameters::new(1.0, 1e-5, 0.0, 100.0, 0.1, 5), 2 => DpParameters::new(1.0, 1e-5, 1.0, 100.0, 0.1, 5),
            3 => DpParameters::new(1e-300, 1e-300, 0.5, 1.0, 0.0, 1), 4 => DpParameters::new(1e6, 0.999, 0.5, 1e18, 1.0, 1000000), _ => DpParameters::from_epsilon_delta(1.0, 1e-5) } };
        match catch_unwind(AssertUnwindSafe(|| rel.clone().rewrite_as_privacy_unit_preserving(&w.relations, Some(w.synthetic.clone()), w.privacy_unit.clone(), p.clone(), None))) {
            Ok(Ok(rw)) => { st.bump("pup_rewritten"); if catch_unwind(AssertUnwindSafe(|| render(rw.relation()))).is_err() { fail(&mut st, "render of the privacy-unit preserving rewriting"); } }
            Ok(Err(_)) => st.bump("pup_error_value"), Err(_) => fail(&mut st, "privacy-unit preserving rewriting") }
        match catch_unwind(AssertUnwindSafe(|| rel.clone().rewrite_with_differential_privacy(&w.relations, Some(w.synthetic.clone()), w.privacy_unit.clone(), p.clone()))) {
            Ok(Ok(rw)) => { st.bump("dp_rewritten"); if catch_unwind(AssertUnwindSafe(|| { let _ = render(rw.relation()); let _ = rw.dp_event().to_string(); })).is_err() { fail(&mut st, "render of the DP rewriting"); } }
            Ok(Err(_)) => st.bump("dp_error_value"), Err(_) => fail(&mut st, "DP rewriting") }
        // synthetic data declared for one of the two tables only, or for none
        if i % 3 == 0 {
            let sd = match r.below(3) { 0 => Some(SyntheticData::new(Hierarchy::from([(vec!["other"], Identifier::from("sd_other"))]))), 1 => Some(SyntheticData::new(Hierarchy::from([(vec!["nums"], Identifier::from("sd_nums"))]))), _ => None };
            match catch_unwind(AssertUnwindSafe(|| rel.clone().rewrite_with_differential_privacy(&w.relations, sd.clone(), w.privacy_unit.clone(), p.clone()))) {
                Ok(Ok(_)) => st.bump("dp_rewritten_partial_synthetic_data"), Ok(Err(_)) => st.bump("dp_error_value_partial_synthetic_data"), Err(_) => fail(&mut st, "DP rewriting with partial synthetic data") }
        }
        if i < 1 && k == 0 { st.sample(json!({"query":sql,"schema_variant":variant})); }
    }
    st.to_child_json(RULE)
}

/// developer aid: qvh X18 "<sql>" <variant>: the relation of a query over the extreme schema
pub fn show(sql: &str, variant: u64) {
    let w = extreme_world(variant);
    match catch_unwind(AssertUnwindSafe(|| to_relation(&w, sql))) { Ok(Ok(r)) => println!("{}\n{}", r.schema(), r.size()), Ok(Err(e)) => println!("error: {}", e), Err(_) => println!("panic: {}", last_panic()) }
}
