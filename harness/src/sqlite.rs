//! In-process SQLite: schema and data of the world, shims for the functions the default
//! translator emits, query execution with canonical results.
use crate::common::*;
use crate::world::*;
use rusqlite::{functions::FunctionFlags, types::ValueRef, Connection};
use std::collections::BTreeMap;

#[derive(Clone, Debug, PartialEq)]
pub enum SV { Null, Int(i64), Real(f64), Text(String) }
impl SV {
    pub fn json(&self) -> serde_json::Value { match self { SV::Null => serde_json::Value::Null, SV::Int(i) => serde_json::json!(i), SV::Real(f) => serde_json::json!(f), SV::Text(s) => serde_json::json!(s) } }
    pub fn as_f64(&self) -> Option<f64> { match self { SV::Int(i) => Some(*i as f64), SV::Real(f) => Some(*f), _ => None } }
    /// canonical text for multiset comparison (numbers compared as numbers, with a relative tolerance handled by rounding)
    pub fn canon(&self) -> String {
        match self { SV::Null => "NULL".into(), SV::Int(i) => format!("n{:.9e}", *i as f64), SV::Real(f) => if f.is_nan() { "NaN".into() } else { format!("n{:.9e}", f) }, SV::Text(s) => format!("t{}", s) }
    }
}
pub type Rows = Vec<Vec<SV>>;
pub type Data = BTreeMap<String, Rows>;

pub fn gen_value(r: &mut Rng, ty: &ColTy) -> SV {
    match ty {
        ColTy::Int(a, b) => SV::Int(match r.below(6) { 0 => *a, 1 => *b, _ => r.range(*a, *b) }),
        ColTy::Float(a, b) => SV::Real(match r.below(6) { 0 => *a, 1 => *b, 2 => (a + b) / 2.0, _ => a + (b - a) * (r.below(1000) as f64) / 1000.0 }),
        ColTy::TextVals(v) => SV::Text(r.pick(v).to_string()),
        ColTy::OptInt(a, b) => if r.chance(1, 4) { SV::Null } else { gen_value(r, &ColTy::Int(*a, *b)) },
        ColTy::OptFloat(a, b) => if r.chance(1, 4) { SV::Null } else { gen_value(r, &ColTy::Float(*a, *b)) },
    }
}

/// a database conforming to the declared schemas, sizes and uniqueness; foreign keys mostly resolve
pub fn gen_data(r: &mut Rng, specs: &[TableSpec], max_rows: i64) -> Data {
    let mut data = Data::new();
    for t in specs {
        let n = match r.below(8) { 0 => 0, 1 => 1, _ => r.range(1, t.size.min(max_rows)) };
        let mut rows: Rows = vec![];
        for _ in 0..n {
            let mut row = vec![];
            for c in &t.cols {
                let mut v = gen_value(r, &c.ty);
                // foreign keys: mostly an existing parent key
                if t.name == "orders" && c.name == "user_id" { if let Some(p) = data.get("users") { if !p.is_empty() && r.chance(5, 6) { v = r.pick(p)[0].clone(); } } }
                if t.name == "items" && c.name == "order_id" { if let Some(p) = data.get("orders") { if !p.is_empty() && r.chance(5, 6) { v = r.pick(p)[0].clone(); } } }
                row.push(v);
            }
            rows.push(row);
        }
        // uniqueness of declared unique columns
        for (ci, c) in t.cols.iter().enumerate() {
            if c.unique { let mut seen = std::collections::BTreeSet::new(); rows.retain(|row| seen.insert(row[ci].canon())); }
        }
        data.insert(t.name.to_string(), rows);
    }
    data
}

fn to_sv(v: ValueRef) -> SV {
    match v { ValueRef::Null => SV::Null, ValueRef::Integer(i) => SV::Int(i), ValueRef::Real(f) => SV::Real(f), ValueRef::Text(s) => SV::Text(String::from_utf8_lossy(s).to_string()), ValueRef::Blob(b) => SV::Text(format!("{:?}", b)) }
}

pub struct Db { pub conn: Connection }

fn num(v: ValueRef) -> Option<f64> { match v { ValueRef::Integer(i) => Some(i as f64), ValueRef::Real(f) => Some(f), _ => None } }

impl Db {
    pub fn new(specs: &[TableSpec], data: &Data) -> Db {
        let conn = Connection::open_in_memory().unwrap();
        let det = FunctionFlags::SQLITE_UTF8 | FunctionFlags::SQLITE_DETERMINISTIC;
        for n in 2..=4 {
            conn.create_scalar_function("greatest", n, det, move |ctx| {
                let mut best: Option<(f64, SV)> = None;
                for i in 0..ctx.len() { let v = ctx.get_raw(i); if let Some(x) = num(v) { if best.as_ref().map(|b| x > b.0).unwrap_or(true) { best = Some((x, to_sv(v))); } } else if let ValueRef::Null = v { return Ok(rusqlite::types::Value::Null); } }
                Ok(match best { Some((_, SV::Int(i))) => rusqlite::types::Value::Integer(i), Some((_, SV::Real(f))) => rusqlite::types::Value::Real(f), _ => rusqlite::types::Value::Null })
            }).unwrap();
            conn.create_scalar_function("least", n, det, move |ctx| {
                let mut best: Option<(f64, SV)> = None;
                for i in 0..ctx.len() { let v = ctx.get_raw(i); if let Some(x) = num(v) { if best.as_ref().map(|b| x < b.0).unwrap_or(true) { best = Some((x, to_sv(v))); } } else if let ValueRef::Null = v { return Ok(rusqlite::types::Value::Null); } }
                Ok(match best { Some((_, SV::Int(i))) => rusqlite::types::Value::Integer(i), Some((_, SV::Real(f))) => rusqlite::types::Value::Real(f), _ => rusqlite::types::Value::Null })
            }).unwrap();
        }
        // the privacy-unit hash only has to be an injective function of the id
        conn.create_scalar_function("md5", 1, det, |ctx| Ok(match ctx.get_raw(0) { ValueRef::Null => rusqlite::types::Value::Null, v => rusqlite::types::Value::Text(format!("md5_{}", to_sv(v).canon())) })).unwrap();
        // PostgreSQL RANDOM(): uniform in [0, 1)
        let state = std::sync::Arc::new(std::sync::Mutex::new(Rng::new(0x5EED)));
        conn.create_scalar_function("random", 0, FunctionFlags::SQLITE_UTF8, move |_| { let mut g = state.lock().unwrap(); Ok(((g.next() >> 11) as f64 + 0.5) / (1u64 << 53) as f64) }).unwrap();
        // sample variance / standard deviation, as PostgreSQL's VARIANCE / STDDEV
        struct VarAgg { sd: bool }
        impl rusqlite::functions::Aggregate<(f64, f64, f64), Option<f64>> for VarAgg {
            fn init(&self, _: &mut rusqlite::functions::Context<'_>) -> rusqlite::Result<(f64, f64, f64)> { Ok((0.0, 0.0, 0.0)) }
            fn step(&self, ctx: &mut rusqlite::functions::Context<'_>, acc: &mut (f64, f64, f64)) -> rusqlite::Result<()> {
                if let Some(x) = num(ctx.get_raw(0)) { acc.0 += 1.0; acc.1 += x; acc.2 += x * x; } Ok(()) }
            fn finalize(&self, _: &mut rusqlite::functions::Context<'_>, acc: Option<(f64, f64, f64)>) -> rusqlite::Result<Option<f64>> {
                Ok(acc.and_then(|(n, s, q)| if n < 2.0 { None } else { let v = ((q - s * s / n) / (n - 1.0)).max(0.0); Some(if self.sd { v.sqrt() } else { v }) })) }
        }
        conn.create_aggregate_function("variance", 1, det, VarAgg { sd: false }).unwrap();
        conn.create_aggregate_function("stddev", 1, det, VarAgg { sd: true }).unwrap();
        for t in specs {
            let cols: Vec<String> = t.cols.iter().map(|c| format!("\"{}\" {}", c.name, match c.ty { ColTy::Int(..) | ColTy::OptInt(..) => "INTEGER", ColTy::Float(..) | ColTy::OptFloat(..) => "REAL", ColTy::TextVals(_) => "TEXT" })).collect();
            conn.execute(&format!("CREATE TABLE \"{}\" ({})", t.path, cols.join(", ")), []).unwrap();
            conn.execute(&format!("CREATE VIEW \"{}\" AS SELECT * FROM \"{}\"", t.name, t.path), []).unwrap();
            if let Some(rows) = data.get(t.name) {
                for row in rows {
                    let vals: Vec<String> = row.iter().map(|v| match v { SV::Null => "NULL".into(), SV::Int(i) => format!("{}", i), SV::Real(f) => format!("{:?}", f), SV::Text(s) => format!("'{}'", s.replace('\'', "''")) }).collect();
                    conn.execute(&format!("INSERT INTO \"{}\" VALUES ({})", t.path, vals.join(", ")), []).unwrap();
                }
            }
        }
        Db { conn }
    }

    pub fn query(&self, sql: &str) -> Result<(Vec<String>, Rows), String> {
        let sql = &sqlite_compat(sql);
        let mut st = self.conn.prepare(sql).map_err(|e| e.to_string())?;
        let names: Vec<String> = st.column_names().iter().map(|s| s.to_string()).collect();
        let n = names.len();
        let mut rows = vec![];
        let mut q = st.query([]).map_err(|e| e.to_string())?;
        loop {
            match q.next() { Ok(Some(row)) => { rows.push((0..n).map(|i| to_sv(row.get_ref(i).unwrap())).collect()); } Ok(None) => break, Err(e) => return Err(e.to_string()) }
            if rows.len() > 200_000 { return Err("too many rows".into()); }
        }
        Ok((names, rows))
    }
}

/// the multiset of rows, canonically
pub fn bag(rows: &Rows) -> Vec<String> { let mut v: Vec<String> = rows.iter().map(|r| r.iter().map(|x| x.canon()).collect::<Vec<_>>().join("|")).collect(); v.sort(); v }

/// neutralise (or fix) the Gaussian noise in rendered SQL: the Box–Muller factor is replaced by a constant
pub fn set_noise(sql: &str, z: f64) -> String {
    let pat = "((SQRT((-2) * (LN(RANDOM())))) * (COS((6.283185307179586) * (RANDOM()))))";
    sql.replace(pat, &format!("({:?})", z))
}

/// SQLite does not read a column list after a derived-table alias (`(VALUES ...) AS "t" ("c")`): the
/// enclosing CTE already names the columns, so the inner list is dropped.
pub fn sqlite_compat(sql: &str) -> String {
    let re = regex::Regex::new(r#"\)\) AS "([^"]*)" \((?:"[^"]*"(?:, )?)+\)"#).unwrap();
    re.replace_all(sql, r#")) AS "$1""#).to_string()
}
