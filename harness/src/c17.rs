//! C17: dialect translation emits SQL the target dialect's parser accepts, which reads back to a
//! relation with the same output schema (seven reading dialects) and, for SQLite, runs to the same rows.
//! Generated part of the model: the quoting character of every translator (QV/Generated/Dialects.v).
use crate::c03::{gen_agg_query, gen_params};
use crate::c08::render;
use crate::common::*;
use crate::sqlite::*;
use crate::world::*;
use qrlew::{
    ast,
    builder::{Ready as _, With as _},
    data_type::DataTyped,
    dialect_translation::{bigquery::BigQueryTranslator, databricks::DatabricksTranslator, hive::HiveTranslator, mssql::MsSqlTranslator, mysql::MySqlTranslator,
        postgresql::PostgreSqlTranslator, redshiftsql::RedshiftSqlTranslator, sqlite::SQLiteTranslator, QueryToRelationTranslator, RelationToQueryTranslator, RelationWithTranslator},
    hierarchy::Hierarchy,
    relation::{Relation, Schema, Variant as _},
    sql::{parse, parse_with_dialect},
    DataType,
};
use serde_json::json;
use sqlparser::dialect::{Dialect, SQLiteDialect};
use std::panic::{catch_unwind, AssertUnwindSafe};
use std::sync::Arc;

fn schema_sig(rel: &Relation) -> Vec<(String, String)> { rel.schema().iter().map(|f| (f.name().to_string(), f.data_type().to_string())).collect() }

/// tables and columns named with reserved words, spaces, punctuation, upper case, non-ASCII letters and quote characters
pub fn weird_relations() -> Hierarchy<Arc<Relation>> {
    let t1: Schema = vec![("select", DataType::integer_interval(0, 10)), ("my col", DataType::float_interval(0.0, 5.0)), ("a-b", DataType::integer_interval(0, 3)),
        ("Größe", DataType::float_interval(0.0, 2.0)), ("MixedCase", DataType::integer_interval(0, 9)), ("q\"d", DataType::integer_interval(0, 9)), ("b`t", DataType::integer_interval(0, 9))].into_iter().collect();
    let t2: Schema = vec![("group", DataType::integer_interval(0, 10)), ("from", DataType::text_values(["x".to_string(), "y".to_string()]))].into_iter().collect();
    let r1: Arc<Relation> = Arc::new(Relation::table().name("order").path(["order"]).schema(t1).size(20).build());
    let r2: Arc<Relation> = Arc::new(Relation::table().name("table").path(["my schema", "table"]).schema(t2).size(20).build());
    // a table in a schema whose name is derived from its path (no explicit name): it can only be referred to by the path
    let t3: Schema = vec![("group", DataType::integer_interval(0, 10)), ("val", DataType::float_interval(0.0, 5.0))].into_iter().collect();
    let r3: Arc<Relation> = Arc::new(Relation::table().path(["my schema", "other"]).schema(t3).size(20).build());
    [(vec!["order".to_string()], r1), (vec!["my schema".to_string(), "table".to_string()], r2.clone()), (vec!["table".to_string()], r2), (vec!["my schema".to_string(), "other".to_string()], r3)].into_iter().collect()
}

const WEIRD: [&str; 10] = [
    "SELECT t.\"select\" AS \"from\", t.\"my col\" AS \"where\" FROM \"order\" AS t",
    "SELECT t.\"a-b\" AS \"x y\", t.\"Größe\" AS \"Ünï\", t.\"MixedCase\" AS \"MixedCase\" FROM \"order\" AS t WHERE t.\"select\" > 2",
    "SELECT t.\"group\" AS \"group\", COUNT(t.\"from\") AS \"count\" FROM \"my schema\".\"table\" AS t GROUP BY t.\"group\"",
    "SELECT a.\"select\" AS \"left\", b.\"group\" AS \"right\" FROM \"order\" AS a JOIN \"table\" AS b ON a.\"select\" = b.\"group\"",
    "SELECT t.\"q\"\"d\" AS \"d\"\"q\" FROM \"order\" AS t",
    "SELECT t.\"b`t\" AS \"t`b\" FROM \"order\" AS t",
    "SELECT t.\"select\" AS \"order\" FROM \"order\" AS t ORDER BY t.\"select\" LIMIT 3",
    "SELECT t.\"select\" AS \"UNION\" FROM \"order\" AS t UNION SELECT s.\"group\" AS \"UNION\" FROM \"table\" AS s",
    "SELECT t.\"group\" AS g, SUM(t.val) AS s FROM \"my schema\".\"other\" AS t WHERE t.val > 1 GROUP BY t.\"group\"",
    "SELECT a.\"select\" AS x, b.val AS y FROM \"order\" AS a JOIN \"my schema\".\"other\" AS b ON a.\"select\" = b.\"group\"",
];

/// what a failure is keyed by in the known-findings file: the panic site, or the shape of the error message
fn construct_of(msg: &str) -> String {
    if msg.split(" @ ").count() == 3 { return panic_site(msg); }
    // identifiers and numbers of the message are dropped
    let re = regex::Regex::new(r#"[`"'][^`"']*[`"']|\d+"#).unwrap();
    re.replace_all(msg, "_").chars().take(70).collect::<String>().trim().to_string()
}

struct Ctx<'a> { st: &'a mut Stats, sql: &'a str, class: &'a str, relations: &'a Hierarchy<Arc<Relation>>, db: Option<&'a Db>, reference: Option<Rows> }

fn one<T: RelationToQueryTranslator + QueryToRelationTranslator + Copy>(cx: &mut Ctx, name: &str, rel: &Relation, t: T) where T::D: Dialect {
    let text = match catch_unwind(AssertUnwindSafe(|| ast::Query::from(RelationWithTranslator(rel, t)).to_string())) { Ok(x) => x,
        Err(_) => { cx.st.violation(json!({"kind":"translation-panics","dialect":name,"class":cx.class,"construct":construct_of(&last_panic()),"query":cx.sql,"panic":last_panic()})); return; } };
    cx.st.bump(&format!("translated_{}", name));
    let q = match catch_unwind(AssertUnwindSafe(|| parse_with_dialect(&text, t.dialect()))) { Ok(Ok(q)) => q,
        Ok(Err(e)) => { let f = format!("/tmp/c17_rejected_{}.sql", name); if std::env::var("QV_KEEP").is_ok() && !std::path::Path::new(&f).exists() { let _ = std::fs::write(&f, &text); }
            cx.st.violation(json!({"kind":"translated-sql-rejected-by-the-dialect-parser","dialect":name,"class":cx.class,"construct":construct_of(&e.to_string()),"query":cx.sql,"error":e.to_string().chars().take(200).collect::<String>(),"translated":text.chars().take(500).collect::<String>()})); return; }
        Err(_) => { cx.st.violation(json!({"kind":"dialect-parser-panics","dialect":name,"class":cx.class,"query":cx.sql})); return; } };
    // a WITH clause defines each name once: no engine of the eight accepts a name defined twice
    if let Some(with) = &q.with {
        let mut seen = std::collections::BTreeSet::new();
        for c in with.cte_tables.iter() { if !seen.insert(c.alias.name.value.clone()) {
            cx.st.violation(json!({"kind":"translated-sql-defines-a-cte-twice","dialect":name,"class":cx.class,"query":cx.sql,"cte":c.alias.name.value,"translated":text.chars().take(500).collect::<String>()}));
            return; } }
    }
    let back = match catch_unwind(AssertUnwindSafe(|| Relation::try_from((q.with(cx.relations), t)))) { Ok(Ok(r)) => r,
        Ok(Err(e)) => { cx.st.violation(json!({"kind":"translated-sql-not-read-back","dialect":name,"class":cx.class,"construct":construct_of(&e.to_string()),"query":cx.sql,"error":e.to_string().chars().take(200).collect::<String>(),"translated":text.chars().take(500).collect::<String>()})); return; }
        Err(_) => { cx.st.violation(json!({"kind":"reading-back-panics","dialect":name,"class":cx.class,"construct":construct_of(&last_panic()),"query":cx.sql,"panic":last_panic(),"translated":text.chars().take(500).collect::<String>()})); return; } };
    cx.st.bump(&format!("read_back_{}", name));
    // the relation read back means what the original means: both rendered with the default translator and executed
    if let (Some(db), Some(reference)) = (cx.db, cx.reference.as_ref()) {
        if schema_sig(rel) == schema_sig(&back) {
            if let Ok(text_back) = catch_unwind(AssertUnwindSafe(|| render(&back))) {
                if let Ok((_, rows)) = db.query(&text_back) {
                    cx.st.bump("read_back_executed");
                    if bag(&rows) != bag(reference) {
                        cx.st.violation(json!({"kind":"read-back-relation-returns-other-rows","dialect":name,"class":cx.class,"query":cx.sql,"translated":text.chars().take(500).collect::<String>(),"original_count":reference.len(),"read_back_count":rows.len()}));
                    }
                }
            }
        }
    }
    let (a, b) = (schema_sig(rel), schema_sig(&back));
    if a.iter().map(|x| &x.0).collect::<Vec<_>>() != b.iter().map(|x| &x.0).collect::<Vec<_>>() {
        cx.st.violation(json!({"kind":"read-back-column-names-differ","dialect":name,"class":cx.class,"query":cx.sql,"schema":a,"read_back":b}));
    } else if a != b {
        let pairs: Vec<(&(String, String), &(String, String))> = a.iter().zip(b.iter()).filter(|(x, y)| x != y).collect();
        let boolish = |t: &str| t.starts_with("bool") || t.starts_with("option(bool") || t == "null" || t == "∅" || t == "option(∅)";
        let change = if pairs.iter().all(|(x, y)| boolish(&x.1) && (!boolish(&y.1) || x.1 != y.1 && (y.1 == "null" || x.1 == "∅"))) { "boolean-to-number" } else if text.contains("LOG10(") { "log10" } else { "other" };
        cx.st.violation(json!({"kind":"read-back-column-types-differ","dialect":name,"class":cx.class,"construct":change,"query":cx.sql,"differ":pairs.iter().take(3).collect::<Vec<_>>()}));
    }
}

/// the quoting characters of the translators and whether the dialect's tokenizer takes them as identifier delimiters
pub fn generate(dir: &str) {
    fn probe<T: RelationToQueryTranslator + QueryToRelationTranslator + Copy>(name: &str, t: T) -> String where T::D: Dialect {
        let id = RelationToQueryTranslator::identifier(&t, &"x".into());
        let q = id[0].quote_style.map(|c| c as u32).unwrap_or(0);
        let ok = id[0].quote_style.map(|c| t.dialect().is_delimited_identifier_start(c)).unwrap_or(false);
        format!("  ({}, {}%N, {})", coq_string(name), q, coq_bool(ok))
    }
    let sqlite = { let id = SQLiteTranslator.identifier(&"x".into()); let q = id[0].quote_style;
        format!("  ({}, {}%N, {})", coq_string("sqlite"), q.map(|c| c as u32).unwrap_or(0), coq_bool(q.map(|c| SQLiteDialect {}.is_delimited_identifier_start(c)).unwrap_or(false))) };
    let rows = vec![probe("postgresql", PostgreSqlTranslator), probe("mysql", MySqlTranslator), probe("mssql", MsSqlTranslator), probe("bigquery", BigQueryTranslator),
        probe("hive", HiveTranslator), probe("databricks", DatabricksTranslator), probe("redshift", RedshiftSqlTranslator), sqlite];
    let text = format!("(* GENERATED by `qvh GEN-DIALECTS` from the translators of src/dialect_translation: the character each\n   translator quotes identifiers with (RelationToQueryTranslator::identifier) and whether the dialect's\n   tokenizer reads it as an identifier delimiter (Dialect::is_delimited_identifier_start).  Do not edit. *)\nFrom Coq Require Import String List NArith.\nImport ListNotations.\nOpen Scope string_scope.\n\nDefinition dialects : list (string * N * bool) := [\n{}\n].\n", rows.join(";\n"));
    std::fs::create_dir_all(dir).unwrap();
    std::fs::write(format!("{}/Dialects.v", dir), text).unwrap();
}

/// queries of the supported fragment aimed at what differs between dialects (also run by C08, C07 and C16 under their oracles)
pub fn frag_templates() -> Vec<&'static str> {
    vec!["SELECT VARIANCE(t.amount) AS v, AVG(t.amount) AS m FROM orders AS t", "SELECT t.status AS k, STDDEV(t.amount) AS s FROM orders AS t GROUP BY t.status",
                // expression shapes whose text could collide with lexical conventions of a dialect (comments, operators, quotes)
                "SELECT -(-t.age) AS x, - t.income AS y, t.age - (-5) AS z FROM users AS t", "SELECT NOT (NOT (t.age > 30)) AS x, -(-(-t.age)) AS y FROM users AS t WHERE -(-t.age) > 20",
                "SELECT '--' AS a, '/* x */' AS b, t.city AS c FROM users AS t", "SELECT t.age * -1 AS x, t.age / 2 AS y, t.age % 7 AS z FROM users AS t",
                "SELECT CASE WHEN t.age > 30 THEN -(-t.income) ELSE - t.income END AS x FROM users AS t",
                // a sub-relation shared by both operands of a set operation or a join, under different projections
                "WITH c AS (SELECT t.age AS a, t.id AS b FROM users AS t WHERE t.age > 20) SELECT c.a AS v FROM c UNION ALL SELECT c.b AS v FROM c",
                "WITH c AS (SELECT t.age AS a, t.id AS b FROM users AS t WHERE t.age > 20) SELECT c.a AS v FROM c WHERE c.a > 30 EXCEPT SELECT c.b AS v FROM c WHERE c.b < 40",
                "WITH c AS (SELECT t.age AS a, t.id AS b FROM users AS t) SELECT c.a + 1 AS v FROM c INTERSECT SELECT c.b + 2 AS v FROM c",
                "WITH c AS (SELECT t.age AS a, t.id AS b FROM users AS t) SELECT x.a AS a, y.b AS b FROM c AS x JOIN c AS y ON x.b = y.a",
                "WITH c AS (SELECT t.age AS a, t.id AS b FROM users AS t), d AS (SELECT c.a AS v FROM c UNION SELECT c.b AS v FROM c) SELECT d.v AS v FROM d UNION ALL SELECT c.a + c.b AS v FROM c",
                // float constants that need all 17 significant digits, very large and very small
                "SELECT 30000000000000004.0 AS a, 1.2345678901234567e-11 AS b, t.income * 12345678901.234567 AS c FROM users AS t WHERE t.income < 98765432109.87654",
                "SELECT t.amount + 0.30000000000000004 AS a, t.amount * 1.0000000000000002e15 AS b, t.amount / 7.000000000000001e-12 AS c FROM orders AS t",
                // CASE with several WHEN branches whose conditions overlap (the first true branch wins), nested in ELSE and in THEN
                "SELECT CASE WHEN t.age > 60 THEN 'high' WHEN t.age > 30 THEN 'mid' WHEN t.age > 0 THEN 'low' ELSE 'none' END AS k, t.id AS i FROM users AS t",
                "SELECT CASE WHEN t.amount > 400 THEN 3 WHEN t.amount > 100 THEN 2 WHEN t.amount >= 0 THEN 1 ELSE 0 END AS k, t.id AS i FROM orders AS t",
                "SELECT CASE WHEN t.age > 20 THEN CASE WHEN t.age > 50 THEN 1 WHEN t.age > 40 THEN 2 ELSE 3 END WHEN t.age > 10 THEN 4 ELSE 5 END AS k, t.id AS i FROM users AS t",
                // two windows of the same ordered sub-query in one statement (they differ by LIMIT / OFFSET only)
                "SELECT p1.id AS a1, p2.id AS a2 FROM (SELECT t.id AS id, t.age AS b FROM users AS t ORDER BY t.id LIMIT 2 OFFSET 0) AS p1 JOIN (SELECT t.id AS id, t.age AS b FROM users AS t ORDER BY t.id LIMIT 2 OFFSET 2) AS p2 ON p1.b <> p2.id",
                "SELECT x.id AS a FROM (SELECT t.id AS id FROM users AS t ORDER BY t.id LIMIT 3) AS x UNION ALL SELECT y.id AS a FROM (SELECT t.id AS id FROM users AS t ORDER BY t.id LIMIT 5) AS y",
                "WITH p1 AS (SELECT t.id AS id FROM orders AS t ORDER BY t.id LIMIT 4), p2 AS (SELECT t.id AS id FROM orders AS t ORDER BY t.id LIMIT 4 OFFSET 4) SELECT p1.id AS a, p2.id AS b FROM p1 CROSS JOIN p2"]
}

/// scalar functions with their optional arguments (trim characters, substring bounds, rounding digits), casts and predicates
pub fn fn_templates() -> Vec<(&'static str, &'static str)> {
    vec![
        ("fn-trim", "SELECT LTRIM(t.city, 'P') AS a, RTRIM(t.city, 's') AS b FROM users AS t"),
        ("fn-trim", "SELECT TRIM(LEADING 'P' FROM t.city) AS a, TRIM(TRAILING 'e' FROM t.city) AS b FROM users AS t"),
        ("fn-trim", "SELECT TRIM(BOTH 'L' FROM t.city) AS c FROM users AS t"),
        ("fn-substr", "SELECT SUBSTR(t.city, 2) AS a, SUBSTR(t.city, 1, 2) AS b FROM users AS t"),
        ("fn-scalar", "SELECT ROUND(t.income, 1) AS a, ROUND(t.income) AS b FROM users AS t"),
        ("fn-scalar", "SELECT POSITION('a' IN t.city) AS a FROM users AS t"),
        ("fn-scalar", "SELECT CONCAT(t.city, '-', t.city) AS a FROM users AS t"),
        ("fn-scalar", "SELECT POW(t.age, 2) AS a, SQRT(t.age) AS b, EXP(t.age / 100) AS c, LN(t.age) AS d FROM users AS t"),
        ("fn-scalar", "SELECT LOWER(t.city) AS a, UPPER(t.city) AS b, CHAR_LENGTH(t.city) AS c FROM users AS t"),
        ("fn-scalar", "SELECT GREATEST(t.age, 30) AS a, LEAST(t.age, 30) AS b FROM users AS t"),
        ("fn-scalar", "SELECT CAST(t.age AS TEXT) AS a, CAST(t.income AS INTEGER) AS b, CAST(t.id AS FLOAT) AS c FROM users AS t"),
        ("fn-scalar", "SELECT COALESCE(t.score, 0) AS a, t.age % 7 AS b, ABS(t.age - 50) AS c, SIGN(t.age - 50) AS d FROM users AS t"),
        ("fn-scalar", "SELECT CEIL(t.income / 7) AS a, FLOOR(t.income / 7) AS b, TRUNC(t.income / 7) AS c FROM users AS t"),
        ("fn-scalar", "SELECT t.city LIKE 'P%' AS a, t.city IN ('Paris', 'Lyon') AS b, t.age BETWEEN 20 AND 40 AS c FROM users AS t"),
        ("fn-scalar", "SELECT REGEXP_CONTAINS(t.city, 'P') AS a FROM users AS t"),
        ("fn-scalar", "SELECT MD5(t.city) AS a FROM users AS t"),
        ("fn-substr", "SELECT SUBSTRING(t.city FROM 1 FOR 2) AS a FROM users AS t"),
        ("fn-log2-log10", "SELECT LOG(t.age) AS a, LOG10(t.age) AS b, LOG2(t.age) AS c FROM users AS t"),
        ("fn-scalar", "SELECT t.age / 7 AS a, t.income * 2 AS b, t.age + t.id AS c FROM users AS t"),
        ("fn-scalar", "SELECT CASE WHEN t.score IS NULL THEN 0 ELSE 1 END AS a, t.score IS NOT NULL AS b FROM users AS t"),
        ("fn-scalar", "SELECT LOG(t.age) AS a, LN(t.age) AS b, LOG(2, t.age) AS c FROM users AS t"),
        // remainders and quotients of negative dividends and by negative divisors (the remainder has the sign of the dividend)
        ("fn-scalar", "SELECT (t.age - 50) % 7 AS a, (20 - t.id) % 3 AS b, t.age % -4 AS c, (t.age - 50) % -4 AS d FROM users AS t"),
        ("fn-scalar", "SELECT MIN((t.age - 50) % 4) AS lo, MAX((t.age - 50) % 4) AS hi, SUM((10 - t.id) % 5) AS s FROM users AS t GROUP BY t.city")]
}

pub fn run(outdir: &str, seed: u64, thorough: bool) -> serde_json::Value {
    let _ = outdir;
    let w = world();
    let weird = weird_relations();
    let mut rng = Rng::new(seed ^ 0xC17);
    let mut st = Stats::default();
    let n = if thorough { 2500 } else { 220 };
    // aggregation queries whose DP rewriting is translated: the last has an empty public key set
    let dp_targeted = ["SELECT t.city AS k0, COUNT(t.income) AS a0 FROM users AS t GROUP BY t.city", "SELECT VARIANCE(t.amount) AS a0, STDDEV(t.amount) AS a1, AVG(t.amount) AS a2 FROM orders AS t",
        "SELECT t.qty AS k0, COUNT(t.price) AS a1 FROM items AS t WHERE t.qty > 20 GROUP BY t.qty"];
    let corpus: Vec<String> = crate::c08::templates().into_iter().filter(|(n, _)| !crate::c08::MISTRANSLATED.contains(n) && !n.starts_with("group-by-keys-only-with-where") && *n != "dialect-template").map(|(_, q)| q.replace("{k}", "3")).collect();
    let mut made = 0; let mut attempts = 0; let mut kfrag = 0usize;
    while made < n && attempts < n * 20 {
        attempts += 1;
        let mut r = rng.fork();
        let mut ordered = false;
        // three kinds of relations: the supported fragment, DP rewritings, odd identifiers
        let (sql, rel, relations, class): (String, Relation, &Hierarchy<Arc<Relation>>, &str) = if attempts <= WEIRD.len() {
            let sql = WEIRD[attempts - 1].to_string();
            let Ok(Ok(rel)) = catch_unwind(AssertUnwindSafe(|| parse(&sql).map_err(|e| e.to_string()).and_then(|q| Relation::try_from(q.with(&weird)).map_err(|e| e.to_string())))) else { st.bump("odd_identifier_query_not_compiled"); continue };
            (sql, rel, &weird, "odd-identifiers")
        } else if attempts <= WEIRD.len() + dp_targeted.len() || (attempts > WEIRD.len() + dp_targeted.len() + 2 && r.chance(1, 4)) {
            let sql = if attempts <= WEIRD.len() + dp_targeted.len() { dp_targeted[attempts - WEIRD.len() - 1].to_string() } else { gen_agg_query(&mut r) };
            let Ok(Ok(rel)) = catch_unwind(AssertUnwindSafe(|| to_relation(&w, &sql))) else { continue };
            let p = if attempts <= WEIRD.len() + dp_targeted.len() { crate::rules::dp_params() } else { gen_params(&mut r) };
            let Ok(Ok(rw)) = catch_unwind(AssertUnwindSafe(|| rel.rewrite_with_differential_privacy(&w.relations, None, w.privacy_unit.clone(), p))) else { st.bump("dp_rewrite_failed"); continue };
            let empty_values = render(rw.relation()).contains("(VALUES )");
            (sql, rw.relation().clone(), &w.relations, if empty_values { "dp-empty-public-key-set" } else { "dp" })
        } else {
            let depth = r.range(0, 2) as u32;
            kfrag += 1; let k = kfrag;
            let frag_targeted = frag_templates();
            let sql = if k >= 1 && k <= frag_targeted.len() { frag_targeted[k - 1].to_string() }
                // the constructs the tree generator does not produce (the templates of C08)
                else if k - frag_targeted.len() <= corpus.len() { st.bump("construct_template_queries"); corpus[k - frag_targeted.len() - 1].clone() } else {
                let (q0, cols) = { let mut g = QGen::new(&mut r, &w.specs); g.bool_items = true; g.query(depth) };
                let is_set = q0.contains(" UNION ") || q0.contains(" INTERSECT ") || q0.contains(" EXCEPT ");
                if is_set { q0 } else { let (q, o) = crate::c08::decorate(&mut r, &q0, &cols); ordered = o; q } };
            let Ok(Ok(rel)) = catch_unwind(AssertUnwindSafe(|| to_relation(&w, &sql))) else { continue };
            (sql, rel, &w.relations, "fragment")
        };
        made += 1; st.evaluations += 1; st.distinct.insert(hash_str(&sql)); st.bump(&format!("class_{}", class));
        // fragment queries are also executed: the database and the rows of the original text
        let frag_db = if class == "fragment" { let data = gen_data(&mut r, &w.specs, 10); Some(Db::new(&w.specs, &data)) } else { None };
        let reference: Option<Rows> = match &frag_db { Some(db) if !sql.to_uppercase().contains("LIMIT") && !sql.to_uppercase().contains("RANDOM") => db.query(&sql).ok().map(|x| x.1), _ => None };
        {
            let mut cx = Ctx { st: &mut st, sql: &sql, class, relations, db: frag_db.as_ref(), reference };
            one(&mut cx, "postgresql", &rel, PostgreSqlTranslator);
            one(&mut cx, "mysql", &rel, MySqlTranslator);
            one(&mut cx, "mssql", &rel, MsSqlTranslator);
            one(&mut cx, "bigquery", &rel, BigQueryTranslator);
            one(&mut cx, "hive", &rel, HiveTranslator);
            one(&mut cx, "databricks", &rel, DatabricksTranslator);
            one(&mut cx, "redshift", &rel, RedshiftSqlTranslator);
        }
        // SQLite: accepted by the SQLite dialect parser, and executed against the default rendering
        match catch_unwind(AssertUnwindSafe(|| ast::Query::from(RelationWithTranslator(&rel, SQLiteTranslator)).to_string())) {
            Err(_) => st.violation(json!({"kind":"translation-panics","dialect":"sqlite","class":class,"construct":construct_of(&last_panic()),"query":sql})),
            Ok(text) => {
                st.bump("translated_sqlite");
                if let Err(e) = parse_with_dialect(&text, SQLiteDialect {}) { st.violation(json!({"kind":"translated-sql-rejected-by-the-dialect-parser","dialect":"sqlite","class":class,"construct":construct_of(&e.to_string()),"query":sql,"error":e.to_string()})); }
                if class == "fragment" {
                    // the original text and the SQLite translation on the same database (as C08 does for the default rendering)
                    let db = frag_db.as_ref().unwrap();
                    match (db.query(&sql), db.query(&text)) {
                        (Ok((an, a)), Ok((bn, b))) => { st.bump("executed_on_sqlite");
                            let same_order = !ordered || a.iter().zip(b.iter()).all(|(x, y)| x.iter().map(|v| v.canon()).collect::<Vec<_>>() == y.iter().map(|v| v.canon()).collect::<Vec<_>>());
                            if an != bn || bag(&a) != bag(&b) || !same_order { st.violation(json!({"kind":"sqlite-translation-returns-other-rows","dialect":"sqlite","class":class,"query":sql,"translated":text.chars().take(600).collect::<String>(),
                                "original_count":a.len(),"translated_count":b.len(),"original_columns":an,"translated_columns":bn})); } }
                        (Ok(_), Err(e)) => { st.violation(json!({"kind":"sqlite-translation-not-executable","dialect":"sqlite","class":class,"construct": if text.contains("SUBSTRING(") && e.contains("near \"FROM\"") { "substring-from-for-syntax".to_string() } else { e.chars().take(40).collect::<String>() },"query":sql,"error":e.chars().take(200).collect::<String>(),"translated":text.chars().take(400).collect::<String>()})); }
                        _ => { st.bump("original_not_executable_on_sqlite"); }
                    }
                }
            }
        }
        if made <= 2 { st.sample(json!({"query":sql,"class":class})); }
    }
    let mut out = st.to_json("relations from generated queries of the supported fragment, from DP rewritings of aggregation queries and from queries over tables and columns named with reserved words, spaces, punctuation, upper case, non-ASCII letters and quote characters x the eight translators: translated text parsed with the dialect's own sqlparser dialect, read back through the dialect's QueryToRelationTranslator (seven dialects: names, order, types), SQLite text executed against the default rendering; distinct by query");
    out["shards"] = json!({});
    out
}

/// developer aid: parse a text with a dialect and read it back
pub fn probe(sql: &str, dialect: &str) {
    let w = world();
    fn go<T: RelationToQueryTranslator + QueryToRelationTranslator + Copy>(sql: &str, t: T, w: &World) where T::D: Dialect {
        match parse_with_dialect(sql, t.dialect()) { Err(e) => println!("parse error: {}", e), Ok(q) => { println!("parsed");
            match catch_unwind(AssertUnwindSafe(|| Relation::try_from((q.with(&w.relations), t)))) { Ok(Ok(r)) => println!("read back: {}", r.schema()), Ok(Err(e)) => println!("read back error: {}", e), Err(_) => println!("read back panic: {}", last_panic()) } } }
    }
    match dialect { "postgresql" => go(sql, PostgreSqlTranslator, &w), "mysql" => go(sql, MySqlTranslator, &w), "mssql" => go(sql, MsSqlTranslator, &w), "bigquery" => go(sql, BigQueryTranslator, &w),
        "hive" => go(sql, HiveTranslator, &w), "databricks" => go(sql, DatabricksTranslator, &w), _ => go(sql, RedshiftSqlTranslator, &w) }
}
/// developer aid: translate a query of the default dialect into a dialect
pub fn show(sql: &str, dialect: &str) {
    let w = world();
    let rel = to_relation(&w, sql).unwrap();
    fn tr<T: RelationToQueryTranslator>(rel: &Relation, t: T) -> String { ast::Query::from(RelationWithTranslator(rel, t)).to_string() }
    println!("{}", match dialect { "postgresql" => tr(&rel, PostgreSqlTranslator), "mysql" => tr(&rel, MySqlTranslator), "mssql" => tr(&rel, MsSqlTranslator), "bigquery" => tr(&rel, BigQueryTranslator),
        "hive" => tr(&rel, HiveTranslator), "databricks" => tr(&rel, DatabricksTranslator), "sqlite" => tr(&rel, SQLiteTranslator), _ => tr(&rel, RedshiftSqlTranslator) });
}
