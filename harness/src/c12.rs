//! C12: conversions — correspondence cases for QV/DataType/Inject.v and the three laws on the implementation.
use crate::common::*;
use crate::typegen::*;
use qrlew::data_type::{self, injection::{From as InjFrom, Injection as _, InjectInto as _}, value::{self, Value}, DataType, Variant as _};
use serde_json::json;
use std::panic::{catch_unwind, AssertUnwindSafe};

fn targets() -> Vec<(&'static str, DataType)> {
    vec![("float", DataType::float()), ("integer", DataType::integer()), ("text", DataType::text()), ("boolean", DataType::boolean()),
         ("optional(float)", DataType::optional(DataType::float())), ("optional(text)", DataType::optional(DataType::text())),
         ("optional(integer)", DataType::optional(DataType::integer())), ("any", DataType::Any)]
}


/// the three laws on one (source type, target, sample values)
fn laws(st: &mut Stats, a: &DataType, tn: &str, b: &DataType, vs: &[Value], k: usize) {
        let res = catch_unwind(AssertUnwindSafe(|| {
            let img = a.into_data_type(&b).ok()?;
            let inj = a.inject_into(&b).ok()?;
            let ws: Vec<Result<Value, String>> = vs.iter().map(|v| inj.value(v).map_err(|e| e.to_string())).collect();
            Some((img, ws))
        }));
        st.evaluations += 1;
        match res {
            Err(e) => { st.bump("conversion_panicked"); st.notes.push(format!("panic converting {} into {}: {}", a, tn, panic_msg(e))); st.notes.truncate(5); }
            Ok(None) => { st.bump("not_convertible"); }
            Ok(Some((img, ws))) => {
                st.distinct.insert(hash_str(&format!("{}{}{:?}", a, tn, vs.iter().map(|v| v.to_string()).collect::<Vec<_>>())));
                st.bump(&format!("convertible_into_{}", tn));
                for (v, w) in vs.iter().zip(ws.iter()) {
                    if !a.contains(v) { st.bump("sample_not_in_source_type"); continue; }
                    match w {
                        Err(e) => st.violation(json!({"kind":"value-of-convertible-type-not-converted","source_type":a.to_string(),"target":tn,"converted_type":img.to_string(),"value":v.to_string(),"error":e,
                            "site": if matches!(v, Value::Float(_)) && tn.contains("integer") { "Base<Float,DataType>::value" } else { "other" }})),
                        Ok(w) => if !img.contains(w) {
                            let vtxt = v.to_string();
                            let negzero = ["0", "-0", "some(0)", "some(-0)"].contains(&vtxt.as_str()) && (vtxt.contains("-0") || a.to_string().contains("-0")) && tn.contains("text")
                                && (a.to_string().contains("float") || matches!(v, Value::Float(_)));
                            st.violation(json!({"kind":"converted-value-outside-converted-type","class": if negzero { "negative-zero-into-text" } else { "other" },"source_type":a.to_string(),"target":tn,"converted_type":img.to_string(),"value":v.to_string(),"converted_value":w.to_string()}));
                        }
                    }
                }
                for i in 0..vs.len() { for j in (i + 1)..vs.len() {
                    if let (Ok(wi), Ok(wj)) = (&ws[i], &ws[j]) {
                        if vs[i] != vs[j] && wi == wj && a.contains(&vs[i]) && a.contains(&vs[j]) {
                            // an integer beyond 2^53 anywhere inside the value (some(..), struct fields, list elements)
                            let big = |v: &Value| { let s = v.to_string(); let mut cur = String::new(); let mut found = false;
                                for c in s.chars().chain(std::iter::once(' ')) { if c.is_ascii_digit() { cur.push(c); } else { if cur.len() >= 16 { if let Ok(x) = cur.parse::<u128>() { if x > (1u128 << 53) { found = true; } } } cur.clear(); } } found };
                            st.violation(json!({"kind":"conversion-not-injective","source_type":a.to_string(),"target":tn,"values":[vs[i].to_string(), vs[j].to_string()],"converted":wi.to_string(),
                                "class": if tn.contains("float") && (big(&vs[i]) || big(&vs[j]) || a.to_string().contains("90071992547409") || a.to_string().contains("9223372036854775")) { "integer-above-2p53-into-float" } else { "other" }}));
                        }
                    }
                }}
                if k < 2 { st.sample(json!({"stream":"laws","source_type":a.to_string(),"target":tn,"converted_type":img.to_string(),"value":vs[0].to_string(),"converted":ws[0].as_ref().map(|w| w.to_string()).unwrap_or_else(|e| e.clone())})); }
            }
        }
    
}

/// number of elements at every level of a value: a conversion never changes it
fn shape_of(v: &Value) -> String {
    match v { Value::List(l) => format!("l{}[{}]", l.len(), l.iter().map(shape_of).collect::<Vec<_>>().join(",")), Value::Optional(o) => match o.as_deref() { Some(x) => format!("s({})", shape_of(x)), None => "n".into() },
        Value::Struct(s) => format!("{{{}}}", s.iter().map(|(n, x)| format!("{}:{}", n, shape_of(x))).collect::<Vec<_>>().join(",")), _ => "_".into() }
}
/// conversions that are not total (list(float) into list(int), optional floats into optional ints, structs of them): the
/// injection built for the pair converts a value exactly or refuses it; it never drops or rounds an element
fn partial_laws(st: &mut Stats, rng: &mut Rng, thorough: bool) {
    let fl = |xs: &[f64]| -> Vec<Value> { xs.iter().map(|x| Value::float(*x)).collect() };
    let lists: Vec<Vec<f64>> = vec![vec![1.0, 2.5, 3.0], vec![1.0, 3.0], vec![2.5], vec![], vec![0.5, 0.25], vec![4.0, 4.0, 7.0], vec![1e19, 2.0], vec![2.0], vec![-0.0, 1.0], vec![1.0, 2.0, 3.0]];
    let pairs: Vec<(DataType, DataType, Vec<Value>)> = vec![
        (DataType::list(DataType::float(), 0, 10), DataType::list(DataType::integer(), 0, 10), lists.iter().map(|l| Value::list(fl(l))).collect()),
        (DataType::list(DataType::float_interval(0.0, 10.0), 0, 10), DataType::list(DataType::integer_interval(0, 3), 0, 10), lists.iter().map(|l| Value::list(fl(l))).collect()),
        (DataType::optional(DataType::float()), DataType::optional(DataType::integer()), vec![Value::some(Value::float(2.5)), Value::some(Value::float(2.0)), Value::none(), Value::some(Value::float(3.0))]),
        (DataType::list(DataType::optional(DataType::float()), 0, 10), DataType::list(DataType::optional(DataType::integer()), 0, 10),
            vec![Value::list(vec![Value::some(Value::float(1.0)), Value::some(Value::float(2.5))]), Value::list(vec![Value::some(Value::float(1.0))]), Value::list(vec![Value::some(Value::float(1.0)), Value::none()])]),
        (DataType::structured([("x", DataType::float()), ("y", DataType::list(DataType::float(), 0, 5))]), DataType::structured([("x", DataType::integer()), ("y", DataType::list(DataType::integer(), 0, 5))]),
            vec![Value::structured([("x", Value::float(1.0)), ("y", Value::list(fl(&[1.0, 2.5])))]), Value::structured([("x", Value::float(1.0)), ("y", Value::list(fl(&[1.0])))]), Value::structured([("x", Value::float(1.5)), ("y", Value::list(fl(&[1.0])))])]),
        (DataType::list(DataType::text(), 0, 5), DataType::list(DataType::integer(), 0, 5), vec![Value::list(vec![Value::text("1"), Value::text("x"), Value::text("3")]), Value::list(vec![Value::text("1"), Value::text("3")])]),
    ];
    let _ = (rng, thorough);
    for (a, b, vs) in pairs.iter() {
        let res = catch_unwind(AssertUnwindSafe(|| { let inj = a.inject_into(b).ok()?; Some(vs.iter().map(|v| inj.value(v).ok()).collect::<Vec<Option<Value>>>()) }));
        st.evaluations += 1; st.distinct.insert(hash_str(&format!("partial{}{}", a, b))); st.bump("partial_conversion_pairs");
        let Ok(Some(ws)) = res else { st.bump("partial_conversion_not_built"); continue };
        for (v, w) in vs.iter().zip(ws.iter()) { if let Some(w) = w {
            st.bump("partial_conversion_accepted_values");
            if shape_of(v) != shape_of(w) { st.violation(json!({"kind":"conversion-changes-the-shape-of-the-value","source_type":a.to_string(),"target_type":b.to_string(),"value":v.to_string(),"converted":w.to_string()})); }
            if !crate::typegen::member(b, w) && !b.contains(w) { st.violation(json!({"kind":"converted-value-outside-target-type","class":"partial-conversion","source_type":a.to_string(),"target_type":b.to_string(),"value":v.to_string(),"converted":w.to_string()})); }
        } }
        for i in 0..vs.len() { for j in (i + 1)..vs.len() { if let (Some(wi), Some(wj)) = (&ws[i], &ws[j]) { if vs[i] != vs[j] && wi == wj && !(vs[i].to_string().contains("-0") || vs[j].to_string().contains("-0")) {
            st.violation(json!({"kind":"conversion-not-injective","class":"partial-conversion","source_type":a.to_string(),"target":b.to_string(),"values":[vs[i].to_string(), vs[j].to_string()],"converted":wi.to_string()})); } } } }
    }
}

pub fn run(outdir: &str, seed: u64, thorough: bool) -> serde_json::Value {
    let mut rng = Rng::new(seed ^ 0xC12);
    let mut st = Stats::default();
    partial_laws(&mut st, &mut rng.fork(), thorough);
    // ---- correspondence: Integer -> Float value ----
    let n = if thorough { 40000 } else { 1500 };
    let mut c_i2f = vec![]; let mut j_i2f = vec![];
    let i2f = InjFrom(data_type::Integer::full()).into(data_type::Float::full()).unwrap();
    for k in 0..n {
        let i: i64 = match rng.below(8) {
            0 => *rng.pick(&[0, 1, -1, i64::MAX, i64::MIN, i64::MAX - 1, i64::MIN + 1]),
            1 => { let e = rng.range(50, 62); let d = rng.range(-5, 5); ((1i64 << e) + d) * if rng.chance(1, 2) { -1 } else { 1 } }
            2 => { let e = rng.range(53, 62); (1i64 << e) + (1i64 << (e - 53)) + rng.range(-2, 2) }   // ties to even
            3 => rng.next() as i64,
            4 => (rng.next() >> rng.below(40)) as i64,
            _ => rng.range(-100000, 100000),
        };
        let f: f64 = *i2f.value(&value::Integer::from(i)).unwrap();
        c_i2f.push(format!("({}, {})", coq_z(i as i128), coq_z(f.to_bits() as i128)));
        j_i2f.push(json!({"i": i, "bits": f.to_bits()}));
        st.case(&format!("i2f{}", i), i.unsigned_abs() > (1u64 << 53));
        if k < 1 { st.sample(json!({"stream":"int->float","i":i,"float":f})); }
    }
    // ---- correspondence: Float -> Integer value ----
    let mut c_f2i = vec![]; let mut j_f2i = vec![];
    let f2i = InjFrom(data_type::Float::full()).into(data_type::Integer::full()).unwrap();
    for k in 0..n {
        let x: f64 = match rng.below(8) {
            0 => float_bound(&mut rng),
            1 => (rng.range(-1000, 1000) as f64) / 4.0,
            2 => f64::from_bits(rng.next() & 0x7FEF_FFFF_FFFF_FFFF) * if rng.chance(1, 2) { -1.0 } else { 1.0 },
            3 => (rng.next() as i64) as f64,
            4 => *rng.pick(&[9223372036854775808.0, -9223372036854775808.0, 9223372036854774784.0, 9223372036854777856.0, 4503599627370495.5, 0.0, -0.0, 1e19, -1e19]),
            _ => rng.range(-100000, 100000) as f64,
        };
        let res = f2i.value(&value::Float::from(x)).ok().map(|v| *v);
        c_f2i.push(format!("({}, {})", coq_z(x.to_bits() as i128), coq_opt(&res, |v| coq_z(*v as i128))));
        j_f2i.push(json!({"bits": x.to_bits(), "float": x, "result": res}));
        st.case(&format!("f2i{}", x.to_bits()), x.fract() != 0.0 || x.abs() > 9e15);
        st.bump(if res.is_some() { "float_to_int_accepted" } else { "float_to_int_refused" });
        if k < 1 { st.sample(json!({"stream":"float->int","x":x,"result":res})); }
    }
    // ---- correspondence: image of integer interval sets under Integer -> Float ----
    let mut c_img = vec![]; let mut j_img = vec![];
    for _ in 0..(n / 3) {
        let nint = rng.range(1, 4);
        let mut ivs: Vec<[i64; 2]> = vec![];
        for _ in 0..nint {
            // not enumerated by into_values: wide around zero, or singletons
            match rng.below(3) {
                0 => { let a = -rng.range(200, 1 << 40); let sh = rng.below(8); let b = rng.range(200, i64::MAX >> sh); ivs.push([a, b]); }
                1 => ivs.push([i64::MIN + rng.range(0, 3), rng.range(300, 100000)]),
                _ => { let e = rng.range(53, 62); let v = (1i64 << e) + rng.range(-3, 3); ivs.push([-v - 7, v]); }
            }
        }
        let set = ivs.iter().fold(data_type::Integer::empty(), |s, [a, b]| s.union_interval(*a, *b));
        let got: Vec<[i64; 2]> = set.iter().map(|[a, b]| [*a, *b]).collect();
        let img = match catch_unwind(AssertUnwindSafe(|| DataType::from(set.clone()).into_data_type(&DataType::float()))) { Ok(Ok(DataType::Float(f))) => f, _ => { st.bump("image_failed"); continue; } };
        let out: Vec<[i64; 2]> = img.iter().map(|[a, b]| [f64_key(*a), f64_key(*b)]).collect();
        let pr = |l: &Vec<[i64; 2]>| coq_list(l, |[a, b]| format!("({},{})", coq_z(*a as i128), coq_z(*b as i128)));
        c_img.push(format!("({}, {})", pr(&got), pr(&out)));
        j_img.push(json!({"integer_set": got, "float_image_keys": out}));
        st.case(&format!("img{:?}", got), true);
    }
    // ---- correspondence: Integer -> Boolean ----
    let mut c_i2b = vec![]; let mut j_i2b = vec![];
    let i2b = InjFrom(data_type::Integer::full()).into(data_type::Boolean::full()).unwrap();
    for i in [-2i64, -1, 0, 1, 2, 3, i64::MAX, i64::MIN, 255, 256] {
        let res = i2b.value(&value::Integer::from(i)).ok().map(|v| *v);
        c_i2b.push(format!("({}, {})", coq_z(i as i128), coq_opt(&res, |b| coq_bool(*b).to_string())));
        j_i2b.push(json!({"i": i, "result": res}));
    }

    // ---- oracle: the laws on the implementation, all modelled variants and liftings ----
    let m = if thorough { 60000 } else { 3000 };
    let tg = targets();
    for k in 0..m {
        let mut r = rng.fork();
        let ty = gen_ty(&mut r, 2);
        let a = to_dt(&ty);
        let (tn, b) = r.pick(&tg).clone();
        let vs: Vec<Value> = (0..4).map(|_| sample(&ty, &mut r)).collect();
        laws(&mut st, &a, &tn, &b, &vs, k);
    }
    // composite targets: a struct into a struct with fewer (wider) fields, a list into a wider list; values that
    // differ only in a field the target lacks
    for k in 0..(if thorough { 6000 } else { 400 }) {
        let mut r = rng.fork();
        let nf = r.range(2, 3) as usize;
        let fields: Vec<(String, Ty)> = (0..nf).map(|i| (format!("f{}", i), match r.below(3) { 0 => Ty::Int(vec![(r.range(-5, 0), r.range(1, 9))]), 1 => Ty::Float(vec![(0.0, (r.range(1, 9) as f64) / 2.0)]), _ => Ty::Bool(vec![false, true]) })).collect();
        let ty = Ty::Struct(fields.clone());
        let a = to_dt(&ty);
        let keep = r.range(1, nf as i64 - 1).max(1) as usize;
        let b = DataType::structured(fields.iter().take(keep).map(|(n, t)| (n.as_str(), to_dt(&widen(t, &mut r)))).collect::<Vec<_>>());
        // two values equal on the kept fields and different on a dropped one, plus two free samples
        let v1 = sample(&ty, &mut r);
        let v2 = { let mut tries = 0; loop { let w = sample(&ty, &mut r); tries += 1;
            let same_kept = match (&v1, &w) { (Value::Struct(x), Value::Struct(y)) => (0..keep).all(|i| x.field_from_index(i).1 == y.field_from_index(i).1), _ => false };
            if (same_kept && w != v1) || tries > 40 { break w; } } };
        let vs = vec![v1, v2, sample(&ty, &mut r), sample(&ty, &mut r)];
        st.bump("struct_to_narrower_struct_cases");
        laws(&mut st, &a, "struct with fewer fields", &b, &vs, k + 10);
    }
    // temporal sources: dates, times, datetimes with sub-second parts, durations; pairs that differ in the last unit
    {
        use chrono::{NaiveDate, NaiveTime, Duration};
        let text = DataType::text();
        for k in 0..(if thorough { 4000 } else { 300 }) {
            let mut r = rng.fork();
            let d = NaiveDate::from_ymd_opt(1990 + r.range(0, 40) as i32, r.range(1, 12) as u32, r.range(1, 28) as u32).unwrap();
            let ms = *r.pick(&[0u32, 1, 250, 999]);
            let t = NaiveTime::from_hms_milli_opt(r.range(0, 23) as u32, r.range(0, 59) as u32, r.range(0, 59) as u32, ms).unwrap();
            let t2 = t + Duration::milliseconds(*r.pick(&[1i64, 250, 1000]));
            let (a, vs): (DataType, Vec<Value>) = match r.below(4) {
                0 => { let x = d.and_time(t); let y = d.and_time(t2); (DataType::date_time_values([x, y]), vec![Value::date_time(x), Value::date_time(y)]) }
                // (one day apart; one case in two: the first and last days of a year, and the same day of the next year)
                1 => { let d = if r.chance(1, 2) { NaiveDate::from_ymd_opt(1990 + r.range(0, 40) as i32, *r.pick(&[1u32, 12]), 1).unwrap() + Duration::days(*r.pick(&[0i64, 1, 2, 28, 29, 30])) } else { d };
                       let y = d + Duration::days(1); let z = NaiveDate::from_ymd_opt(chrono::Datelike::year(&d) + 1, chrono::Datelike::month(&d), chrono::Datelike::day(&d).min(28)).unwrap();
                       (DataType::date_values([d, y, z]), vec![Value::date(d), Value::date(y), Value::date(z)]) }
                2 => (DataType::time_values([t, t2]), vec![Value::time(t), Value::time(t2)]),
                _ => { let x = Duration::milliseconds(r.range(0, 5000)); let y = x + Duration::milliseconds(*r.pick(&[1i64, 1000])); (DataType::duration_values([x, y]), vec![Value::duration(x), Value::duration(y)]) }
            };
            st.bump("temporal_cases");
            laws(&mut st, &a, "text", &text, &vs, k + 10);
            // the text of a date reads back as that date (ISO calendar date)
            if let Ok(inj) = a.inject_into(&text) { for v in vs.iter() { if let (Value::Date(d0), Ok(Value::Text(t))) = (v, inj.value(v)) {
                st.bump("date_texts_read_back");
                if NaiveDate::parse_from_str(t.as_str(), "%Y-%m-%d").ok() != Some(**d0) { st.violation(json!({"kind":"converted-text-does-not-read-back","class":"date","source_type":a.to_string(),"value":v.to_string(),"converted":t.to_string()})); }
            } } }
        }
    }
    // ---- floats that agree on their first digits, at large and small magnitudes, into every target: a conversion through a
    // rounded text (or a narrower number) would merge them
    {
        let tg = targets();
        for k in 0..(if thorough { 3000 } else { 200 }) {
            let mut r = rng.fork();
            let mag = *r.pick(&[1e4, 12345.61, 98765.4321, 1.5e9, 3.3e15, 1e-4, 1.2345678e-5, 7.77e-9, 4.2e-300, 1.0, 250.5, 9999.99]);
            let x = mag * (1.0 + (r.range(0, 1000) as f64) * 1e-4);
            let ys = [x, x * (1.0 + 1e-7), f64::from_bits(x.to_bits() + 1), -x, -(x * (1.0 + 1e-9))];
            let (lo, hi) = (ys.iter().cloned().fold(f64::INFINITY, f64::min), ys.iter().cloned().fold(f64::NEG_INFINITY, f64::max));
            let a = if r.chance(1, 2) { DataType::float_interval(lo, hi) } else { DataType::float_values(ys.to_vec()) };
            let vs: Vec<Value> = ys.iter().map(|y| Value::float(*y)).collect();
            let (tn, b) = r.pick(&tg).clone();
            st.bump("close_float_cases");
            laws(&mut st, &a, &tn, &b, &vs, k + 10);
        }
    }
    // pinned witness of the known finding C12-int-float-above-2p53 (replayed on every run)
    {
        let a = *i2f.value(&value::Integer::from(9007199254740992)).unwrap();
        let b = *i2f.value(&value::Integer::from(9007199254740993)).unwrap();
        st.known.push(json!({"finding": "C12-int-float-above-2p53", "reproduced": a == b, "a": 9007199254740992i64, "b": 9007199254740993i64, "converted": a}));
    }
    // ---- correspondence: the List and Optional liftings of Float -> Integer on the real injections ----
    let mut c_ll: Vec<String> = vec![]; let mut c_ol: Vec<String> = vec![];
    {
        let ll = DataType::list(DataType::float(), 0, 8).inject_into(&DataType::list(DataType::integer(), 0, 8));
        let ol = DataType::optional(DataType::float()).inject_into(&DataType::optional(DataType::integer()));
        let gen = |r: &mut Rng| -> f64 { match r.below(6) { 0 => (r.range(-40, 40) as f64) / 4.0, 1 => r.range(-1000, 1000) as f64, 2 => *r.pick(&[9223372036854775808.0, -9223372036854775808.0, 4503599627370495.5, 0.0, -0.0, 1e19, 0.5]), 3 => (r.next() as i64) as f64, _ => r.range(-5, 5) as f64 } };
        for _ in 0..(if thorough { 6000 } else { 600 }) {
            let mut r = rng.fork();
            let xs: Vec<f64> = (0..r.range(0, 5)).map(|_| gen(&mut r)).collect();
            if let Ok(inj) = &ll {
                let res = catch_unwind(AssertUnwindSafe(|| inj.value(&Value::list(xs.iter().map(|x| Value::float(*x)).collect::<Vec<_>>())).ok()));
                if let Ok(res) = res {
                    let out: Option<Vec<i64>> = res.and_then(|v| if let Value::List(l) = v { l.iter().map(|e| if let Value::Integer(i) = e { Some(**i) } else { None }).collect() } else { None });
                    c_ll.push(format!("({}, {})", coq_list(&xs, |x| coq_z(x.to_bits() as i128)), coq_opt(&out, |l| coq_list(l, |i| coq_z(*i as i128)))));
                    st.bump(if out.is_some() { "list_lift_accepted" } else { "list_lift_refused" });
                }
            }
            let x: Option<f64> = if r.chance(1, 4) { None } else { Some(gen(&mut r)) };
            if let Ok(inj) = &ol {
                let arg = match x { Some(v) => Value::some(Value::float(v)), None => Value::none() };
                if let Ok(res) = catch_unwind(AssertUnwindSafe(|| inj.value(&arg).ok())) {
                    let out: Option<Option<i64>> = res.and_then(|v| if let Value::Optional(o) = v { match o.as_deref() { None => Some(None), Some(Value::Integer(i)) => Some(Some(**i)), _ => None } } else { None });
                    c_ol.push(format!("({}, {})", coq_opt(&x, |v| coq_z(v.to_bits() as i128)), coq_opt(&out, |o| coq_opt(o, |i| coq_z(*i as i128)))));
                }
            }
        }
    }
    let header = "From QV Require Import Corr.Lib Corr.C12.";
    let f5 = write_shards(outdir, "c12_list_lift", header, "list Z * option (list Z)", "list_lift_check", &c_ll, 400);
    let f6 = write_shards(outdir, "c12_opt_lift", header, "option Z * option (option Z)", "opt_lift_check", &c_ol, 400);
    let f1 = write_shards(outdir, "c12_i2f", header, "Z * Z", "i2f_check", &c_i2f, if thorough { 2500 } else { 400 });
    let f2 = write_shards(outdir, "c12_f2i", header, "Z * option Z", "f2i_check", &c_f2i, if thorough { 2500 } else { 400 });
    let f3 = write_shards(outdir, "c12_img", header, "list (Z * Z) * list (Z * Z)", "image_check", &c_img, 500);
    let f4 = write_shards(outdir, "c12_i2b", header, "Z * option bool", "i2b_check", &c_i2b, 100);
    for (n, j) in [("c12_i2f", &j_i2f), ("c12_f2i", &j_f2i), ("c12_img", &j_img), ("c12_i2b", &j_i2b)] {
        std::fs::write(format!("{}/{}.json", outdir, n), serde_json::to_string(j).unwrap()).unwrap();
    }
    let mut out = st.to_json("numeric conversions on extreme and tie-breaking inputs (non-trivial: |i| > 2^53, non-integral or huge floats); interval-set images; laws: random types over boolean/integer/float/text/optional/struct/list (depth <= 2) x 8 targets x 4 sampled values (distinct by (type, target, values))");
    out["shards"] = json!({"c12_i2f": f1, "c12_f2i": f2, "c12_img": f3, "c12_i2b": f4, "c12_list_lift": f5, "c12_opt_lift": f6});
    out
}
