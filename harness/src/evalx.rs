//! C07: relational expressions over integer columns, rendered twice from one tree — as SQL (a chain of
//! CTEs, compiled by qrlew and executed on SQLite) and as a term of QV/Rel/Eval.v with the data inlined.
//! Coq evaluates the term with the row-level evaluator of the model and compares it with the rows SQLite
//! returned and with the size interval qrlew declares (QV/Corr/Eval.v).
use crate::common::*;
use crate::sqlite::*;
use crate::world::*;
use qrlew::relation::Variant as _;
use serde_json::json;
use std::panic::{catch_unwind, AssertUnwindSafe};

/// integer columns of the world's tables: (table, declared size, [(column, index in the table, unique)])
const TABLES: [(&str, i64, &[(&str, usize, bool)]); 4] = [
    ("users", 30, &[("id", 0, true), ("age", 1, false)]),
    ("orders", 60, &[("id", 0, true), ("user_id", 1, false)]),
    ("items", 90, &[("order_id", 0, false), ("qty", 2, false)]),
    ("cities", 5, &[("pop", 1, false)]),
];

#[derive(Clone)]
enum Node {
    Leaf { table: usize, cols: Vec<usize> },
    Filter { input: Box<Node>, pred: Pred },
    Project { input: Box<Node>, cols: Vec<usize> },
    Join { kind: u8, left: Box<Node>, right: Box<Node>, li: usize, rj: usize, extra: Option<(usize, u8, i64)> },
    Set { op: u8, all: bool, left: Box<Node>, right: Box<Node> },
    Group { input: Box<Node>, key: usize },
    Count { input: Box<Node> },
    Limit { input: Box<Node>, limit: i64, offset: Option<i64> },
}
#[derive(Clone)]
enum Pred { Cmp(usize, u8, Arg), And(Box<Pred>, Box<Pred>), Or(Box<Pred>, Box<Pred>) }
#[derive(Clone)]
enum Arg { Const(i64), Col(usize) }

const OPS: [&str; 6] = [">", ">=", "<", "<=", "=", "<>"];
const KINDS: [(&str, &str); 5] = [("JOIN", "JInner"), ("LEFT JOIN", "JLeft"), ("RIGHT JOIN", "JRight"), ("FULL JOIN", "JFull"), ("CROSS JOIN", "JCross")];
const SETS: [(&str, &str); 3] = [("UNION", "SUnion"), ("EXCEPT", "SExcept"), ("INTERSECT", "SIntersect")];

impl Node {
    fn arity(&self) -> usize {
        match self {
            Node::Leaf { cols, .. } | Node::Project { cols, .. } => cols.len(),
            Node::Filter { input, .. } | Node::Limit { input, .. } => input.arity(),
            Node::Join { left, right, .. } => left.arity() + right.arity(),
            Node::Set { left, .. } => left.arity(),
            Node::Group { .. } => 2,
            Node::Count { .. } => 1,
        }
    }
    /// the unique flag of each output column, by the rules of Map / Join / Set / Reduce schemas (the model computes them: uflags)
    #[allow(dead_code)]
    fn unique(&self) -> Vec<bool> {
        match self {
            Node::Leaf { table, cols } => cols.iter().map(|c| TABLES[*table].2[*c].2).collect(),
            Node::Filter { input, .. } | Node::Limit { input, .. } => input.unique(),
            Node::Project { input, cols } => { let u = input.unique(); cols.iter().map(|c| u[*c]).collect() }
            Node::Join { kind, left, right, li, rj, .. } => {
                let (lu, ru) = (left.unique(), right.unique());
                let (ul, ur) = if *kind == 4 { (false, false) } else { (lu[*li], ru[*rj]) };
                lu.iter().map(|x| ur && *x).chain(ru.iter().map(|x| ul && *x)).collect()
            }
            Node::Set { left, .. } => vec![false; left.arity()],
            Node::Group { .. } => vec![true, false],
            Node::Count { .. } => vec![false],
        }
    }
    fn has_limit(&self) -> bool {
        match self {
            Node::Limit { .. } => true,
            Node::Leaf { .. } => false,
            Node::Filter { input, .. } | Node::Project { input, .. } | Node::Group { input, .. } => input.has_limit(),
            // the count of a window is determined even when its rows are not
            Node::Count { input } => match &**input { Node::Limit { input, .. } => input.has_limit(), x => x.has_limit() },
            Node::Join { left, right, .. } | Node::Set { left, right, .. } => left.has_limit() || right.has_limit(),
        }
    }
}

fn gen_pred(r: &mut Rng, arity: usize, depth: u32) -> Pred {
    if depth > 0 && r.chance(1, 3) {
        let (a, b) = (Box::new(gen_pred(r, arity, depth - 1)), Box::new(gen_pred(r, arity, depth - 1)));
        return if r.chance(1, 2) { Pred::And(a, b) } else { Pred::Or(a, b) };
    }
    let c = r.below(arity as u64) as usize;
    let arg = if arity > 1 && r.chance(1, 4) { Arg::Col(r.below(arity as u64) as usize) } else { Arg::Const(*r.pick(&[0, 1, 2, 5, 10, 18, 20, 30, 50, 90, 200])) };
    Pred::Cmp(c, r.below(6) as u8, arg)
}

fn gen_node(r: &mut Rng, depth: u32) -> Node {
    if depth == 0 || r.chance(1, 5) {
        let table = r.below(4) as usize;
        let n = TABLES[table].2.len();
        let mut cols: Vec<usize> = (0..n).filter(|_| r.chance(2, 3)).collect();
        if cols.is_empty() { cols.push(r.below(n as u64) as usize); }
        if r.chance(1, 4) { cols.reverse(); }
        return Node::Leaf { table, cols };
    }
    match r.below(10) {
        0 | 1 => { let input = gen_node(r, depth - 1); let pred = gen_pred(r, input.arity(), 1); Node::Filter { input: Box::new(input), pred } }
        2 => { let input = gen_node(r, depth - 1); let a = input.arity(); let mut cols: Vec<usize> = (0..a).filter(|_| r.chance(1, 2)).collect(); if cols.is_empty() { cols.push(0); } Node::Project { input: Box::new(input), cols } }
        3 | 4 | 5 => {
            let (left, right) = (gen_node(r, depth - 1), gen_node(r, depth - 1));
            let (li, rj) = (r.below(left.arity() as u64) as usize, r.below(right.arity() as u64) as usize);
            // (an equality with a constant on a unique column also sets the unique flag in Join::size / Join::schema, soundly; the
            // fragment of the model reads the flags off the key columns only, so the further condition is an inequality)
            let extra = if r.chance(1, 4) { Some((r.below(left.arity() as u64) as usize, *r.pick(&[0u8, 1, 2, 3, 5]), r.range(0, 40))) } else { None };
            let kind = if r.chance(1, 12) { 4 } else { r.below(4) as u8 };
            Node::Join { kind, left: Box::new(left), right: Box::new(right), li, rj, extra: if kind == 4 { None } else { extra } }
        }
        6 | 7 => {
            let (l, rr) = (gen_node(r, depth - 1), gen_node(r, depth - 1));
            let (lc, rc) = (r.below(l.arity() as u64) as usize, r.below(rr.arity() as u64) as usize);
            let left = Node::Project { input: Box::new(l), cols: vec![lc] };
            let right = Node::Project { input: Box::new(rr), cols: vec![rc] };
            let op = r.below(3) as u8;
            // SQLite has no EXCEPT ALL / INTERSECT ALL
            Node::Set { op, all: op == 0 && r.chance(1, 2), left: Box::new(left), right: Box::new(right) }
        }
        8 => { let input = gen_node(r, depth - 1); let key = r.below(input.arity() as u64) as usize; Node::Group { input: Box::new(input), key } }
        _ => { let input = gen_node(r, depth - 1); Node::Count { input: Box::new(input) } }
    }
}

struct Out { ctes: Vec<String>, next: usize }

fn sql_pred(p: &Pred) -> String {
    match p {
        Pred::Cmp(c, op, Arg::Const(k)) => format!("s.c{} {} {}", c, OPS[*op as usize], k),
        Pred::Cmp(c, op, Arg::Col(d)) => format!("s.c{} {} s.c{}", c, OPS[*op as usize], d),
        Pred::And(a, b) => format!("({} AND {})", sql_pred(a), sql_pred(b)),
        Pred::Or(a, b) => format!("({} OR {})", sql_pred(a), sql_pred(b)),
    }
}
fn coq_pred(p: &Pred) -> String {
    match p {
        Pred::Cmp(c, op, Arg::Const(k)) => format!("cmp {}%nat (col {} r) (Some {})", op, c, coq_z(*k as i128)),
        Pred::Cmp(c, op, Arg::Col(d)) => format!("cmp {}%nat (col {} r) (col {} r)", op, c, d),
        Pred::And(a, b) => format!("({} && {})", coq_pred(a), coq_pred(b)),
        Pred::Or(a, b) => format!("({} || {})", coq_pred(a), coq_pred(b)),
    }
}
fn star(n: usize) -> String { (0..n).map(|i| format!("s.c{} AS c{}", i, i)).collect::<Vec<_>>().join(", ") }

/// SQL: one CTE per node; returns the CTE's name
fn sql(n: &Node, out: &mut Out) -> String {
    let body = match n {
        Node::Leaf { table, cols } => { let t = TABLES[*table];
            format!("SELECT {} FROM {} AS t", cols.iter().enumerate().map(|(i, c)| format!("t.{} AS c{}", t.2[*c].0, i)).collect::<Vec<_>>().join(", "), t.0) }
        Node::Filter { input, pred } => { let i = sql(input, out); format!("SELECT {} FROM {} AS s WHERE {}", star(input.arity()), i, sql_pred(pred)) }
        Node::Project { input, cols } => { let i = sql(input, out); format!("SELECT {} FROM {} AS s", cols.iter().enumerate().map(|(k, c)| format!("s.c{} AS c{}", c, k)).collect::<Vec<_>>().join(", "), i) }
        Node::Join { kind, left, right, li, rj, extra } => {
            let (l, r) = (sql(left, out), sql(right, out));
            let la = left.arity();
            let mut items_v: Vec<String> = (0..la).map(|i| format!("l.c{} AS c{}", i, i)).collect();
            items_v.extend((0..right.arity()).map(|j| format!("r.c{} AS c{}", j, la + j)));
            let items = items_v.join(", ");
            let on = if *kind == 4 { String::new() } else { format!(" ON l.c{} = r.c{}{}", li, rj, extra.map(|(c, op, k)| format!(" AND l.c{} {} {}", c, OPS[op as usize], k)).unwrap_or_default()) };
            format!("SELECT {} FROM {} AS l {} {} AS r{}", items, l, KINDS[*kind as usize].0, r, on)
        }
        Node::Set { op, all, left, right } => { let (l, r) = (sql(left, out), sql(right, out));
            format!("SELECT x.c0 AS c0 FROM {} AS x {}{} SELECT y.c0 AS c0 FROM {} AS y", l, SETS[*op as usize].0, if *all { " ALL" } else { "" }, r) }
        Node::Group { input, key } => { let i = sql(input, out); format!("SELECT s.c{} AS c0, COUNT(*) AS c1 FROM {} AS s GROUP BY s.c{}", key, i, key) }
        Node::Count { input } => { let i = sql(input, out); format!("SELECT COUNT(*) AS c0 FROM {} AS s", i) }
        Node::Limit { input, limit, offset } => { let i = sql(input, out);
            format!("SELECT {} FROM {} AS s ORDER BY s.c0 LIMIT {}{}", star(input.arity()), i, limit, offset.map(|o| format!(" OFFSET {}", o)).unwrap_or_default()) }
    };
    let name = format!("n{}", out.next); out.next += 1;
    out.ctes.push(format!("{} AS ({})", name, body));
    name
}

fn coq_row(row: &[SV]) -> String { coq_list(row, |v| match v { SV::Int(i) => format!("Some {}", coq_z(*i as i128)), _ => "None".to_string() }) }

/// the same tree as a term of QV/Rel/Cols.v
fn coq(n: &Node, data: &Data) -> String {
    let all = |k: usize| (0..k).map(|i| format!("{}%nat", i)).collect::<Vec<_>>().join("; ");
    match n {
        Node::Leaf { table, cols } => { let t = TABLES[*table];
            let rows: Vec<String> = data[t.0].iter().map(|row| coq_row(&t.2.iter().map(|c| row[c.1].clone()).collect::<Vec<_>>())).collect();
            format!("(QSel (fun _ => true) [{}] None None (QTable (0, {}) [{}] [{}]))", cols.iter().map(|c| format!("{}%nat", c)).collect::<Vec<_>>().join("; "), t.1,
                t.2.iter().map(|c| coq_bool(c.2)).collect::<Vec<_>>().join("; "), rows.join("; ")) }
        Node::Filter { input, pred } => format!("(QSel (fun r => {}) [{}] None None {})", coq_pred(pred), all(input.arity()), coq(input, data)),
        Node::Project { input, cols } => format!("(QSel (fun _ => true) [{}] None None {})", cols.iter().map(|c| format!("{}%nat", c)).collect::<Vec<_>>().join("; "), coq(input, data)),
        Node::Join { kind, left, right, li, rj, extra } => {
            let on = extra.map(|(c, op, k)| format!("cmp {}%nat (col {} l) (Some {})", op, c, coq_z(k as i128))).unwrap_or("true".to_string());
            format!("(QJoin {} {}%nat {}%nat (fun l r => {}) {} {})", KINDS[*kind as usize].1, li, rj, on, coq(left, data), coq(right, data))
        }
        Node::Set { op, all, left, right } => format!("(QSet {} {} {} {})", SETS[*op as usize].1, coq_bool(*all), coq(left, data), coq(right, data)),
        Node::Group { input, key } => format!("(QGroup {}%nat {})", key, coq(input, data)),
        Node::Count { input } => format!("(QCount {})", coq(input, data)),
        Node::Limit { input, limit, offset } => format!("(QSel (fun _ => true) [{}] (Some {}) {} {})", all(input.arity()), coq_z(*limit as i128), coq_opt(&offset.map(|o| o as i128), |o| coq_z(*o)), coq(input, data)),
    }
}

pub fn run(st: &mut Stats, rng: &mut Rng, thorough: bool) -> Vec<String> {
    let w = world();
    let n = if thorough { 6000 } else { 400 };
    let mut cases = vec![];
    let mut data = gen_data(&mut rng.fork(), &w.specs, 8);
    let mut db = Db::new(&w.specs, &data);
    for i in 0..n {
        let mut r = rng.fork();
        if i % 8 == 7 { data = gen_data(&mut r, &w.specs, 8); db = Db::new(&w.specs, &data); }
        let depth = r.range(1, 3) as u32;
        let mut node = gen_node(&mut r, depth);
        // a window at the root, or under a final COUNT
        match r.below(8) {
            0 => { node = Node::Limit { input: Box::new(node), limit: r.range(0, 6), offset: if r.chance(1, 2) { Some(*r.pick(&[0, 1, 3, 40, 2000])) } else { None } }; }
            1 => { node = Node::Count { input: Box::new(Node::Limit { input: Box::new(node), limit: r.range(0, 6), offset: if r.chance(1, 2) { Some(*r.pick(&[0, 1, 3, 40, 2000])) } else { None } }) }; }
            _ => {}
        }
        let mut out = Out { ctes: vec![], next: 0 };
        let root = sql(&node, &mut out);
        let text = format!("WITH {} SELECT {} FROM {} AS s", out.ctes.join(", "), star(node.arity()), root);
        let rel = match catch_unwind(AssertUnwindSafe(|| to_relation(&w, &text))) { Ok(Ok(rel)) => rel, Ok(Err(_)) => { st.bump("evaluator_query_rejected"); continue; } Err(_) => { st.bump("evaluator_query_panicked"); continue; } };
        let size = rel.size();
        let (Some(lo), Some(hi)) = (size.min(), size.max()) else { st.bump("evaluator_query_unbounded"); continue };
        let rows = match db.query(&text) { Ok((_, rows)) => rows, Err(_) => { st.bump("evaluator_query_not_executable_on_sqlite"); continue; } };
        if rows.len() > 3000 { st.bump("evaluator_result_too_large"); continue; }
        st.bump("evaluator_cases");
        st.bump(&format!("evaluator_root_{}", match &node { Node::Leaf { .. } => "leaf", Node::Filter { .. } => "filter", Node::Project { .. } => "project", Node::Join { .. } => "join", Node::Set { .. } => "set", Node::Group { .. } => "group", Node::Count { .. } => "count", Node::Limit { .. } => "limit" }));
        let exact = !node.has_limit();
        let uflags: Vec<bool> = rel.schema().iter().map(|f| f.has_unique_or_primary_key_constraint()).collect();
        if uflags.iter().any(|x| *x) { st.bump("evaluator_cases_with_unique_output_column"); }
        cases.push(format!("({}, [{}], ({}, {}), {}, {})", coq(&node, &data), rows.iter().map(|x| coq_row(x)).collect::<Vec<_>>().join("; "), coq_z(*lo as i128), coq_z(*hi as i128), coq_bool(exact), coq_list(&uflags, |b| coq_bool(*b).to_string())));
        if i < 1 { st.sample(json!({"stream":"evaluator","query":text,"rows":rows.len(),"declared_size":size.to_string()})); }
    }
    cases
}
