//! C13 / C02: rule tables regenerated from the implementation, correspondence cases for
//! QV/Rules, and the direct oracles (exhaustive enumeration of rule assignments, lineage).
use crate::common::*;
use crate::world::*;
use qrlew::{
    builder::Ready as _,
    differential_privacy::DpParameters,
    privacy_unit_tracking::Strategy,
    relation::{Relation, Variant as _},
    rewriting::{
        rewriting_rule::{Property, RewritingRule, RewritingRulesEliminator, RewritingRulesSelector, RewritingRulesSetter, Rewriter, Score},
        RelationWithRewritingRule, RelationWithRewritingRules,
    },
    visitor::Acceptor as _,
    expr::{Expr, function::Function},
};
use serde_json::json;
use std::collections::BTreeSet;
use std::panic::{catch_unwind, AssertUnwindSafe};

pub fn label(p: &Property) -> &'static str {
    match p { Property::Private => "Private", Property::SyntheticData => "SD", Property::PrivacyUnitPreserving => "PUP",
        Property::DifferentiallyPrivate => "DP", Property::Published => "Published", Property::Public => "Public" }
}
fn rule_coq(r: &RewritingRule) -> String {
    format!("R {} {}", coq_list(r.inputs(), |p| label(p).to_string()), label(r.output()))
}
fn kind_of(w: &World, rel: &Relation) -> String {
    match rel {
        Relation::Table(t) => { let prot = w.specs.iter().any(|s| s.protected && s.name == t.name()); format!("(KTable {})", coq_bool(prot)) }
        Relation::Map(_) => "KMap".into(), Relation::Reduce(_) => "KReduce".into(), Relation::Join(_) => "KJoin".into(),
        Relation::Set(_) => "KSet".into(), Relation::Values(_) => "KValues".into(),
    }
}
fn tree_coq(w: &World, n: &RelationWithRewritingRules) -> String {
    format!("(Node {} {} {})", kind_of(w, n.relation()), coq_list(n.attributes(), rule_coq),
        coq_list(n.inputs(), |c| tree_coq(w, c)))
}
fn tree_json(w: &World, n: &RelationWithRewritingRules) -> serde_json::Value {
    json!({"kind": kind_of(w, n.relation()), "name": n.relation().name(), "rules": n.attributes().iter().map(|r| r.to_string()).collect::<Vec<_>>(),
           "children": n.inputs().iter().map(|c| tree_json(w, c)).collect::<Vec<_>>()})
}
fn deriv_coq(n: &RelationWithRewritingRule) -> String {
    format!("(D ({}) {})", rule_coq(n.attributes()), coq_list(n.inputs(), |c| deriv_coq(c)))
}
fn count_nodes(n: &RelationWithRewritingRules) -> usize { 1 + n.inputs().iter().map(|c| count_nodes(c)).sum::<usize>() }

fn has_noise(e: &Expr) -> bool {
    // the Gaussian noise added by the DP rewriting is built from Random via Box–Muller (ln, cos)
    match e {
        Expr::Function(f) => (matches!(f.function(), Function::Random(_))) || f.arguments().iter().any(|a| has_noise(a)),
        Expr::Aggregate(a) => has_noise(a.argument()),
        Expr::Struct(_) => false,
        _ => false,
    }
}

/// signature of a rewritten relation, modulo generated names
fn signature(rel: &Relation) -> String {
    fn go(rel: &Relation, out: &mut Vec<String>) {
        match rel {
            Relation::Table(t) => out.push(format!("T:{}", t.path())),
            Relation::Map(m) => out.push(format!("M{}{}", m.schema().len(), if m.projection().iter().any(has_noise) { "~" } else { "" })),
            Relation::Reduce(r) => out.push(format!("R{}g{}", r.aggregate().len(), r.group_by().len())),
            Relation::Join(j) => out.push(format!("J:{}", j.operator().to_string().split(' ').next().unwrap_or(""))),
            Relation::Set(_) => out.push("S".into()),
            Relation::Values(_) => out.push("V".into()),
        }
        for i in rel.inputs() { go(i, out); }
    }
    let mut v = vec![]; go(rel, &mut v); v.sort(); v.join(",")
}

/// Independent reading of "un-noised path": does this node's value depend on raw protected rows
/// with no DP aggregation in between?  (computed on the real derivation object)
fn raw(w: &World, n: &RelationWithRewritingRule) -> bool {
    match n.relation() {
        Relation::Table(t) => w.specs.iter().any(|s| s.protected && s.name == t.name()) && *n.attributes().output() != Property::SyntheticData,
        Relation::Values(_) => false,
        Relation::Reduce(_) if *n.attributes().output() == Property::DifferentiallyPrivate
            && n.attributes().inputs() == [Property::PrivacyUnitPreserving] => false,
        _ => n.inputs().iter().any(|c| raw(w, c)),
    }
}

fn ir_reads_protected(w: &World, rel: &Relation) -> bool {
    (if let Relation::Table(t) = rel { w.specs.iter().any(|s| s.protected && t.path().to_string() == s.path) } else { false })
        || rel.inputs().into_iter().any(|i| ir_reads_protected(w, i))
}

/// exhaustive, independent enumeration of the consistent rule assignments of a tree:
/// (derivation in Coq syntax, root label, score)
fn enumerate(n: &RelationWithRewritingRules) -> Vec<(String, Property, i64)> {
    let kids: Vec<Vec<(String, Property, i64)>> = n.inputs().iter().map(|c| enumerate(c)).collect();
    let mut combos: Vec<Vec<(String, Property, i64)>> = vec![vec![]];
    for k in &kids { let mut next = vec![]; for c in &combos { for x in k { let mut c2 = c.clone(); c2.push(x.clone()); next.push(c2); } } combos = next; }
    let w = |p: &Property| match p { Property::SyntheticData => 1, Property::PrivacyUnitPreserving => 2, Property::DifferentiallyPrivate => 5, Property::Published => 1, Property::Public => 10, _ => 0 };
    let mut out = vec![];
    for c in &combos {
        for r in n.attributes() {
            if r.inputs().len() == c.len() && r.inputs().iter().zip(c.iter()).all(|(i, x)| *i == x.1) {
                out.push((format!("(D ({}) {})", rule_coq(r), coq_list(c, |x| x.0.clone())), *r.output(), w(r.output()) + c.iter().map(|x| x.2).sum::<i64>()));
            }
        }
    }
    out
}
fn well_typed(d: &RelationWithRewritingRule) -> bool {
    d.attributes().inputs().len() == d.inputs().len()
        && d.attributes().inputs().iter().zip(d.inputs().iter()).all(|(i, c)| i == c.attributes().output())
        && d.inputs().iter().all(|c| well_typed(c))
}

pub fn dp_params() -> DpParameters { DpParameters::from_epsilon_delta(1.0, 1e-4) }

fn setter<'a>(w: &'a World, syn: bool, hard: bool) -> RewritingRulesSetter<'a> {
    RewritingRulesSetter::new(&w.relations, if syn { Some(w.synthetic.clone()) } else { None }, w.privacy_unit.clone(), dp_params(),
        if hard { Strategy::Hard } else { Strategy::Soft })
}

const PROBES: &[&str] = &[
    "SELECT t.age AS a FROM users AS t WHERE t.age > 3",
    "SELECT SUM(t.age) AS a FROM users AS t",
    "SELECT MAX(t.age) AS a FROM users AS t",
    "SELECT t.city AS c, COUNT(*) AS n FROM users AS t GROUP BY t.city",
    "SELECT t.pop AS a FROM cities AS t",
    "SELECT u.age AS a, o.amount AS b FROM users AS u JOIN orders AS o ON u.id = o.user_id",
    "SELECT u.age AS a, c.pop AS b FROM users AS u JOIN cities AS c ON u.city = c.city",
    "SELECT t.age AS a FROM users AS t UNION SELECT o.user_id AS a FROM orders AS o",
    "SELECT SUM(x.a) AS s FROM (SELECT t.age AS a FROM users AS t) AS x",
];

/// QV/Generated/RuleTable.v — what RewritingRulesSetter attaches, per configuration and node kind
pub fn generate(dir: &str) -> Result<(), String> {
    let w = world();
    let mut entries: BTreeSet<String> = BTreeSet::new();
    for syn in [false, true] { for hard in [false, true] {
        let mut rels: Vec<Relation> = vec![];
        for q in PROBES { rels.push(to_relation(&w, q)?); }
        rels.push(Relation::values().name("vals").values([1.0, 2.0, 3.0]).build());
        for rel in rels.iter() {
            let rr = rel.set_rewriting_rules(setter(&w, syn, hard));
            fn walk(w: &World, n: &RelationWithRewritingRules, syn: bool, hard: bool, out: &mut BTreeSet<String>) {
                out.insert(format!("({}, {}, {}, {})", coq_bool(syn), coq_bool(hard), kind_of(w, n.relation()), coq_list(n.attributes(), rule_coq)));
                for c in n.inputs() { walk(w, c, syn, hard, out); }
            }
            walk(&w, &rr, syn, hard, &mut entries);
        }
    }}
    let mut s = String::from("(* GENERATED by `qvh GEN-RULES` from RewritingRulesSetter of /repo on every run. Do not edit. *)\nFrom QV Require Import Rules.Model.\n\nDefinition rule_table : list (bool * bool * kind * list rule) := [\n");
    s += &entries.iter().cloned().collect::<Vec<_>>().join(";\n");
    s += "\n].\n";
    std::fs::create_dir_all(dir).map_err(|e| e.to_string())?;
    let path = format!("{}/RuleTable.v", dir);
    if std::fs::read_to_string(&path).ok().as_deref() != Some(&s) { std::fs::write(&path, s).map_err(|e| e.to_string())?; }
    Ok(())
}

pub fn run(prop: &str, outdir: &str, seed: u64, thorough: bool) -> serde_json::Value {
    let w = world();
    let mut rng = Rng::new(seed ^ 0xC13);
    let mut st = Stats::default();
    let n = if thorough { 6000 } else { 350 };
    let mut cases = vec![];
    let mut cj = vec![];
    let mut made = 0;
    let mut attempts = 0;
    while made < n && attempts < n * 20 {
        attempts += 1;
        let mut r = rng.fork();
        let depth = r.range(0, 3) as u32;
        // one query in eight uses the same sub-relation twice (a CTE joined or united with itself): the two occurrences
        // are equal as relations and may carry different rules in a derivation
        let shared = ["WITH agg AS (SELECT t.order_id AS oid, SUM(t.price) AS s FROM items AS t GROUP BY t.order_id) SELECT a.oid AS o, SUM(b.s) AS s FROM agg AS a JOIN agg AS b ON a.oid = b.oid GROUP BY a.oid",
            "WITH w AS (SELECT t.user_id AS u, AVG(t.amount) AS m FROM orders AS t GROUP BY t.user_id) SELECT a.u AS u, a.m AS m1, b.m AS m2 FROM w AS a JOIN w AS b ON a.u = b.u",
            "WITH w AS (SELECT t.id AS i, t.age AS a FROM users AS t WHERE t.age > 30) SELECT x.a AS a1, y.a AS a2 FROM w AS x JOIN w AS y ON x.i = y.i",
            "WITH w AS (SELECT t.city AS c, COUNT(*) AS n FROM users AS t GROUP BY t.city) SELECT x.c AS c, x.n + y.n AS n FROM w AS x JOIN w AS y ON x.c = y.c",
            "WITH w AS (SELECT t.age AS a FROM users AS t) SELECT x.a AS a FROM w AS x UNION SELECT y.a AS a FROM w AS y",
            // an aggregation released as it is on one side and aggregated again on the other: the two occurrences get different labels
            "WITH stats AS (SELECT t.user_id AS u, SUM(t.amount) AS total FROM orders AS t GROUP BY t.user_id) SELECT s.u AS u, s.total AS v FROM stats AS s UNION ALL SELECT 0 AS u, AVG(x.total) AS v FROM stats AS x",
            "WITH stats AS (SELECT t.user_id AS u, SUM(t.amount) AS total FROM orders AS t GROUP BY t.user_id) SELECT 0 AS u, AVG(x.total) AS v FROM stats AS x UNION ALL SELECT s.u AS u, s.total AS v FROM stats AS s",
            "WITH stats AS (SELECT t.city AS c, COUNT(t.id) AS n FROM users AS t GROUP BY t.city) SELECT s.c AS c, s.n AS v FROM stats AS s UNION ALL SELECT 'all' AS c, SUM(x.n) AS v FROM stats AS x"];
        // the first query of every run: a left-deep chain of six aggregated sub-queries and one that has no DP rule; its top join has
        // more than sixty consistent derivations and the all-synthetic one comes last
        let long_chain = attempts == 1;
        let chain_sql = { let subs: Vec<String> = (1..=6).map(|k| format!("s{} AS (SELECT t.user_id AS k, COUNT(*) AS n FROM orders AS t WHERE t.amount > {} GROUP BY t.user_id)", k, k)).collect();
            format!("WITH {}, mx AS (SELECT t.user_id AS k, MAX(t.amount) AS m FROM orders AS t GROUP BY t.user_id) SELECT s1.n AS n1, s6.n AS n6, mx.m AS m FROM s1 JOIN s2 ON s1.k = s2.k JOIN s3 ON s1.k = s3.k JOIN s4 ON s1.k = s4.k JOIN s5 ON s1.k = s5.k JOIN s6 ON s1.k = s6.k JOIN mx ON s1.k = mx.k", subs.join(", ")) };
        let (sql, _) = if long_chain { st.bump("long_join_chain_queries"); (chain_sql, vec![]) } else if r.chance(1, 8) { st.bump("shared_subrelation_queries"); (r.pick(&shared).to_string(), vec![]) } else { let mut g = QGen::new(&mut r, &w.specs); g.query(depth) };
        let rel = match catch_unwind(AssertUnwindSafe(|| to_relation(&w, &sql))) { Ok(Ok(rel)) => rel, Ok(Err(_)) => { st.bump("query_rejected"); continue; } Err(_) => { st.bump("query_panicked"); continue; } };
        let syn = long_chain || r.chance(1, 2);
        let dp_entry = long_chain || r.chance(2, 3);
        // rewrite_with_differential_privacy always sets its rules with Strategy::Hard
        let hard = if dp_entry { true } else { r.chance(1, 2) };
        let hard_eff = hard;
        let nodes = count_nodes(&rel.set_rewriting_rules(setter(&w, syn, hard)));
        if nodes > 14 && !long_chain { st.bump("tree_too_large_skipped"); continue; }
        {
            let rr_set = rel.set_rewriting_rules(setter(&w, syn, hard));
            let rr_elim = rr_set.map_rewriting_rules(RewritingRulesEliminator);
            if !long_chain && rr_elim.select_rewriting_rules(RewritingRulesSelector).len() > 400 { st.bump("too_many_derivations_skipped"); continue; }
        }
        let (rr_set, rr_elim, selected, scores, sigs) = analyse(&w, &rel, syn, hard, dp_entry, prop, &sql, &mut st);
        // the real entry point
        let entry = catch_unwind(AssertUnwindSafe(|| {
            if dp_entry { rel.rewrite_with_differential_privacy(&w.relations, if syn { Some(w.synthetic.clone()) } else { None }, w.privacy_unit.clone(), dp_params()) }
            else { rel.rewrite_as_privacy_unit_preserving(&w.relations, if syn { Some(w.synthetic.clone()) } else { None }, w.privacy_unit.clone(), dp_params(), Some(if hard { Strategy::Hard } else { Strategy::Soft })) }
        }));
        if prop == "C13" {
            let rr0 = rel.set_rewriting_rules(setter(&w, syn, hard));
            let all = enumerate(&rr0);
            let sel_set: BTreeSet<&String> = selected.iter().collect();
            let all_set: BTreeSet<&String> = all.iter().map(|x| &x.0).collect();
            {
                let rr_e = rr0.map_rewriting_rules(RewritingRulesEliminator);
                for d in rr_e.select_rewriting_rules(RewritingRulesSelector).iter() {
                    if !well_typed(d) { st.violation(json!({"kind":"ill-typed-derivation-enumerated","query":sql,"synthetic":syn,"strategy":if hard {"Hard"} else {"Soft"},"derivation":deriv_coq(d)})); break; }
                }
            }
            if let Some(missing) = all_set.difference(&sel_set).next() {
                st.violation(json!({"kind":"consistent-derivation-not-enumerated","query":sql,"synthetic":syn,"strategy":if hard {"Hard"} else {"Soft"},"derivation":missing}));
            }
            let accept = |p: &Property| if dp_entry { matches!(p, Property::Public | Property::Published | Property::DifferentiallyPrivate | Property::SyntheticData) } else { matches!(p, Property::Public | Property::PrivacyUnitPreserving) };
            let best = all.iter().filter(|x| accept(&x.1)).map(|x| x.2).max();
            match (&entry, best) {
                (Ok(Ok(rw)), Some(b)) => {
                    // the relation returned must be what some best-scoring consistent derivation rewrites to
                    let got = format!("{}|{}", signature(rw.relation()), rw.dp_event());
                    let best_derivs: BTreeSet<&String> = all.iter().filter(|x| accept(&x.1) && x.2 == b).map(|x| &x.0).collect();
                    let ok = sigs.iter().any(|(i, sg)| sg.as_deref() == Some(got.as_str()) && best_derivs.contains(&selected[*i]));
                    if !ok { st.violation(json!({"kind":"applied-derivation-not-a-best-consistent-one","query":sql,"synthetic":syn,"strategy":if hard {"Hard"} else {"Soft"},
                        "entry":if dp_entry {"rewrite_with_differential_privacy"} else {"rewrite_as_privacy_unit_preserving"},"best_score":b,"returned":got,"best_consistent_derivations":best_derivs})); }
                }
                (Ok(Ok(rw)), None) => st.violation(json!({"kind":"rewriting-returned-without-consistent-derivation","query":sql,"synthetic":syn,"returned":signature(rw.relation())})),
                (Ok(Err(_)), Some(b)) => st.violation(json!({"kind":"unreachable-reported-although-derivation-exists","query":sql,"synthetic":syn,"strategy":if hard {"Hard"} else {"Soft"},"best_score":b})),
                _ => {}
            }
        }
        let outcome = match &entry {
            Ok(Ok(rw)) => Some(Some(format!("{}|{}", signature(rw.relation()), rw.dp_event()))),
            Ok(Err(_)) => Some(None),
            Err(_) => None,
        };
        let sig_id = |s: &str| hash_str(s) % 1_000_000_007;
        let outcome_coq = match &outcome { None => "OPanic".to_string(), Some(None) => "OUnreachable".to_string(), Some(Some(s)) => format!("(OSig {}%N)", sig_id(s)) };
        let case = format!("({}, {}, {}, {}, {}, {}, {}, {}, {})", coq_bool(syn), coq_bool(hard_eff), coq_bool(dp_entry), rr_set, rr_elim,
            coq_list(&selected, |d| d.clone()), coq_list(&scores, |s| format!("({})%Z", s)),
            coq_list(&sigs, |(i, s)| format!("({}%N, {})", i, match s { Some(s) => format!("Some {}%N", sig_id(s)), None => "None".to_string() })),
            outcome_coq);
        cases.push(case);
        cj.push(json!({"query": sql, "synthetic": syn, "strategy": if hard_eff {"Hard"} else {"Soft"}, "entry": if dp_entry {"rewrite_with_differential_privacy"} else {"rewrite_as_privacy_unit_preserving"},
            "derivations": selected.len(), "outcome": outcome}));
        st.case(&format!("{}{}{}{}", sql, syn, hard_eff, dp_entry), nodes >= 3 && selected.len() >= 2);
        st.bump(&format!("outcome_{}", match &outcome { None => "panic", Some(None) => "unreachable", Some(Some(_)) => "rewritten" }));
        st.bump(&format!("nodes_{}", if nodes < 4 { "lt4" } else if nodes < 8 { "4to7" } else { "8to14" }));
        st.add("derivations_total", selected.len() as u64);
        if made < 3 { st.sample(json!({"query": sql, "synthetic": syn, "strategy": if hard_eff {"Hard"} else {"Soft"}, "nodes": nodes, "derivations": selected.len(), "outcome": outcome})); }
        made += 1;
    }
    // synthetic data declared for some of the protected tables only: whatever is accepted must not read the others raw
    if prop == "C02" {
        use qrlew::{hierarchy::Hierarchy, expr::Identifier, synthetic_data::SyntheticData};
        let queries = ["SELECT t.age AS a, t.city AS c FROM users AS t", "SELECT MAX(t.age) AS m FROM users AS t", "SELECT t.amount AS a FROM orders AS t WHERE t.amount > 10",
            "SELECT t.age AS a, o.amount AS b FROM users AS t JOIN orders AS o ON t.id = o.user_id", "SELECT t.age AS a FROM users AS t UNION SELECT o.user_id AS a FROM orders AS o",
            "SELECT i.price AS p, c.pop AS q FROM items AS i JOIN cities AS c ON i.order_id = c.pop", "SELECT t.city AS c, MAX(t.income) AS m FROM users AS t GROUP BY t.city", "SELECT SUM(o.amount) AS s FROM orders AS o"];
        let covers: [&[(&str, &str)]; 4] = [&[("orders_tab", "sd_orders")], &[("users_tab", "sd_users")], &[("cities_tab", "sd_cities")], &[("orders_tab", "sd_orders"), ("items_tab", "sd_items"), ("cities_tab", "sd_cities")]];
        let protected = |n: &str| w.specs.iter().any(|t| t.protected && (t.name == n || t.path == n));
        for cover in covers.iter() {
            let sd = SyntheticData::new(cover.iter().map(|(p, s)| (vec![p.to_string()], Identifier::from(*s))).collect::<Hierarchy<Identifier>>());
            for sql in queries.iter() {
                let Ok(Ok(rel)) = catch_unwind(AssertUnwindSafe(|| to_relation(&w, sql))) else { continue };
                st.evaluations += 1; st.distinct.insert(hash_str(&format!("{}{:?}", sql, cover)));
                match catch_unwind(AssertUnwindSafe(|| rel.rewrite_with_differential_privacy(&w.relations, Some(sd.clone()), w.privacy_unit.clone(), dp_params()))) {
                    Ok(Ok(rw)) => {
                        st.bump("partial_synthetic_data_accepted");
                        let out = rw.relation();
                        for (ci, f) in out.schema().iter().enumerate() {
                            if let Some(path) = crate::ir::unmechanised_lineage(out, ci, &protected, 0) {
                                st.violation(json!({"kind":"protected-column-reaches-the-result-without-a-mechanism","class":"partial-synthetic-data","query":sql,"synthetic_data_for":cover.iter().map(|x| x.0).collect::<Vec<_>>(),"column":f.name(),"lineage":path,"event":rw.dp_event().to_string()}));
                                break;
                            }
                        }
                    }
                    Ok(Err(_)) => st.bump("partial_synthetic_data_refused"),
                    Err(_) => st.bump("partial_synthetic_data_panicked"),
                }
            }
        }
    }
    let header = "From QV Require Import Rules.Model Corr.Lib Corr.Rules.";
    let stem = if prop == "C13" { "c13_search" } else { "c02_search" };
    let checker = if prop == "C13" { "search_check" } else { "safety_check" };
    let f = write_shards(outdir, stem, header, "rules_case", checker, &cases, if thorough { 150 } else { 40 });
    std::fs::write(format!("{}/{}.json", outdir, stem), serde_json::to_string(&cj).unwrap()).unwrap();
    let mut out = st.to_json("random queries of the supported fragment (depth <= 3: maps, reduces, joins, set operations, VALUES, nested sub-queries) x synthetic data on/off x strategy x entry point, at most 14 nodes and 400 derivations (non-trivial: >= 3 nodes and >= 2 consistent derivations; distinct by (query, configuration))");
    out["shards"] = json!({ stem: f });
    out
}

/// (rules as set, rules after elimination, derivations, scores, signatures) under a given strategy
fn analyse(w: &World, rel: &Relation, syn: bool, hard: bool, dp_entry: bool, prop: &str, sql: &str, st: &mut Stats)
    -> (String, String, Vec<String>, Vec<i64>, Vec<(usize, Option<String>)>) {
    let rr_set = rel.set_rewriting_rules(setter(w, syn, hard));
    let rr_elim = rr_set.map_rewriting_rules(RewritingRulesEliminator);
    let selected: Vec<RelationWithRewritingRule> = rr_elim.select_rewriting_rules(RewritingRulesSelector);
    let scores: Vec<i64> = selected.iter().map(|d| d.accept(Score) as i64).collect();
    let accept = |p: &Property| if dp_entry { matches!(p, Property::Public | Property::Published | Property::DifferentiallyPrivate | Property::SyntheticData) }
        else { matches!(p, Property::Public | Property::PrivacyUnitPreserving) };
    let mut sigs = vec![];
    for (i, d) in selected.iter().enumerate() {
        if accept(d.attributes().output()) {
            match catch_unwind(AssertUnwindSafe(|| d.rewrite(Rewriter::new(&w.relations)))) {
                Ok(rw) => {
                    if prop == "C02" && dp_entry {
                        if raw(w, d) { st.violation(json!({"kind":"unnoised-path-in-accepted-derivation","query":sql,"synthetic":syn,"root_label":label(d.attributes().output()),"derivation":deriv_coq(d)})); }
                        // (an IR-level walk "every protected leaf lies below a noise map" was tried and removed:
                        //  correct plans release public-valued keys through a LEFT JOIN from VALUES without any
                        //  noise, so the walk raised false alarms; data influence is decided under C01/C04)
                        if ir_reads_protected(w, rw.relation()) { st.bump("accepted_rewriting_reads_protected_table"); }
                        // column lineage: no output column may be a copy / function of a protected column that reaches the
                        // result without passing a mechanism (noise-adding projection, tau-thresholded key release)
                        let protected = |n: &str| w.specs.iter().any(|t| t.protected && (t.name == n || t.path == n));
                        let out = rw.relation();
                        for (ci, f) in out.schema().iter().enumerate() {
                            if let Some(path) = crate::ir::unmechanised_lineage(out, ci, &protected, 0) {
                                st.violation(json!({"kind":"protected-column-reaches-the-result-without-a-mechanism","query":sql,"synthetic":syn,"column":f.name(),"lineage":path,"event":rw.dp_event().to_string()}));
                                break;
                            }
                        }
                        st.bump("lineage_checked");
                    }
                    sigs.push((i, Some(format!("{}|{}", signature(rw.relation()), rw.dp_event()))));
                }
                Err(_) => sigs.push((i, None)),
            }
        }
    }
    (tree_coq(w, &rr_set), tree_coq(w, &rr_elim), selected.iter().map(|d| deriv_coq(d)).collect(), scores, sigs)
}
