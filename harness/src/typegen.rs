//! Random data types over the modelled variants, with values sampled from them.
use crate::common::*;
use qrlew::data_type::{value::Value, DataType};

#[derive(Clone, Debug)]
pub enum Ty {
    Bool(Vec<bool>),
    Int(Vec<(i64, i64)>),
    Float(Vec<(f64, f64)>),
    Text(Option<Vec<String>>),
    Opt(Box<Ty>),
    Struct(Vec<(String, Ty)>),
    List(Box<Ty>, usize, usize),
}

pub fn int_interval(r: &mut Rng) -> (i64, i64) {
    match r.below(10) {
        0 => (i64::MIN, i64::MAX),
        1 => (-1_000_000_000_000, 1_000_000_000_000),
        2 => { let v = *r.pick(&[0, 1, -1, 2, 9007199254740992, 9007199254740993, -9007199254740993, i64::MAX, i64::MIN, i64::MAX - 1, 127, 128, 129]); (v, v) }
        3 => { let a = r.range(-300, 0); let b = r.range(0, 300); (a, b) }
        4 => { let a = r.range(200, 900); (a, a + r.range(0, 60)) }
        5 => (0, 1),
        _ => { let a = r.range(-20, 20); let b = r.range(-20, 20); if a <= b { (a, b) } else { (b, a) } }
    }
}
pub fn float_bound(r: &mut Rng) -> f64 {
    match r.below(12) {
        0 => f64::MAX, 1 => f64::MIN, 2 => 0.0, 3 => -0.0, 4 => 9007199254740992.0, 5 => 9223372036854775808.0,
        6 => 0.5, 7 => (r.range(-40, 40) as f64) / 4.0, 8 => r.range(-5, 5) as f64, 9 => 1e300, 10 => -1e-300,
        _ => (r.range(-1000, 1000) as f64) / 8.0,
    }
}
pub fn float_interval(r: &mut Rng) -> (f64, f64) {
    let a = float_bound(r); let b = if r.chance(1, 2) { a } else { float_bound(r) };
    if a <= b { (a, b) } else { (b, a) }
}
const WORDS: [&str; 8] = ["a", "B", "Z", "abc", "1", "12", "true", "false"];

pub fn gen_ty(r: &mut Rng, depth: u32) -> Ty {
    let k = if depth == 0 { r.below(4) } else { r.below(7) };
    match k {
        0 => { let n = r.range(1, 3); Ty::Int((0..n).map(|_| int_interval(r)).collect()) }
        1 => { let n = r.range(1, 3); Ty::Float((0..n).map(|_| float_interval(r)).collect()) }
        2 => Ty::Bool(match r.below(3) { 0 => vec![true], 1 => vec![false], _ => vec![false, true] }),
        3 => if r.chance(1, 3) { Ty::Text(None) } else { let n = r.range(1, 4); Ty::Text(Some((0..n).map(|_| r.pick(&WORDS).to_string()).collect())) },
        4 => { let inner = gen_ty(r, depth - 1); if matches!(inner, Ty::Opt(_)) { inner } else { Ty::Opt(Box::new(inner)) } }
        5 => { let n = r.range(1, 3); Ty::Struct((0..n).map(|i| (format!("f{}", i), gen_ty(r, depth - 1))).collect()) }
        _ => { let lo = r.range(0, 2) as usize; Ty::List(Box::new(gen_ty(r, depth - 1)), lo, lo + r.range(0, 2) as usize) }
    }
}

pub fn to_dt(t: &Ty) -> DataType {
    match t {
        Ty::Bool(v) => DataType::boolean_values(v.clone()),
        Ty::Int(iv) => DataType::from(iv.iter().fold(qrlew::data_type::Integer::empty(), |s, (a, b)| s.union_interval(*a, *b))),
        Ty::Float(iv) => DataType::from(iv.iter().fold(qrlew::data_type::Float::empty(), |s, (a, b)| s.union_interval(*a, *b))),
        Ty::Text(None) => DataType::text(),
        Ty::Text(Some(v)) => DataType::text_values(v.clone()),
        Ty::Opt(x) => DataType::optional(to_dt(x)),
        Ty::Struct(fs) => DataType::structured(fs.iter().map(|(n, t)| (n.clone(), to_dt(t))).collect::<Vec<_>>()),
        Ty::List(x, lo, hi) => DataType::list(to_dt(x), *lo, *hi),
    }
}

pub fn sample(t: &Ty, r: &mut Rng) -> Value {
    match t {
        Ty::Bool(v) => Value::boolean(*r.pick(v)),
        Ty::Int(iv) => { let (a, b) = *r.pick(iv); Value::integer(match r.below(4) { 0 => a, 1 => b, 2 => a.saturating_add(1).min(b), _ => ((a as i128 + b as i128) / 2) as i64 }) }
        Ty::Float(iv) => { let (a, b) = *r.pick(iv); Value::float(match r.below(4) { 0 => a, 1 => b, 2 => { let m = a / 2.0 + b / 2.0; if m >= a && m <= b { m } else { a } } _ => { let m = (a / 2.0 + b / 2.0).floor(); if m >= a && m <= b { m } else { b } } }) }
        Ty::Text(None) => Value::text(*r.pick(&WORDS)),
        Ty::Text(Some(v)) => Value::text(r.pick(v).clone()),
        Ty::Opt(x) => if r.chance(1, 3) { Value::none() } else { Value::some(sample(x, r)) },
        Ty::Struct(fs) => Value::structured(fs.iter().map(|(n, t)| (n.clone(), std::sync::Arc::new(sample(t, r)))).collect::<Vec<_>>()),
        Ty::List(x, lo, hi) => { let n = r.range(*lo as i64, *hi as i64); Value::list((0..n).map(|_| sample(x, r)).collect::<Vec<_>>()) }
    }
}
