//! Random data types over the modelled variants, with values sampled from them.
use crate::common::*;
use qrlew::data_type::{value::Value, DataType};

#[derive(Clone, Debug)]
pub enum Ty {
    Bool(Vec<bool>),
    Int(Vec<(i64, i64)>),
    Float(Vec<(f64, f64)>),
    Text(Option<Vec<String>>),
    Opt(Box<Ty>),
    Struct(Vec<(String, Ty)>),
    List(Box<Ty>, usize, usize),
}

pub fn int_interval(r: &mut Rng) -> (i64, i64) {
    match r.below(10) {
        0 => (i64::MIN, i64::MAX),
        1 => (-1_000_000_000_000, 1_000_000_000_000),
        2 => { let v = *r.pick(&[0, 1, -1, 2, 9007199254740992, 9007199254740993, -9007199254740993, i64::MAX, i64::MIN, i64::MAX - 1, 127, 128, 129]); (v, v) }
        3 => { let a = r.range(-300, 0); let b = r.range(0, 300); (a, b) }
        4 => { let a = r.range(200, 900); (a, a + r.range(0, 60)) }
        5 => (0, 1),
        _ => { let a = r.range(-20, 20); let b = r.range(-20, 20); if a <= b { (a, b) } else { (b, a) } }
    }
}
pub fn float_bound(r: &mut Rng) -> f64 {
    match r.below(12) {
        0 => f64::MAX, 1 => f64::MIN, 2 => 0.0, 3 => -0.0, 4 => 9007199254740992.0, 5 => 9223372036854775808.0,
        6 => 0.5, 7 => (r.range(-40, 40) as f64) / 4.0, 8 => r.range(-5, 5) as f64, 9 => 1e300, 10 => -1e-300,
        _ => (r.range(-1000, 1000) as f64) / 8.0,
    }
}
pub fn float_interval(r: &mut Rng) -> (f64, f64) {
    let a = float_bound(r); let b = if r.chance(1, 2) { a } else { float_bound(r) };
    if a <= b { (a, b) } else { (b, a) }
}
const WORDS: [&str; 8] = ["a", "B", "Z", "abc", "1", "12", "true", "false"];

pub fn gen_ty(r: &mut Rng, depth: u32) -> Ty {
    let k = if depth == 0 { r.below(4) } else { r.below(7) };
    match k {
        0 => { let n = r.range(1, 3); Ty::Int((0..n).map(|_| int_interval(r)).collect()) }
        1 => { let n = r.range(1, 3); Ty::Float((0..n).map(|_| float_interval(r)).collect()) }
        2 => Ty::Bool(match r.below(3) { 0 => vec![true], 1 => vec![false], _ => vec![false, true] }),
        3 => if r.chance(1, 3) { Ty::Text(None) } else { let n = r.range(1, 4); Ty::Text(Some((0..n).map(|_| r.pick(&WORDS).to_string()).collect())) },
        4 => { let inner = gen_ty(r, depth - 1); if matches!(inner, Ty::Opt(_)) { inner } else { Ty::Opt(Box::new(inner)) } }
        5 => { let n = r.range(1, 3); Ty::Struct((0..n).map(|i| (format!("f{}", i), gen_ty(r, depth - 1))).collect()) }
        _ => { let lo = r.range(0, 2) as usize; Ty::List(Box::new(gen_ty(r, depth - 1)), lo, lo + r.range(0, 2) as usize) }
    }
}

pub fn to_dt(t: &Ty) -> DataType {
    match t {
        Ty::Bool(v) => DataType::boolean_values(v.clone()),
        Ty::Int(iv) => DataType::from(iv.iter().fold(qrlew::data_type::Integer::empty(), |s, (a, b)| s.union_interval(*a, *b))),
        Ty::Float(iv) => DataType::from(iv.iter().fold(qrlew::data_type::Float::empty(), |s, (a, b)| s.union_interval(*a, *b))),
        Ty::Text(None) => DataType::text(),
        Ty::Text(Some(v)) => DataType::text_values(v.clone()),
        Ty::Opt(x) => DataType::optional(to_dt(x)),
        Ty::Struct(fs) => DataType::structured(fs.iter().map(|(n, t)| (n.clone(), to_dt(t))).collect::<Vec<_>>()),
        Ty::List(x, lo, hi) => DataType::list(to_dt(x), *lo, *hi),
    }
}

pub fn sample(t: &Ty, r: &mut Rng) -> Value {
    match t {
        Ty::Bool(v) => Value::boolean(*r.pick(v)),
        Ty::Int(iv) => { let (a, b) = *r.pick(iv); Value::integer(match r.below(4) { 0 => a, 1 => b, 2 => a.saturating_add(1).min(b), _ => ((a as i128 + b as i128) / 2) as i64 }) }
        Ty::Float(iv) => { let (a, b) = *r.pick(iv); Value::float(match r.below(7) { 0 => a, 1 => b, 2 => { let m = a / 2.0 + b / 2.0; if m >= a && m <= b { m } else { a } } 3 => { let m = (a / 2.0 + b / 2.0).floor(); if m >= a && m <= b { m } else { b } }
            // interior points: uniform, and close to either end (finite, not too wide ranges only)
            k => { let w = b - a; if !w.is_finite() || w == 0.0 { a } else { let u = (r.below(1_000_000) as f64 + 0.5) / 1_000_000.0;
                let x = match k { 4 => a + w * u, 5 => a + w * u * 0.05, _ => b - w * u * 0.05 }; if x >= a && x <= b { x } else { a } } } }) }
        Ty::Text(None) => Value::text(*r.pick(&WORDS)),
        Ty::Text(Some(v)) => Value::text(r.pick(v).clone()),
        Ty::Opt(x) => if r.chance(1, 3) { Value::none() } else { Value::some(sample(x, r)) },
        Ty::Struct(fs) => Value::structured(fs.iter().map(|(n, t)| (n.clone(), std::sync::Arc::new(sample(t, r)))).collect::<Vec<_>>()),
        Ty::List(x, lo, hi) => { let n = r.range(*lo as i64, *hi as i64); Value::list((0..n).map(|_| sample(x, r)).collect::<Vec<_>>()) }
    }
}

/// a type that contains `t` (same shape, wider leaves), so that subset tests are often true
pub fn widen(t: &Ty, r: &mut Rng) -> Ty {
    match t {
        Ty::Bool(_) => Ty::Bool(vec![false, true]),
        Ty::Int(iv) => if r.chance(1, 3) { Ty::Float(iv.iter().map(|(a, b)| (*a as f64 - 1.0, *b as f64 + 1.0)).collect()) }
                       else { Ty::Int(iv.iter().map(|(a, b)| (a.saturating_sub(r.range(0, 3)), b.saturating_add(r.range(0, 3)))).collect()) },
        Ty::Float(iv) => Ty::Float(iv.iter().map(|(a, b)| (if r.chance(1, 2) { *a } else { a - 1.0 }, if r.chance(1, 2) { *b } else { b + 1.0 })).collect()),
        Ty::Text(_) => Ty::Text(None),
        Ty::Opt(x) => Ty::Opt(Box::new(widen(x, r))),
        Ty::Struct(fs) => Ty::Struct(fs.iter().map(|(n, x)| (n.clone(), widen(x, r))).collect()),
        Ty::List(x, lo, hi) => Ty::List(Box::new(widen(x, r)), lo.saturating_sub(1), hi + 1),
    }
}

/// the shape of a type: variants and field names, ignoring ranges
pub fn shape(t: &Ty) -> String {
    match t {
        Ty::Bool(_) => "b".into(), Ty::Int(_) => "i".into(), Ty::Float(_) => "f".into(), Ty::Text(_) => "t".into(),
        Ty::Opt(x) => format!("o({})", shape(x)),
        Ty::Struct(fs) => format!("s({})", fs.iter().map(|(n, x)| format!("{}:{}", n, shape(x))).collect::<Vec<_>>().join(",")),
        Ty::List(x, _, _) => format!("l({})", shape(x)),
    }
}
pub fn has_struct(t: &Ty) -> bool {
    match t { Ty::Struct(_) => true, Ty::Opt(x) | Ty::List(x, _, _) => has_struct(x), _ => false }
}

/// The canonical embeddings of a value into (the variant of) a type, composed from the base
/// conversions the type-level dispatcher uses: Boolean -> Integer -> Float, anything printable -> Text,
/// x -> some(x), some(x) -> x, x -> (x), x -> {0: x}, applied structurally.  Several paths can apply
/// (a list can be read element-wise or as one element): all candidates are produced, and membership
/// "up to injection" is: some candidate is contained.
/// `contains` restricted to a value of the type's own variant (the library's contains converts the
/// type into the variant of the value first, which makes float[0.5 +inf) "contain" the text 12)
pub fn strict_contains(t: &DataType, v: &Value) -> bool {
    use qrlew::data_type::Variant as _;
    let same = matches!((t, v), (DataType::Any, _) | (DataType::Unit(_), Value::Unit(_)) | (DataType::Boolean(_), Value::Boolean(_)) | (DataType::Integer(_), Value::Integer(_))
        | (DataType::Float(_), Value::Float(_)) | (DataType::Text(_), Value::Text(_)) | (DataType::Optional(_), Value::Optional(_)) | (DataType::List(_), Value::List(_))
        | (DataType::Struct(_), Value::Struct(_)) | (DataType::Union(_), Value::Union(_)) | (DataType::Date(_), Value::Date(_)) | (DataType::DateTime(_), Value::DateTime(_)));
    // a union type holds the values of its fields
    if let DataType::Union(u) = t { if !matches!(v, Value::Union(_)) { return u.fields().iter().any(|(_, ft)| strict_contains(ft, v)); } }
    if !same { return false; }
    match (t, v) {
        (DataType::Optional(o), Value::Optional(x)) => match x.as_ref() { None => true, Some(x) => strict_contains(o.data_type(), x) },
        (DataType::List(l), Value::List(xs)) => t.contains(v) && xs.iter().all(|x| strict_contains(l.data_type(), x)),
        (DataType::Struct(s), Value::Struct(fs)) => s.fields().iter().all(|(n, ft)| fs.iter().find(|(m, _)| m == n).map(|fv| strict_contains(ft, &fv.1)).unwrap_or(false)),
        _ => t.contains(v),
    }
}
pub fn embeds(t: &DataType, v: &Value, depth: u32) -> Vec<Value> {
    let mut out: Vec<Value> = vec![];
    if strict_contains(t, v) { out.push(v.clone()); }
    if depth == 0 { return out; }
    let d = depth - 1;
    match (t, v) {
        (DataType::Any, _) => out.push(v.clone()),
        (DataType::Optional(o), Value::Optional(x)) => match x.as_ref() {
            None => out.push(Value::none()),
            Some(x) => { for y in embeds(o.data_type(), x, d) { out.push(Value::some(y)); } }
        },
        (DataType::Optional(o), x) => { for y in embeds(o.data_type(), x, d) { out.push(Value::some(y)); } }
        _ => {}
    }
    if let (false, Value::Optional(x)) = (matches!(t, DataType::Optional(_)), v) { if let Some(x) = x.as_ref() { out.extend(embeds(t, x, d)); } }
    match (t, v) {
        (DataType::List(l), Value::List(xs)) => {
            // element-wise (first candidate of each element)
            let ys: Option<Vec<Value>> = xs.iter().map(|x| embeds(l.data_type(), x, d).into_iter().next()).collect();
            if let Some(ys) = ys { out.push(Value::list(ys)); }
            for y in embeds(l.data_type(), v, d) { out.push(Value::list(vec![y])); }
        }
        (DataType::List(l), x) => { for y in embeds(l.data_type(), x, d) { out.push(Value::list(vec![y])); } }
        (DataType::Struct(s), Value::Struct(fs)) => {
            let mut fields: Vec<(String, std::sync::Arc<Value>)> = vec![]; let mut ok = true;
            for (n, ft) in s.fields() {
                match fs.iter().find(|(m, _)| m == n).and_then(|fv| embeds(ft, &fv.1, d).into_iter().next()) { Some(y) => fields.push((n.clone(), std::sync::Arc::new(y))), None => { ok = false; break; } }
            }
            if ok { out.push(Value::structured(fields)); }
            out.extend(embeds(t, &Value::structured(vec![("0".to_string(), std::sync::Arc::new(v.clone()))]), d));
        }
        (DataType::Struct(_), x) => out.extend(embeds(t, &Value::structured(vec![("0".to_string(), std::sync::Arc::new(x.clone()))]), d)),
        (DataType::Union(u), x) => { for (_, ft) in u.fields() { out.extend(embeds(ft, x, d)); } }
        (DataType::Integer(_), Value::Boolean(b)) => out.push(Value::integer(**b as i64)),
        (DataType::Integer(_), Value::Float(f)) => { let x: f64 = **f; if (x as i64) as f64 == x { out.push(Value::integer(x as i64)); } }
        (DataType::Float(_), Value::Integer(i)) => out.push(Value::float(**i as f64)),
        (DataType::Float(_), Value::Boolean(b)) => out.push(Value::float(**b as i64 as f64)),
        (DataType::Boolean(_), Value::Integer(i)) => match **i { 0 => out.push(Value::boolean(false)), 1 => out.push(Value::boolean(true)), _ => {} },
        (DataType::Text(_), Value::Integer(i)) => out.push(Value::text(format!("{}", **i))),
        (DataType::Text(_), Value::Float(f)) => out.push(Value::text(format!("{}", **f))),
        (DataType::Text(_), Value::Boolean(b)) => out.push(Value::text(format!("{}", **b))),
        _ => {}
    }
    out.truncate(24);
    out
}
pub fn embed(t: &DataType, v: &Value) -> Option<Value> {
    embeds(t, v, 6).into_iter().find(|w| strict_contains(t, w))
}
pub fn member(t: &DataType, v: &Value) -> bool {
    match (t, v) {
        (DataType::Union(u), x) => u.fields().iter().any(|(_, ft)| member(ft, x)),
        _ => match std::panic::catch_unwind(std::panic::AssertUnwindSafe(|| embed(t, v).is_some())) { Ok(b) => b, Err(_) => false },
    }
}

/// the float value misses the range by a few units in the last place only
pub fn ulp_close(t: &DataType, v: &Value) -> bool {
    let y = match v { Value::Float(f) => **f, Value::Optional(o) => match o.as_deref() { Some(Value::Float(f)) => **f, _ => return false }, _ => return false };
    let t = match t { DataType::Optional(o) => o.data_type().clone(), x => x.clone() };
    if let DataType::Float(iv) = t {
        iv.iter().any(|[a, b]| { let eps = 1e-8 * y.abs().max(a.abs()).max(b.abs()).max(1.0); y >= a - eps && y <= b + eps })
    } else { false }
}

pub fn is_composite(t: &Ty) -> bool { matches!(t, Ty::Opt(_) | Ty::List(..) | Ty::Struct(_)) }
